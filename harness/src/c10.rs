//! C10 — documents built from scratch reload with the same pages and are valid PDF.
//!
//! Model: lean/PdfModel/Model/Build.lean on top of Model/Storage.lean (driver: Drv/C10.lean).
//!
//! Correspondence stream
//!   c10.build      random page lists (0..n pages) × info dictionary × {cached, uncached} →
//!                  `PdfBuilder::build`; the object numbers the builder hands out (page tree root, kids,
//!                  per page: leaf / resources / content stream, catalog, info, cross-reference stream),
//!                  /Size, /W, every row, every offset and the bytes of the cross-reference stream, all
//!                  read back from the output by the independent reader, against the Lean model of the
//!                  promise / create / fulfil order and of `save`
//! Oracles (implementation against the property itself)
//!   c10.reload     the bytes open with the library and expose the same number of pages in the same order
//!                  with equal boxes, rotation, extra entries, metadata / LGIDict / VP, resources (fonts,
//!                  graphics states), operation sequences, and the same information entries
//!   c10.structure  independent structural reading of the bytes: header first, startxref at the
//!                  cross-reference section, every in-use row at `n g obj` of that number and generation,
//!                  /Size above every object number and equal to the rows, every stream /Length at its
//!                  `endstream`, every reference (trailer included) to an in-use object of that generation,
//!                  no object outside the table, nothing but objects between header and startxref
//!   c10.witness    deterministic documents: 0 pages, 1 page, 255 / 256 / 257 / 300 pages, info, unusual rotations
//!   (steered)      documents padded (info title, or a string entry of the first page) so that the
//!                  cross-reference stream — the largest offset of the table, hence the value that decides
//!                  /W — starts exactly at 255, 256, 257, 65535, 65536, 65537 (thorough: every offset of a
//!                  window around 256 and 65536, and 2^24 − 1, 2^24, 2^24 + 1); all three oracles and the
//!                  correspondence run on them
//!   c10.bytes      the whole file, byte for byte: `PdfBuilder::build` against `BuildBytes.buildB` of the model
//!                  (Model/BuildBytes.lean on Model/SaveBytes.lean): numbering, page dictionary insert order,
//!                  framing of every object, cross-reference stream object, `startxref` trailer. What a page
//!                  contains travels in primitive form, obtained from the library's own `to_primitive` of the
//!                  fields (boxes, rotation, resources) and `serialize_ops`. `Resources` keeps fonts and graphics
//!                  states in `HashMap`s, whose iteration order differs between two equal maps: the comparison is
//!                  modulo the order of the entries inside `/Font` and `/ExtGState` — that order is read from the
//!                  output with the independent reader and the entries of the model's input are put in it (same
//!                  keys required); everything else, offsets and lengths behind them included, is predicted
//! More correspondence (the width decision itself, `byte_len`, is private: it is reached through
//! `XRefTable::write_stream`)
//!   c10.bytelen    tables whose largest first / second field is n: every n of an initial segment, every
//!                  256^k − 2 … 256^k + 2 and random n, against the model's `byteLen`
//!   c10.table      tables of free / in-use / compressed / undefined entries with fields at the width
//!                  boundaries: /W and every byte of the rows against the model's `widths` / `rowBytes`

use crate::c09::pdfread::*;
use crate::c03::render::{show_val, Val};
use crate::c09::{from_prim, measure, pval_to_val, to_dict, to_prim, Appended};
use crate::driver::Driver;
use crate::report::*;
use crate::rng::Rng;
use pdf::build::{CatalogBuilder, PageBuilder, PdfBuilder};
use pdf::content::{Color, LineCap, LineJoin, Matrix, Op, Point, Rgb, ViewRect, Winding};
use pdf::file::FileOptions;
use pdf::font::{Font, FontType};
use pdf::object::{GraphicsStateParameters, InfoDict, Lazy, NoResolve, NoUpdate, Object, ObjectWrite, Rectangle, Resolve, Resources, Trapped};
use pdf::primitive::{Date, Name, PdfString, Primitive, TimeRel};
use serde_json::{json, Value};
use std::collections::{BTreeMap, BTreeSet};
use std::panic::{catch_unwind, AssertUnwindSafe};

#[derive(Clone, Debug)]
struct GenPage {
    ops: Vec<Op>,
    media: Option<[f32; 4]>,
    crop: Option<[f32; 4]>,
    trim: Option<[f32; 4]>,
    rotate: i32,
    other: Vec<(String, PVal)>,
    metadata: Option<PVal>,
    lgi: Option<PVal>,
    vp: Option<PVal>,
    fonts: Vec<(String, String)>,
    /// name, /LW, /CA, /OP
    gs: Vec<(String, f32, Option<f32>, Option<bool>)>,
}

#[derive(Clone, Debug, Default)]
struct GenInfo {
    title: Option<Vec<u8>>,
    author: Option<Vec<u8>>,
    subject: Option<Vec<u8>>,
    keywords: Option<Vec<u8>>,
    creator: Option<Vec<u8>>,
    producer: Option<Vec<u8>>,
    trapped: Option<u8>,
    /// (year, month, day, hour, minute, second, rel 0 earlier / 1 later / 2 universal, tz hour, tz minute)
    created: Option<[u16; 9]>,
    modified: Option<[u16; 9]>,
}

fn num(rng: &mut Rng) -> f32 {
    // operands of operations: ordinary values, exact in binary (how operands are printed and read is C08)
    let whole = rng.range(-300, 900) as f32;
    match rng.below(4) {
        0 => whole,
        1 => whole + 0.5,
        2 => whole + 0.25,
        _ => (rng.below(1000) as f32) / 8.0,
    }
}

fn unit(rng: &mut Rng) -> f32 {
    (rng.below(9) as f32) / 8.0
}

/// a coordinate of a page box: ordinary, and every unusual-but-legal kind — negative, zero, minus zero,
/// fractions that are not exact in binary, tiny, large, beyond the i32 range
fn coord(rng: &mut Rng) -> f32 {
    match rng.below(16) {
        0..=5 => (rng.below(2000) as f32) / 2.0,
        6 => -((rng.below(2000) as f32) / 4.0),
        7 => 0.0,
        8 => -0.0,
        9 => (rng.below(100000) as f32) / 1000.0,
        10 => *rng.pick(&[0.1f32, 0.001, 1.5e-5, 3.3333333, 0.7, 1e-7]),
        11 => *rng.pick(&[14400.0f32, 1e6, 8388608.5, 16777216.0, 16777217.0, 1e9, 4294967296.0, 1e12, -1e12]),
        12 => *rng.pick(&[255.0f32, 256.0, 257.0, 65535.0, 65536.0, 2147483647.0, -2147483648.0, 2147483648.0]),
        13 => -(rng.below(100000) as f32) / 7.0,
        14 => f32::from_bits(0x3f800000 + rng.below(0x0a000000) as u32),
        _ => 612.0,
    }
}

/// a box: usually lower-left / upper-right, sometimes reversed, degenerate or far away
fn rect(rng: &mut Rng) -> [f32; 4] {
    match rng.below(8) {
        0..=3 => {
            let l = (rng.below(100) as f32) / 2.0;
            let b = (rng.below(100) as f32) / 2.0;
            [l, b, l + 100.0 + rng.below(500) as f32, b + 100.0 + (rng.below(700) as f32) / 4.0]
        }
        4 => {
            // reversed corners
            let r = rect_plain(rng);
            [r[2], r[3], r[0], r[1]]
        }
        5 => {
            let x = coord(rng);
            [x, x, x, x]
        }
        _ => [coord(rng), coord(rng), coord(rng), coord(rng)],
    }
}

fn rect_plain(rng: &mut Rng) -> [f32; 4] {
    let l = (rng.below(100) as f32) / 2.0;
    let b = (rng.below(100) as f32) / 2.0;
    [l, b, l + 100.0 + rng.below(500) as f32, b + 100.0 + (rng.below(700) as f32) / 4.0]
}

/// /Rotate: the four ordinary values, legal multiples of 90 outside 0..360 (negative, ≥ 360, huge), and
/// integers that are no multiple of 90 at all — the builder has to write whatever it is given
fn rotation(rng: &mut Rng) -> i32 {
    match rng.below(10) {
        0..=3 => *rng.pick(&[0, 90, 180, 270]),
        4..=6 => *rng.pick(&[-90, -180, -270, -360, -450, -720, 360, 450, 540, 630, 720, 810, 3600, 36090, 2147483610, -2147483610]),
        7 => 90 * rng.range(-1000, 1000) as i32,
        8 => *rng.pick(&[1, -1, 45, 89, 91, 359, 361, i32::MAX, i32::MIN + 1, i32::MIN]),
        _ => rng.next() as i32,
    }
}

fn text(rng: &mut Rng) -> Vec<u8> {
    match rng.below(8) {
        0 => vec![],
        1..=4 => {
            let n = 1 + rng.usize(12);
            (0..n).map(|_| *rng.pick(b"abcdefgh XYZ0123456789.,-")).collect()
        }
        5 => {
            // delimiters, escapes, line ends, high bytes
            let n = 1 + rng.usize(10);
            (0..n).map(|_| *rng.pick(b"()\\\r\n\t <>[]/%#\x00\x7f\x80\xe9\xfe\xff")).collect()
        }
        6 => {
            let n = 1 + rng.usize(20);
            rng.bytes(n)
        }
        _ => {
            let n = 200 + rng.usize(2000);
            (0..n).map(|_| *rng.pick(b"long text 0123456789")).collect()
        }
    }
}

fn name(rng: &mut Rng, prefix: &str) -> String {
    match rng.below(8) {
        0 => format!("{} {}", prefix, rng.below(4)),
        1 => format!("{}#{}/{}", prefix, rng.below(4), rng.below(3)),
        2 => format!("{}\u{e9}({})", prefix, rng.below(4)),
        _ => format!("{}{}", prefix, rng.below(4)),
    }
}

/// simple operations only: how every operator is written and read back is C08
fn gen_ops(rng: &mut Rng, fonts: &[(String, String)], gs: &[(String, f32, Option<f32>, Option<bool>)]) -> Vec<Op> {
    // mostly short; sometimes none, sometimes very long (the stream /Length grows digits, offsets move)
    let n = match rng.below(30) { 0..=2 => 0, 3 => 300 + rng.usize(2500), _ => rng.usize(9) };
    let mut ops = vec![];
    for _ in 0..n {
        match rng.below(14) {
            0 => {
                ops.push(Op::MoveTo { p: Point { x: num(rng), y: num(rng) } });
                ops.push(Op::LineTo { p: Point { x: num(rng), y: num(rng) } });
                ops.push(Op::Stroke);
            }
            1 => {
                ops.push(Op::Rect { rect: ViewRect { x: num(rng), y: num(rng), width: num(rng).abs() + 1.0, height: num(rng).abs() + 1.0 } });
                ops.push(Op::Fill { winding: if rng.chance(1, 2) { Winding::NonZero } else { Winding::EvenOdd } });
            }
            2 => ops.push(Op::Save),
            3 => ops.push(Op::Restore),
            4 => ops.push(Op::LineWidth { width: num(rng).abs() }),
            5 => ops.push(Op::Transform { matrix: Matrix { a: num(rng), b: 0.0, c: 0.0, d: num(rng), e: num(rng), f: num(rng) } }),
            6 => ops.push(Op::FillColor { color: Color::Gray(unit(rng)) }),
            7 => ops.push(Op::StrokeColor { color: Color::Rgb(Rgb { red: unit(rng), green: unit(rng), blue: unit(rng) }) }),
            8 => ops.push(Op::LineCap { cap: *rng.pick(&[LineCap::Butt, LineCap::Round, LineCap::Square]) }),
            9 => ops.push(Op::LineJoin { join: *rng.pick(&[LineJoin::Miter, LineJoin::Round, LineJoin::Bevel]) }),
            10 => {
                ops.push(Op::BeginText);
                let f = if fonts.is_empty() { "F9".to_string() } else { rng.pick(fonts).0.clone() };
                ops.push(Op::TextFont { name: Name::from(f.as_str()), size: 6.0 + rng.below(40) as f32 / 2.0 });
                ops.push(Op::MoveTextPosition { translation: Point { x: num(rng), y: num(rng) } });
                ops.push(Op::TextDraw { text: PdfString::new(text(rng).as_slice().into()) });
                ops.push(Op::EndText);
            }
            11 => {
                if !gs.is_empty() {
                    ops.push(Op::GraphicsState { name: Name::from(rng.pick(gs).0.as_str()) });
                }
            }
            12 => ops.push(Op::EndPath),
            _ => ops.push(Op::MiterLimit { limit: 1.0 + rng.below(20) as f32 / 2.0 }),
        }
    }
    ops
}

fn extra_val(rng: &mut Rng) -> PVal {
    match rng.below(9) {
        0 => PVal::Int(rng.range(-9, 99999)),
        1 => PVal::Int(*rng.pick(&[0i64, -1, 255, 256, 65535, 65536, 2147483647, -2147483648])),
        2 => PVal::Real(format!("{}", coord(rng))),
        3 => PVal::Name((*rng.pick(&["DeviceRGB", "Tag", "A.b-c_d", "with space", "h#sh", "sl/ash", "(paren)", "\u{e9}t\u{e9}", ""])).to_string()),
        4 => PVal::Str(text(rng)),
        5 => PVal::Arr(vec![PVal::Int(rng.range(0, 9)), PVal::Bool(rng.chance(1, 2)), PVal::Null]),
        6 => PVal::Arr((0..rng.usize(4)).map(|_| PVal::Real(format!("{}", coord(rng)))).collect()),
        7 => PVal::Bool(rng.chance(1, 2)),
        _ => PVal::Dict(vec![("K".into(), PVal::Int(rng.range(0, 9))), ("N".into(), PVal::Name("x".into())), (name(rng, "k"), PVal::Str(text(rng)))]),
    }
}

fn gen_page(rng: &mut Rng) -> GenPage {
    let many = rng.chance(1, 25);
    let mut fonts = vec![];
    for k in 0..if many { 8 + rng.usize(8) } else { rng.usize(3) } {
        let n = if many { format!("F{}", k) } else { name(rng, "F") };
        if !fonts.iter().any(|f: &(String, String)| f.0 == n) {
            fonts.push((n, (*rng.pick(&["Helvetica", "Times-Roman", "Courier-Bold"])).to_string()));
        }
    }
    let mut gs = vec![];
    for k in 0..if many { 8 + rng.usize(8) } else { rng.usize(3) } {
        let n = if many { format!("GS{}", k) } else { name(rng, "GS") };
        if !gs.iter().any(|g: &(String, f32, Option<f32>, Option<bool>)| g.0 == n) {
            gs.push((n, 0.5 + rng.below(20) as f32 / 4.0, if rng.chance(1, 2) { Some(unit(rng)) } else { None }, if rng.chance(1, 3) { Some(rng.chance(1, 2)) } else { None }));
        }
    }
    let mut other = vec![];
    for k in ["UserUnit", "Tabs", "PieceInfo", "StructParents", "XCustom", "X Custom #2", "\u{fc}ber"] {
        if rng.chance(1, 4) {
            other.push((k.to_string(), extra_val(rng)));
        }
    }
    let opt = |rng: &mut Rng| if rng.chance(1, 5) { Some(extra_val(rng)) } else { None };
    GenPage {
        ops: gen_ops(rng, &fonts, &gs),
        media: if rng.chance(4, 5) { Some(rect(rng)) } else { None },
        crop: if rng.chance(1, 3) { Some(rect(rng)) } else { None },
        trim: if rng.chance(1, 4) { Some(rect(rng)) } else { None },
        rotate: rotation(rng),
        other,
        metadata: opt(rng),
        lgi: opt(rng),
        vp: opt(rng),
        fonts,
        gs,
    }
}

fn gen_date(rng: &mut Rng) -> [u16; 9] {
    let rel = rng.below(3) as u16;
    let (th, tm) = if rel == 2 { (0, 0) } else { (rng.below(15) as u16, *rng.pick(&[0u16, 30, 45])) };
    [*rng.pick(&[1970u16, 1999, 2000, 2024, 9999, 1]), 1 + rng.below(12) as u16, 1 + rng.below(28) as u16, rng.below(24) as u16, rng.below(60) as u16, rng.below(60) as u16, rel, th, tm]
}

fn gen_info(rng: &mut Rng) -> GenInfo {
    let s = |rng: &mut Rng| if rng.chance(1, 2) { Some(text(rng)) } else { None };
    GenInfo {
        title: s(rng),
        author: s(rng),
        subject: s(rng),
        keywords: s(rng),
        creator: s(rng),
        producer: s(rng),
        trapped: if rng.chance(1, 3) { Some(rng.below(3) as u8) } else { None },
        created: if rng.chance(1, 3) { Some(gen_date(rng)) } else { None },
        modified: if rng.chance(1, 4) { Some(gen_date(rng)) } else { None },
    }
}

fn date_of(d: &[u16; 9]) -> Date {
    Date {
        year: d[0],
        month: d[1] as u8,
        day: d[2] as u8,
        hour: d[3] as u8,
        minute: d[4] as u8,
        second: d[5] as u8,
        rel: match d[6] { 0 => TimeRel::Earlier, 1 => TimeRel::Later, _ => TimeRel::Universal },
        tz_hour: d[7] as u8,
        tz_minute: d[8] as u8,
    }
}

fn rectangle(r: [f32; 4]) -> Rectangle {
    Rectangle { left: r[0], bottom: r[1], right: r[2], top: r[3] }
}

fn font_dict(base: &str) -> Primitive {
    to_prim(&PVal::Dict(vec![
        ("Type".into(), PVal::Name("Font".into())),
        ("Subtype".into(), PVal::Name("Type1".into())),
        ("BaseFont".into(), PVal::Name(base.into())),
    ]))
}

fn gs_dict(g: &(String, f32, Option<f32>, Option<bool>)) -> Primitive {
    let mut d = vec![("Type".to_string(), PVal::Name("ExtGState".into())), ("LW".to_string(), PVal::Real(format!("{}", g.1)))];
    if let Some(ca) = g.2 {
        d.push(("CA".into(), PVal::Real(format!("{}", ca))));
    }
    if let Some(op) = g.3 {
        d.push(("OP".into(), PVal::Bool(op)));
    }
    to_prim(&PVal::Dict(d))
}

fn page_builder(p: &GenPage) -> Result<PageBuilder, String> {
    let mut res = Resources::default();
    for (n, base) in &p.fonts {
        let lazy = Lazy::<Font>::from_primitive(font_dict(base), &NoResolve).map_err(|e| format!("lazy font: {}", e))?;
        res.fonts.insert(Name::from(n.as_str()), lazy);
    }
    for g in &p.gs {
        let v = GraphicsStateParameters::from_primitive(gs_dict(g), &NoResolve).map_err(|e| format!("gs: {}", e))?;
        res.graphics_states.insert(Name::from(g.0.as_str()), v);
    }
    Ok(PageBuilder {
        ops: p.ops.clone(),
        media_box: p.media.map(rectangle),
        crop_box: p.crop.map(rectangle),
        trim_box: p.trim.map(rectangle),
        resources: res,
        rotate: p.rotate,
        metadata: p.metadata.as_ref().map(to_prim),
        lgi: p.lgi.as_ref().map(to_prim),
        vp: p.vp.as_ref().map(to_prim),
        other: to_dict(&p.other),
    })
}

fn info_dict(i: &GenInfo) -> InfoDict {
    let s = |x: &Option<Vec<u8>>| x.as_ref().map(|b| PdfString::new(b.as_slice().into()));
    InfoDict {
        title: s(&i.title),
        author: s(&i.author),
        subject: s(&i.subject),
        keywords: s(&i.keywords),
        creator: s(&i.creator),
        producer: s(&i.producer),
        trapped: i.trapped.map(|t| match t { 0 => Trapped::True, 1 => Trapped::False, _ => Trapped::Unknown }),
        creation_date: i.created.as_ref().map(date_of),
        mod_date: i.modified.as_ref().map(date_of),
    }
}

fn build(pages: &[GenPage], info: &Option<GenInfo>, cached: bool) -> Result<Vec<u8>, String> {
    let mut pbs = vec![];
    for p in pages {
        pbs.push(page_builder(p)?);
    }
    let r = catch_unwind(AssertUnwindSafe(|| {
        if cached {
            let b = PdfBuilder::new(FileOptions::cached());
            let b = match info { Some(i) => b.info(info_dict(i)), None => b };
            b.build(CatalogBuilder::from_pages(pbs)).map_err(|e| format!("build: {}", e))
        } else {
            let b = PdfBuilder::new(FileOptions::uncached());
            let b = match info { Some(i) => b.info(info_dict(i)), None => b };
            b.build(CatalogBuilder::from_pages(pbs)).map_err(|e| format!("build: {}", e))
        }
    }));
    match r {
        Ok(x) => x,
        Err(_) => Err("panic in PdfBuilder::build".into()),
    }
}

fn rect_eq(a: Option<Rectangle>, b: Option<[f32; 4]>) -> bool {
    match (a, b) {
        (None, None) => true,
        (Some(a), Some(b)) => a.left == b[0] && a.bottom == b[1] && a.right == b[2] && a.top == b[3],
        _ => false,
    }
}

fn opt_prim_eq(a: &Option<Primitive>, b: &Option<PVal>, r: &impl Resolve) -> bool {
    match (a, b) {
        (None, None) => true,
        // an explicit `null` is not written at all
        (None, Some(PVal::Null)) => true,
        (Some(a), Some(b)) => from_prim(a, r).canon() == b.canon(),
        _ => false,
    }
}

/// (a) reload with the library and compare; returns the list of differences
fn check_reload(bytes: &[u8], pages: &[GenPage], info: &Option<GenInfo>, cached: bool) -> Vec<(String, String)> {
    let mut bad: Vec<(String, String)> = vec![];
    let r = catch_unwind(AssertUnwindSafe(|| -> Result<Vec<(String, String)>, String> {
        let mut bad = vec![];
        macro_rules! go {
            ($file:expr) => {{
                let file = $file;
                let res = file.resolver();
                if file.num_pages() as usize != pages.len() {
                    bad.push(("page-count".to_string(), format!("{} pages built, {} pages after reload", pages.len(), file.num_pages())));
                }
                for (i, gp) in pages.iter().enumerate() {
                    let page = match file.get_page(i as u32) {
                        Ok(p) => p,
                        Err(e) => {
                            bad.push(("page-missing".to_string(), format!("page {}: {}", i, e)));
                            continue;
                        }
                    };
                    if !rect_eq(page.media_box, gp.media) { bad.push(("media-box".to_string(), format!("page {}: {:?} vs {:?}", i, page.media_box, gp.media))); }
                    if !rect_eq(page.crop_box, gp.crop) { bad.push(("crop-box".to_string(), format!("page {}: {:?} vs {:?}", i, page.crop_box, gp.crop))); }
                    if !rect_eq(page.trim_box, gp.trim) { bad.push(("trim-box".to_string(), format!("page {}: {:?} vs {:?}", i, page.trim_box, gp.trim))); }
                    if page.rotate != gp.rotate { bad.push(("rotate".to_string(), format!("page {}: {} vs {}", i, page.rotate, gp.rotate))); }
                    let got_other = from_prim(&Primitive::Dictionary(page.other.clone()), &res).canon();
                    let want_other = PVal::Dict(gp.other.iter().filter(|(_, v)| *v != PVal::Null).cloned().collect()).canon();
                    if got_other != want_other { bad.push(("other-entries".to_string(), format!("page {}: {} vs {}", i, got_other, want_other))); }
                    if !opt_prim_eq(&page.metadata, &gp.metadata, &res) { bad.push(("metadata".to_string(), format!("page {}: {:?} vs {:?}", i, page.metadata, gp.metadata))); }
                    if !opt_prim_eq(&page.lgi, &gp.lgi, &res) { bad.push(("lgi".to_string(), format!("page {}: {:?} vs {:?}", i, page.lgi, gp.lgi))); }
                    if !opt_prim_eq(&page.vp, &gp.vp, &res) { bad.push(("vp".to_string(), format!("page {}: {:?} vs {:?}", i, page.vp, gp.vp))); }
                    // operations
                    match page.contents.as_ref() {
                        // no /Contents at all is the empty operation sequence
                        None => if !gp.ops.is_empty() { bad.push(("contents-missing".to_string(), format!("page {} has no /Contents but {} operations were built", i, gp.ops.len()))) },
                        Some(c) => match c.operations(&res) {
                            Ok(ops) => {
                                let got = format!("{:?}", ops);
                                let want = format!("{:?}", gp.ops);
                                if got != want { bad.push(("operations".to_string(), format!("page {}: read {} built {}", i, got, want))); }
                            }
                            Err(e) => bad.push(("operations-unreadable".to_string(), format!("page {}: {}", i, e))),
                        },
                    }
                    // resources
                    match page.resources() {
                        Err(e) => if !gp.fonts.is_empty() || !gp.gs.is_empty() { bad.push(("resources-missing".to_string(), format!("page {}: {}", i, e))) },
                        Ok(rs) => {
                            let mut fnames: Vec<String> = rs.fonts.keys().map(|k| k.as_str().to_string()).collect();
                            fnames.sort();
                            let mut want: Vec<String> = gp.fonts.iter().map(|f| f.0.clone()).collect();
                            want.sort();
                            if fnames != want { bad.push(("font-names".to_string(), format!("page {}: {:?} vs {:?}", i, fnames, want))); }
                            for (n, base) in &gp.fonts {
                                if let Some(l) = rs.fonts.get(n.as_str()) {
                                    match l.load(&res) {
                                        Ok(f) => {
                                            let nm = f.name.as_ref().map(|x| x.as_str().to_string());
                                            if !matches!(f.subtype, FontType::Type1) || nm.as_deref() != Some(base.as_str()) {
                                                bad.push(("font".to_string(), format!("page {} font {}: {:?} {:?} vs Type1 {}", i, n, f.subtype, nm, base)));
                                            }
                                        }
                                        Err(e) => bad.push(("font-unreadable".to_string(), format!("page {} font {}: {}", i, n, e))),
                                    }
                                }
                            }
                            let mut gnames: Vec<String> = rs.graphics_states.keys().map(|k| k.as_str().to_string()).collect();
                            gnames.sort();
                            let mut want: Vec<String> = gp.gs.iter().map(|g| g.0.clone()).collect();
                            want.sort();
                            if gnames != want { bad.push(("gs-names".to_string(), format!("page {}: {:?} vs {:?}", i, gnames, want))); }
                            for g in &gp.gs {
                                if let Some(v) = rs.graphics_states.get(g.0.as_str()) {
                                    if v.line_width != Some(g.1) || v.stroke_alpha != g.2 || v.overprint != g.3 {
                                        bad.push(("graphics-state".to_string(), format!("page {} {}: LW {:?} CA {:?} OP {:?} vs {:?}", i, g.0, v.line_width, v.stroke_alpha, v.overprint, g)));
                                    }
                                }
                            }
                            if !rs.xobjects.is_empty() || !rs.color_spaces.is_empty() || !rs.pattern.is_empty() || !rs.properties.is_empty() {
                                bad.push(("resources-extra".to_string(), format!("page {}: resource categories that were not built", i)));
                            }
                        }
                    }
                }
                if file.get_page(pages.len() as u32).is_ok() {
                    bad.push(("page-count".to_string(), format!("page {} exists although {} were built", pages.len(), pages.len())));
                }
                // information entries
                let s = |x: &Option<PdfString>| x.as_ref().map(|p| p.as_bytes().to_vec());
                match (&file.trailer.info_dict, info) {
                    (None, None) => {}
                    (Some(got), Some(w)) => {
                        let t = got.trapped.as_ref().map(|t| match t { Trapped::True => 0u8, Trapped::False => 1, Trapped::Unknown => 2 });
                        if s(&got.title) != w.title || s(&got.author) != w.author || s(&got.subject) != w.subject || s(&got.keywords) != w.keywords
                            || s(&got.creator) != w.creator || s(&got.producer) != w.producer || t != w.trapped
                            || format!("{:?}", got.creation_date) != format!("{:?}", w.created.as_ref().map(date_of))
                            || format!("{:?}", got.mod_date) != format!("{:?}", w.modified.as_ref().map(date_of)) {
                            bad.push(("info".to_string(), format!("information dictionary differs: {:?} vs {:?}", got, w)));
                        }
                    }
                    (a, b) => bad.push(("info".to_string(), format!("information dictionary {:?} after reload, {:?} built", a.is_some(), b.is_some()))),
                }
            }};
        }
        if cached {
            go!(FileOptions::cached().load(bytes.to_vec()).map_err(|e| format!("{}", e))?);
        } else {
            go!(FileOptions::uncached().load(bytes.to_vec()).map_err(|e| format!("{}", e))?);
        }
        Ok(bad)
    }));
    match r {
        Ok(Ok(b)) => bad.extend(b),
        Ok(Err(e)) => bad.push(("does-not-open".into(), format!("the built bytes do not open: {}", e))),
        Err(_) => bad.push(("panic".into(), "panic while reading the built bytes back".into())),
    }
    bad
}

pub struct Structure {
    pub ap: Appended,
    pub rows: BTreeMap<u64, Row>,
    pub objects: BTreeMap<u64, IndObj>,
    pub size: i64,
    pub trailer: PVal,
}

/// (b) independent structural reading
pub fn check_structure(bytes: &[u8]) -> (Option<Structure>, Vec<(String, String)>) {
    let mut bad: Vec<(String, String)> = vec![];
    if !bytes.starts_with(b"%PDF-") {
        bad.push(("header".into(), "the file does not start with %PDF-".into()));
        return (None, bad);
    }
    let header_end = bytes.iter().position(|b| *b == b'\n').map(|p| p + 1).unwrap_or(bytes.len());
    let ap = match measure(bytes, header_end, 0) {
        Ok(a) => a,
        Err(e) => {
            bad.push(("unreadable".into(), format!("independent reader: {}", e)));
            return (None, bad);
        }
    };
    let sec = ap.xref.clone().unwrap();
    if sec.at != ap.xpos as usize {
        bad.push(("startxref".into(), "startxref does not point at the cross-reference section".into()));
    }
    if !bytes.ends_with(b"%%EOF") && !bytes.ends_with(b"%%EOF\n") {
        bad.push(("eof".into(), "the file does not end with %%EOF".into()));
    }
    let size = sec.trailer.get("Size").and_then(|v| v.as_int()).unwrap_or(-1);
    let mut rows: BTreeMap<u64, Row> = BTreeMap::new();
    for (first, rs) in &sec.subs {
        for (i, r) in rs.iter().enumerate() {
            if rows.insert(first + i as u64, r.clone()).is_some() {
                bad.push(("duplicate-row".into(), format!("object {} has two rows", first + i as u64)));
            }
        }
    }
    if let Some((max, _)) = rows.iter().next_back() {
        if (*max as i64) >= size {
            bad.push(("size".into(), format!("/Size {} is not above row {}", size, max)));
        }
    }
    if sec.trailer.get("Prev").is_some() {
        bad.push(("prev".into(), "a document built from scratch has a /Prev".into()));
    }
    match rows.get(&0) {
        Some(Row::Free { gen: 65535, .. }) => {}
        other => bad.push(("object-zero".into(), format!("object 0 is {:?}, expected the head of the free list", other))),
    }
    // every object in the file, by number
    let mut objects: BTreeMap<u64, IndObj> = BTreeMap::new();
    for o in &ap.objs {
        if o.id as i64 >= size {
            bad.push(("size".into(), format!("/Size {} is not above object number {}", size, o.id)));
        }
        match rows.get(&o.id) {
            Some(Row::InUse { off, gen }) if *off as usize == o.start && *gen == o.gen => {}
            other => bad.push(("object-without-row".into(), format!("object {} {} at {} has row {:?}", o.id, o.gen, o.start, other))),
        }
        if objects.insert(o.id, o.clone()).is_some() {
            bad.push(("duplicate-object".into(), format!("object {} is written twice", o.id)));
        }
    }
    // every in-use row points at its object
    for (id, r) in &rows {
        match r {
            Row::InUse { off, gen } => match indirect_at(bytes, *off as usize, &|_, _| None) {
                Ok(o) if o.id == *id && o.gen == *gen => {}
                Ok(o) => bad.push(("row-points-at-other-object".into(), format!("row {} (gen {}) points at `{} {} obj`", id, gen, o.id, o.gen))),
                Err(e) => bad.push(("row-points-at-no-object".into(), format!("row {}: {}", id, e))),
            },
            Row::Compressed { .. } => bad.push(("compressed-row".into(), format!("row {} is compressed: the builder writes no object streams", id))),
            Row::Free { .. } => {}
        }
    }
    // references
    let defined = |id: u64, gen: u64| matches!(rows.get(&id), Some(Row::InUse { gen: g, .. }) if *g == gen);
    let mut refs = vec![];
    sec.trailer.refs(&mut refs);
    for (a, b) in &refs {
        if !defined(*a, *b) {
            bad.push(("undefined-reference".into(), format!("the trailer refers to {} {} R which is not an in-use object", a, b)));
        }
    }
    for o in &ap.objs {
        let mut refs = vec![];
        o.val.refs(&mut refs);
        for (a, b) in &refs {
            if !defined(*a, *b) {
                bad.push(("undefined-reference".into(), format!("object {} refers to {} {} R which is not an in-use object", o.id, a, b)));
            }
        }
        // stream /Length was checked by `indirect_at` (the data must end at `endstream`); a direct integer is required
        if let PVal::Stream(d, data) = &o.val {
            match PVal::Dict(d.clone()).get("Length") {
                Some(PVal::Int(n)) if *n as usize == data.len() => {}
                other => bad.push(("stream-length".into(), format!("object {}: /Length {:?} for {} bytes", o.id, other, data.len()))),
            }
        }
    }
    if sec.trailer.get("Root").and_then(|r| r.as_ref()).is_none() {
        bad.push(("root".into(), "the trailer has no /Root reference".into()));
    }
    let trailer = sec.trailer.clone();
    (Some(Structure { ap, rows, objects, size, trailer }), bad)
}

/// the answer of the implementation in the notation of `c10.build`
fn impl_answer(bytes: &[u8], st: &Structure) -> (String, String) {
    let ap = &st.ap;
    let n = ap.objs.len();
    // request: record lengths
    let mut lens = vec![];
    for i in 0..n.saturating_sub(1) {
        lens.push(format!("{}.{}", ap.objs[i].id, ap.objs[i + 1].start - ap.objs[i].start));
    }
    let x = &ap.objs[n - 1];
    let layout = format!("{} {} {}", if lens.is_empty() { "-".to_string() } else { lens.join(",") }, x.end - x.start, bytes.len() - x.end);
    // answer
    let root = st.trailer.get("Root").and_then(|r| r.as_ref()).map(|r| r.0).unwrap_or(0);
    let tree = st.objects.get(&root).and_then(|o| o.val.get("Pages")).and_then(|r| r.as_ref()).map(|r| r.0).unwrap_or(0);
    let kids: Vec<u64> = st.objects.get(&tree).and_then(|o| o.val.get("Kids")).and_then(|k| k.as_arr()).map(|a| a.iter().filter_map(|r| r.as_ref()).map(|r| r.0).collect()).unwrap_or_default();
    let pages: Vec<String> = kids
        .iter()
        .map(|k| {
            let o = st.objects.get(k);
            let r = o.and_then(|o| o.val.get("Resources")).and_then(|r| r.as_ref()).map(|r| r.0.to_string()).unwrap_or("?".into());
            let c = o.and_then(|o| o.val.get("Contents")).and_then(|r| r.as_ref()).map(|r| r.0.to_string()).unwrap_or("?".into());
            format!("{}.{}.{}", k, r, c)
        })
        .collect();
    let info = st.trailer.get("Info").and_then(|r| r.as_ref()).map(|r| r.0.to_string()).unwrap_or("n".into());
    let sec = ap.xref.as_ref().unwrap();
    let rows = if sec.subs.len() == 1 && sec.subs[0].0 == 0 { sec.subs[0].1.iter().map(|r| r.show()).collect::<Vec<_>>().join(",") } else { "subsections".into() };
    let objs = ap.objs.iter().map(|o| format!("{}.{}@{}", o.id, o.gen, o.start)).collect::<Vec<_>>().join(",");
    let w = if sec.w.len() == 3 { format!("{}.{}", sec.w[1], sec.w[2]) } else { "?".into() };
    let data = match sec.obj.as_ref().map(|o| &o.val) {
        Some(PVal::Stream(d, data)) if PVal::Dict(d.clone()).get("Filter").is_none() => crate::driver::hex(data),
        _ => "filtered".into(),
    };
    let kids_s = if kids.is_empty() { "-".to_string() } else { kids.iter().map(|k| k.to_string()).collect::<Vec<_>>().join("+") };
    let ans = format!(
        "ok/{}/{}/{}/{}/{}/{}/{}/{}/{}/{}/{}/{}",
        tree,
        kids_s,
        if pages.is_empty() { "-".to_string() } else { pages.join(",") },
        root,
        info,
        ap.xpos,
        st.size,
        w,
        objs,
        rows,
        bytes.len(),
        data
    );
    (layout, ans)
}

struct Case {
    pages: Vec<GenPage>,
    info: Option<GenInfo>,
    /// cache mode of the builder's storage
    cached: bool,
    /// cache mode of the reload (independent of the builder's)
    reload_cached: bool,
}

fn gen_case(rng: &mut Rng) -> Case {
    let n = match rng.below(20) {
        0..=1 => 0,
        2..=12 => 1 + rng.usize(4),
        13..=16 => 5 + rng.usize(12),
        17..=18 => 20 + rng.usize(60),
        // around the widths of a one-byte kid count / object number
        _ => *rng.pick(&[84usize, 85, 86, 127, 128, 255, 256, 257]),
    };
    let pages = (0..n).map(|_| gen_page(rng)).collect();
    Case { pages, info: if rng.chance(2, 3) { Some(gen_info(rng)) } else { None }, cached: rng.chance(1, 2), reload_cached: rng.chance(1, 2) }
}

const PAD_KEY: &str = "XPad";

/// the case with `k` bytes of padding: in the title of the info dictionary if there is one (the info
/// object is the last one before the cross-reference stream), else in a string entry of the first page
fn padded(c: &Case, k: usize) -> Case {
    let pad = vec![b'x'; k];
    let mut pages = c.pages.clone();
    let mut info = c.info.clone();
    match info.as_mut() {
        Some(i) => i.title = Some(pad),
        None => {
            if let Some(p) = pages.first_mut() {
                p.other.retain(|(key, _)| key != PAD_KEY);
                p.other.push((PAD_KEY.to_string(), PVal::Str(pad)));
            }
        }
    }
    Case { pages, info, cached: c.cached, reload_cached: c.reload_cached }
}

/// Pad the case until its cross-reference stream starts exactly at `target` (every byte of padding moves
/// it by one, except where a length gains a digit: hence the loop). `None`: the document is too large
/// already, or has nothing to pad.
fn steer(c: &Case, target: usize) -> Option<Case> {
    if c.info.is_none() && c.pages.is_empty() {
        return None;
    }
    let mut k = 0usize;
    for _ in 0..8 {
        let pc = padded(c, k);
        let bytes = build(&pc.pages, &pc.info, pc.cached).ok()?;
        let x = last_startxref(&bytes).ok()? as usize;
        if x == target {
            return Some(pc);
        }
        if x > target {
            if x - target > k {
                return None;
            }
            k -= x - target;
        } else {
            k += target - x;
        }
    }
    None
}

/// a document small enough to be padded up to `target`
fn gen_case_below(rng: &mut Rng, target: usize, want_info: bool) -> Case {
    let n = if target < 1000 {
        0
    } else if target < 100_000 {
        rng.usize(30)
    } else {
        1 + rng.usize(3)
    };
    let mut pages: Vec<GenPage> = (0..n).map(|_| gen_page(rng)).collect();
    for p in pages.iter_mut() {
        if p.ops.len() > 40 {
            p.ops.truncate(40);
        }
    }
    if !want_info && pages.is_empty() {
        pages.push(gen_page(rng));
    }
    let info = if want_info {
        let mut i = gen_info(rng);
        if target < 1000 {
            i = GenInfo { trapped: i.trapped, ..Default::default() };
        }
        Some(i)
    } else {
        None
    };
    Case { pages, info, cached: rng.chance(1, 2), reload_cached: rng.chance(1, 2) }
}

fn run_case(c: &Case, name: &str, replay: Value, st: &mut Stream, o_reload: &mut Oracle, o_struct: &mut Oracle, reqs: &mut Vec<String>, imps: &mut Vec<String>) -> Option<usize> {
    let key = format!("{} pages={} info={} cached={}", name, c.pages.len(), c.info.is_some(), c.cached);
    o_reload.case(&format!("{}{:?}{:?}", key, replay.get("case"), replay.get("target")), !c.pages.is_empty(), || json!({"pages": c.pages.len(), "info": c.info.is_some()}));
    o_struct.case(&format!("{}{:?}{:?}", key, replay.get("case"), replay.get("target")), !c.pages.is_empty(), || json!({"pages": c.pages.len()}));
    o_reload.count(&format!("pages={}", match c.pages.len() { 0 => "0", 1 => "1", 2..=4 => "2-4", 5..=16 => "5-16", 17..=83 => "17-83", 84..=254 => "84-254", _ => "255+" }));
    o_reload.count(&format!("info={}", c.info.is_some()));
    o_reload.count(&format!("cached={}/{}", c.cached, c.reload_cached));
    for p in &c.pages {
        o_reload.count(&format!("ops={}", match p.ops.len() { 0 => "0", 1..=5 => "1-5", 6..=99 => "6-99", _ => "100+" }));
        o_reload.count(&format!("fonts={}", p.fonts.len()));
        o_reload.count(&format!("gs={}", p.gs.len()));
        o_reload.count(&format!("other={}", p.other.len()));
        o_reload.count(&format!("rotate={}", match p.rotate {
            0 | 90 | 180 | 270 => "ordinary",
            r if r % 90 == 0 && r < 0 => "negative multiple of 90",
            r if r % 90 == 0 => "multiple of 90 >= 360",
            _ => "no multiple of 90",
        }));
        o_reload.count(&format!("boxes={}{}{}", p.media.is_some() as u8, p.crop.is_some() as u8, p.trim.is_some() as u8));
        for b in [p.media, p.crop, p.trim].iter().flatten() {
            o_reload.count(&format!("box={}", if b[0] > b[2] || b[1] > b[3] { "reversed" } else if b[0] == b[2] || b[1] == b[3] { "degenerate" } else if b.iter().any(|x| *x < 0.0) { "negative" } else if b.iter().any(|x| x.abs() >= 1e6) { "huge" } else if b.iter().any(|x| x.fract() != 0.0) { "fractional" } else { "plain" }));
        }
    }
    let bytes = match build(&c.pages, &c.info, c.cached) {
        Ok(b) => b,
        Err(e) => {
            o_reload.fail("build-failed", &format!("PdfBuilder::build fails on a valid page list: {}", e), replay);
            return None;
        }
    };
    let mut rp = replay.clone();
    rp["file_hex"] = json!(crate::driver::hex(&bytes[..bytes.len().min(20000)]));
    let mut seen = BTreeSet::new();
    for (sig, what) in check_reload(&bytes, &c.pages, &c.info, c.reload_cached) {
        if seen.insert(sig.clone()) {
            o_reload.fail(&sig, &what, rp.clone());
        }
    }
    let (stc, bad) = check_structure(&bytes);
    let mut seen = BTreeSet::new();
    for (sig, what) in bad {
        if seen.insert(sig.clone()) {
            o_struct.fail(&sig, &what, rp.clone());
        }
    }
    let mut xpos = None;
    if let Some(stc) = stc {
        xpos = Some(stc.ap.xpos as usize);
        o_struct.count(&format!("xref-offset={}", match stc.ap.xpos { 0..=254 => "<255", 255 => "255", 256 => "256", 257 => "257", 258..=65534 => "258-65534", 65535 => "65535", 65536 => "65536", 65537 => "65537", 65538..=16777214 => "65538-2^24-2", 16777215 => "2^24-1", 16777216 => "2^24", 16777217 => "2^24+1", _ => ">2^24+1" }));
        if !stc.ap.objs.is_empty() {
            let (layout, ans) = impl_answer(&bytes, &stc);
            reqs.push(format!("c10.build {} {} {} {}", if c.cached { 1 } else { 0 }, c.pages.len(), if c.info.is_some() { 1 } else { 0 }, layout));
            imps.push(ans);
            st.count(&format!("w={}", stc.ap.xref.as_ref().map(|s| format!("{:?}", s.w)).unwrap_or_default()));
        }
    }
    xpos
}

fn blank_page() -> GenPage {
    GenPage { ops: vec![], media: Some([0.0, 0.0, 612.0, 792.0]), crop: None, trim: None, rotate: 0, other: vec![], metadata: None, lgi: None, vp: None, fonts: vec![], gs: vec![] }
}

/// the targets at which the width of the offset column steps
fn steer_targets(thorough: bool) -> Vec<usize> {
    let mut t = vec![255, 256, 257, 65535, 65536, 65537];
    if thorough {
        t.extend(180..=400);
        t.extend(65436..=65636);
        t.extend([16777215, 16777216, 16777217]);
    }
    t.sort();
    t.dedup();
    t
}

/// `XRefTable::write_stream` on tables with chosen fields: the width decision and the row bytes
/// the model's request for one document: every payload in primitive form, from the library's own
/// `to_primitive` of the builder's fields
fn bytes_request(pages: &[GenPage], info: &Option<GenInfo>, orders: &BTreeMap<usize, Vec<(String, Vec<String>)>>) -> Result<String, String> {
    let val = |p: &Primitive| -> Val { pval_to_val(&from_prim(p, &NoResolve), false) };
    let entries = |es: Vec<(String, Val)>| -> String { show_val(&Val::Dict(es.into_iter().map(|(k, v)| (k.into_bytes(), v)).collect())) };
    let mut ps = vec![];
    for (k, p) in pages.iter().enumerate() {
        let pb = page_builder(p)?;
        let other: Vec<(String, Val)> = pb.other.iter().map(|(k, v)| (k.as_str().to_string(), val(v))).collect();
        let mut boxes = vec![];
        for (k, r) in [("MediaBox", pb.media_box), ("CropBox", pb.crop_box), ("TrimBox", pb.trim_box)] {
            if let Some(r) = r {
                boxes.push((k.to_string(), val(&r.to_primitive(&mut NoUpdate).map_err(|e| format!("rect: {}", e))?)));
            }
        }
        let mut rest = vec![("Rotate".to_string(), val(&pb.rotate.to_primitive(&mut NoUpdate).map_err(|e| format!("rotate: {}", e))?))];
        for (k, v) in [("Metadata", &pb.metadata), ("LGIDict", &pb.lgi), ("VP", &pb.vp)] {
            if let Some(v) = v {
                let v = v.to_primitive(&mut NoUpdate).map_err(|e| format!("{}: {}", k, e))?;
                if !matches!(v, Primitive::Null) {
                    rest.push((k.to_string(), val(&v)));
                }
            }
        }
        let res = pb.resources.to_primitive(&mut NoUpdate).map_err(|e| format!("resources: {}", e))?;
        let mut res = from_prim(&res, &NoResolve);
        if let (Some(ord), PVal::Dict(entries)) = (orders.get(&k), &mut res) {
            for (name, keys) in ord {
                if let Some((_, PVal::Dict(sub))) = entries.iter_mut().find(|(n, _)| n == name) {
                    let mut have: Vec<&String> = sub.iter().map(|(n, _)| n).collect();
                    let mut want: Vec<&String> = keys.iter().collect();
                    have.sort();
                    want.sort();
                    if have == want {
                        let mut sorted = vec![];
                        for key in keys {
                            let pos = sub.iter().position(|(n, _)| n == key).unwrap();
                            sorted.push(sub.remove(pos));
                        }
                        *sub = sorted;
                    }
                }
            }
        }
        let data = pdf::content::serialize_ops(&pb.ops).map_err(|e| format!("ops: {}", e))?;
        ps.push(format!("{}~{}~{}~{}~{}", entries(other), entries(boxes), entries(rest), show_val(&pval_to_val(&res, false)), crate::driver::hex(&data)));
    }
    let inf = match info {
        Some(i) => show_val(&val(&info_dict(i).to_primitive(&mut NoUpdate).map_err(|e| format!("info: {}", e))?)),
        None => "n".into(),
    };
    Ok(format!("c10.bytes {} {}", inf, if ps.is_empty() { "-".to_string() } else { ps.join("|") }))
}

/// `PdfBuilder::build` against `BuildBytes.buildB`, byte for byte
fn bytes_stream(driver: &Driver, seed: u64, thorough: bool, replay: Option<&Value>) -> Stream {
    let mut st = Stream::new("c10.bytes", true);
    let mut reqs = vec![];
    let mut imps = vec![];
    let mut sizes = vec![];
    let (from, to) = match replay {
        Some(r) => {
            let c = r["case"].as_u64().unwrap_or(0);
            (c, c + 1)
        }
        None => (0, if thorough { 6000 } else { 240 }),
    };
    let seed = replay.and_then(|r| r["seed"].as_u64()).unwrap_or(seed);
    for case in from..to {
        let mut rng = Rng::derive(seed, "c10.bytes", case);
        let mut c = gen_case(&mut rng);
        if case % 50 == 7 {
            c.pages = (0..255 + rng.usize(4)).map(|_| blank_page()).collect();
        }
        let built = build(&c.pages, &c.info, c.cached);
        // the order of the entries inside /Font and /ExtGState of every resources object, as written
        let mut orders: BTreeMap<usize, Vec<(String, Vec<String>)>> = BTreeMap::new();
        if let Ok(bytes) = &built {
            let (objs, _) = objects_in(bytes, 9.min(bytes.len()), bytes.len());
            let n = c.pages.len() as u64;
            for k in 0..c.pages.len() {
                if let Some(o) = objs.iter().find(|o| o.id == n + 2 + 2 * k as u64) {
                    if let PVal::Dict(entries) = &o.val {
                        let mut ord = vec![];
                        for name in ["Font", "ExtGState"] {
                            if let Some((_, PVal::Dict(sub))) = entries.iter().find(|(n, _)| n == name) {
                                ord.push((name.to_string(), sub.iter().map(|(n, _)| n.clone()).collect()));
                            }
                        }
                        orders.insert(k, ord);
                    }
                }
            }
        }
        let many = c.pages.iter().any(|p| p.fonts.len() > 1 || p.gs.len() > 1);
        st.count(if many { "resources=several fonts or graphics states on a page" } else { "resources=at most one each" });
        let r = catch_unwind(AssertUnwindSafe(|| bytes_request(&c.pages, &c.info, &orders)));
        let rq = match r {
            Ok(Ok(rq)) => rq,
            Ok(Err(e)) => {
                st.count(&format!("skipped: {}", crate::report::trunc(&e)));
                continue;
            }
            Err(_) => {
                st.count("skipped: panic while rendering the payloads");
                continue;
            }
        };
        let imp = match built {
            Ok(bytes) => format!("ok/{}", crate::driver::hex(&bytes)),
            Err(e) if e.starts_with("panic") => "panic".to_string(),
            Err(_) => "err".to_string(),
        };
        st.count(&format!("pages={}", match c.pages.len() { 0 => "0", 1 => "1", 2..=9 => "2-9", 10..=254 => "10-254", _ => "255+" }));
        st.count(if c.info.is_some() { "info=yes" } else { "info=no" });
        sizes.push(c.pages.len());
        reqs.push(rq);
        imps.push(imp);
    }
    let resp = driver.ask(&reqs);
    for (((rq, m), i), n) in reqs.iter().zip(resp.iter()).zip(imps.iter()).zip(sizes.iter()) {
        st.case(rq, m, i, *n > 0);
    }
    st
}

fn table_streams(driver: &Driver, seed: u64, thorough: bool) -> (Stream, Stream) {
    use pdf::xref::{XRef, XRefTable};
    let real = |entries: &[XRef]| -> String {
        let r = catch_unwind(AssertUnwindSafe(|| {
            let mut t = XRefTable::new(0);
            for e in entries {
                t.push(*e);
            }
            match t.write_stream(t.len()) {
                Ok(s) => {
                    let data = s.data(&NoResolve).map(|d| d.to_vec()).unwrap_or_default();
                    format!("ok {}.{} {}", s.info.info.w[1], s.info.info.w[2], crate::driver::hex(&data))
                }
                Err(_) => "err".to_string(),
            }
        }));
        r.unwrap_or_else(|_| "panic".into())
    };
    let show = |e: &XRef| match *e {
        XRef::Free { next_obj_nr, gen_nr } => format!("f.{}.{}", next_obj_nr, gen_nr),
        XRef::Raw { pos, gen_nr } => format!("r.{}.{}", pos, gen_nr),
        XRef::Stream { stream_id, index } => format!("s.{}.{}", stream_id, index),
        XRef::Promised => "P".into(),
        XRef::Invalid => "I".into(),
    };
    // --- byte_len alone
    let mut bl = Stream::new("c10.bytelen", true);
    bl.exhaustive = true;
    let mut ns: Vec<u64> = (0..if thorough { 70_000u64 } else { 1_300 }).collect();
    for k in 1..8u32 {
        let p = 1u64 << (8 * k);
        for d in -2i64..=2 {
            ns.push((p as i64 + d) as u64);
        }
    }
    ns.extend([u64::MAX, u64::MAX - 1, 1u64 << 63, (1u64 << 63) - 1]);
    let mut rng = Rng::derive(seed, "c10.bytelen", 0);
    for _ in 0..if thorough { 30_000 } else { 600 } {
        let bits = rng.below(64);
        ns.push(rng.next() >> bits);
    }
    let mut reqs = vec![];
    let mut imps = vec![];
    for n in &ns {
        // as the largest first field (an offset) and as the largest second field (a generation)
        for which in 0..2 {
            let e = if which == 0 { XRef::Raw { pos: *n as usize, gen_nr: 0 } } else { XRef::Raw { pos: 0, gen_nr: *n } };
            let r = real(&[e]);
            let f: Vec<&str> = r.split(' ').collect();
            let w = if f.len() == 3 { f[1].split('.').nth(which).unwrap_or("?").to_string() } else { r.clone() };
            // the table always holds `free 0 65535`: the second column is never narrower than 2
            reqs.push(format!("c10.bytelen {}", if which == 1 { (*n).max(65535) } else { *n }));
            imps.push(w);
        }
    }
    let resp = driver.ask(&reqs);
    for ((rq, m), i) in reqs.iter().zip(resp.iter()).zip(imps.iter()) {
        bl.case(rq, m, i, true);
    }
    // --- whole tables
    let mut tb = Stream::new("c10.table", true);
    let bounds: Vec<u64> = {
        let mut b = vec![0u64, 1, 2];
        for k in 1..8u32 {
            let p = 1u64 << (8 * k);
            b.extend([p - 1, p, p + 1]);
        }
        b.extend([u64::MAX, 1u64 << 63]);
        b
    };
    let mut reqs = vec![];
    let mut imps = vec![];
    let ncases = if thorough { 40_000 } else { 1_500 };
    for case in 0..ncases {
        let mut rng = Rng::derive(seed, "c10.table", case);
        let n = 1 + rng.usize(6);
        let val = |rng: &mut Rng| -> u64 {
            match rng.below(3) {
                0 => *rng.pick(&bounds),
                1 => rng.below(70000),
                _ => { let bits = rng.below(64); rng.next() >> bits }
            }
        };
        let mut es = vec![];
        for _ in 0..n {
            let (a, b) = (val(&mut rng), val(&mut rng));
            es.push(match rng.below(20) {
                0..=5 => XRef::Free { next_obj_nr: a, gen_nr: b },
                6..=12 => XRef::Raw { pos: a as usize, gen_nr: b },
                13..=17 => XRef::Stream { stream_id: a, index: b as usize },
                18 => XRef::Invalid,
                _ => if rng.chance(1, 4) { XRef::Promised } else { XRef::Invalid },
            });
        }
        let mut all = vec![XRef::Free { next_obj_nr: 0, gen_nr: 0xffff }];
        all.extend(es.iter().cloned());
        reqs.push(format!("c10.table {}", all.iter().map(show).collect::<Vec<_>>().join(",")));
        let r = real(&es);
        tb.count(&format!("w={}", r.split(' ').nth(1).unwrap_or(&r)));
        imps.push(r);
    }
    let resp = driver.ask(&reqs);
    for ((rq, m), i) in reqs.iter().zip(resp.iter()).zip(imps.iter()) {
        tb.case(rq, m, i, true);
    }
    (bl, tb)
}

pub fn run(driver: &Driver, seed: u64, thorough: bool, replay: Option<&Value>) -> Report {
    let mut rep = Report::new("C10");
    let mut st = Stream::new("c10.build", true);
    let mut o_reload = Oracle::new("c10.reload");
    let mut o_struct = Oracle::new("c10.structure");
    let mut reqs = vec![];
    let mut imps = vec![];
    let rstream = replay.and_then(|r| r["stream"].as_str()).map(|s| s.to_string());
    let wanted = |name: &str| rstream.as_deref().map(|s| s == name).unwrap_or(true);
    let (from, to) = match replay {
        Some(r) if r["stream"].as_str() == Some("c10.build") => {
            let c = r["case"].as_u64().unwrap_or(0);
            (c, c + 1)
        }
        _ => (0, if thorough { 20_000 } else { 900 }),
    };
    let seed = replay.and_then(|r| r["seed"].as_u64()).unwrap_or(seed);
    // deterministic witnesses first
    if wanted("c10.witness") {
        let mut rng = Rng::derive(99, "c10.witness", 0);
        let rich = gen_page(&mut rng);
        let blank = |n: usize| -> Vec<GenPage> { (0..n).map(|_| blank_page()).collect() };
        let rot = |r: i32| GenPage { rotate: r, ..blank_page() };
        let witnesses: Vec<(&str, Case)> = vec![
            ("no-pages", Case { pages: vec![], info: None, cached: false, reload_cached: true }),
            ("one-blank-page", Case { pages: vec![blank_page()], info: None, cached: true, reload_cached: false }),
            ("info-only", Case { pages: vec![], info: Some(GenInfo { title: Some(b"T".to_vec()), trapped: Some(2), ..Default::default() }), cached: false, reload_cached: false }),
            ("rich-page", Case { pages: vec![rich.clone(), blank_page(), rich], info: Some(gen_info(&mut rng)), cached: true, reload_cached: true }),
            ("255-pages", Case { pages: blank(255), info: None, cached: false, reload_cached: false }),
            ("256-pages", Case { pages: blank(256), info: Some(GenInfo::default()), cached: false, reload_cached: true }),
            ("257-pages", Case { pages: blank(257), info: None, cached: true, reload_cached: false }),
            ("300-pages", Case { pages: blank(300), info: None, cached: false, reload_cached: false }),
            ("integer-values", Case { pages: vec![GenPage { other: vec![("UserUnit".into(), PVal::Int(7)), ("Z".into(), PVal::Int(-3))], vp: Some(PVal::Int(12)), ..blank_page() }], info: None, cached: false, reload_cached: false }),
            ("rotations", Case { pages: vec![rot(360), rot(450), rot(-90), rot(-360), rot(-450), rot(720), rot(2147483610), rot(-2147483610), rot(i32::MAX), rot(i32::MIN), rot(45)], info: None, cached: false, reload_cached: false }),
            ("boxes", Case { pages: vec![
                GenPage { media: Some([612.0, 792.0, 0.0, 0.0]), crop: Some([-10.5, -20.25, 0.1, 0.001]), trim: Some([0.0, 0.0, 0.0, 0.0]), ..blank_page() },
                GenPage { media: Some([-1e12, 1e-7, 4294967296.0, 16777217.0]), crop: None, trim: Some([255.0, 256.0, 65535.0, 65536.0]), ..blank_page() },
                GenPage { media: None, crop: Some([2147483647.0, -2147483648.0, 3.3333333, -0.0]), ..blank_page() },
            ], info: None, cached: false, reload_cached: true }),
            ("long-content", Case { pages: vec![GenPage { ops: {
                let mut ops = vec![Op::BeginText, Op::TextDraw { text: PdfString::new(vec![b'y'; 70_000].as_slice().into()) }, Op::EndText];
                for i in 0..6000 { ops.push(Op::MoveTo { p: Point { x: i as f32, y: 0.5 } }); ops.push(Op::LineTo { p: Point { x: 1.0, y: i as f32 } }); }
                ops.push(Op::Stroke);
                ops
            }, ..blank_page() }, blank_page()], info: None, cached: true, reload_cached: false }),
            ("empty-info", Case { pages: vec![blank_page()], info: Some(GenInfo::default()), cached: false, reload_cached: false }),
        ];
        for (name, c) in &witnesses {
            run_case(c, name, json!({"stream": "c10.witness", "witness": name}), &mut st, &mut o_reload, &mut o_struct, &mut reqs, &mut imps);
        }
    }
    // documents whose cross-reference stream starts exactly where the offset column gains a byte
    if wanted("c10.steer") {
        let targets: Vec<usize> = match replay {
            Some(r) => vec![r["target"].as_u64().unwrap_or(256) as usize],
            None => steer_targets(thorough),
        };
        let variants: Vec<(u64, bool)> = match replay {
            Some(r) => vec![(r["case"].as_u64().unwrap_or(0), r["info"].as_bool().unwrap_or(true))],
            None => vec![(0, true), (1, true), (0, false), (1, false)],
        };
        for target in targets {
            if target > 1 << 20 && !thorough && replay.is_none() {
                continue;
            }
            for (case, want_info) in &variants {
                // a 16 MB document once per variant of the info dictionary is enough
                if target > 1 << 20 && *case > 0 {
                    continue;
                }
                let mut rng = Rng::derive(seed, "c10.steer", (target as u64) * 4 + case * 2 + *want_info as u64);
                let mut steered = None;
                for _ in 0..6 {
                    let base = gen_case_below(&mut rng, target, *want_info);
                    if let Some(c) = steer(&base, target) {
                        steered = Some(c);
                        break;
                    }
                }
                match steered {
                    Some(c) => {
                        let got = run_case(&c, "steered", json!({"stream": "c10.steer", "seed": seed, "case": case, "info": want_info, "target": target}), &mut st, &mut o_reload, &mut o_struct, &mut reqs, &mut imps);
                        st.count(if got == Some(target) { "steered=hit" } else { "steered=missed" });
                    }
                    // nothing can be padded below the size of the smallest document of that kind
                    None => st.count(&format!("steered=unreachable(info={},target{})", want_info, if target < 1000 { "<1000" } else { ">=1000" })),
                }
            }
        }
    }
    if wanted("c10.build") {
        for case in from..to {
            let mut rng = Rng::derive(seed, "c10.build", case);
            let c = gen_case(&mut rng);
            run_case(&c, "random", json!({"stream": "c10.build", "seed": seed, "case": case}), &mut st, &mut o_reload, &mut o_struct, &mut reqs, &mut imps);
        }
    }
    let resp = driver.ask(&reqs);
    for ((rq, m), i) in reqs.iter().zip(resp.iter()).zip(imps.iter()) {
        let f: Vec<&str> = rq.split(' ').collect();
        st.case(rq, m, i, f.get(2).map(|n| *n != "0").unwrap_or(false));
    }
    rep.streams.push(st);
    if wanted("c10.bytes") {
        rep.streams.push(bytes_stream(driver, seed, thorough, replay.filter(|r| r["stream"].as_str() == Some("c10.bytes"))));
    }
    if replay.is_none() {
        let (bl, tb) = table_streams(driver, seed, thorough);
        rep.streams.push(bl);
        rep.streams.push(tb);
    }
    rep.oracles.push(o_reload);
    rep.oracles.push(o_struct);
    rep
}
