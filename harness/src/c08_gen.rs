//! C08 generators: reals, names, strings, operands, operation sequences (with the adjacency patterns that
//! trigger every shorthand of `serialize_ops`), statements of the operator table, and the harness' own copy
//! of ISO 32000-1 Table A.1 (signature + denoted operations in the canonical notation), which is the oracle of
//! the table clause and is itself compared with `Spec/OperatorTable.lean` (stream `c08.spec`).

use super::codec::*;
use crate::rng::Rng;
use pdf::content::*;
use pdf::object::{PlainRef, RenderingIntent};
use pdf::primitive::{Dictionary, Primitive};

pub const BOUNDARY_REALS: &[f32] = &[
    0.0, -0.0, 1.0, -1.0, 0.5, 0.1, 1e-7, 123456.79, 8388607.5, 16777216.0, 16777218.0, 2147483520.0, 2147483648.0,
    -2147483520.0, -2147483648.0, -2147483904.0, 3e9, 4294967296.0, 1e20, f32::MAX, f32::MIN, f32::MIN_POSITIVE, 1e-45, -1e-45,
    0.33333334, 99999.99, 1e10,
];

pub fn finite_bits(rng: &mut Rng) -> f32 {
    loop {
        let x = f32::from_bits(rng.next() as u32);
        if x.is_finite() {
            return x;
        }
    }
}

/// a finite real; small values collide often (needed for the current-point and shorthand conditions)
pub fn real(rng: &mut Rng) -> f32 {
    match rng.below(16) {
        0..=5 => rng.range(-3, 10) as f32,
        6..=8 => rng.range(-40, 40) as f32 / 4.0,
        9..=10 => rng.range(-100000, 100000) as f32 / 100.0,
        11..=12 => *rng.pick(BOUNDARY_REALS),
        13 => rng.range(-2147483648, 2147483647) as f32,
        _ => finite_bits(rng),
    }
}

pub fn any_real(rng: &mut Rng) -> f32 {
    match rng.below(6) {
        0 => *rng.pick(&[f32::NAN, f32::INFINITY, f32::NEG_INFINITY]),
        _ => real(rng),
    }
}

pub fn fits_i32_token(x: f32) -> bool {
    !(x.fract() == 0.0 && (x >= 2147483648.0 || x < -2147483648.0))
}

/// a real inside a `Primitive` operand: while D9 is open in primitive.rs (`prim_dot == false`) integral
/// values outside i32 are not written readably; they belong to the C03/C04 package
pub fn prim_real(rng: &mut Rng, prim_dot: bool) -> f32 {
    loop {
        let x = real(rng);
        if prim_dot || fits_i32_token(x) {
            return x;
        }
    }
}

const NAME_CHARS: &[u8] = b"ABCDEFGHIJKLMNOPQRSTUVWXYZabcdefghijklmnopqrstuvwxyz0123456789_.-+*'\"!$&:;=?@^`|~";

/// a name: any string (`Name` is a `SmallString`, i.e. valid UTF-8): regular characters, white-space, delimiters,
/// `#`, control characters incl. NUL, and characters of every UTF-8 length
pub fn name_str(rng: &mut Rng) -> String {
    match rng.below(8) {
        0..=2 => rng.pick(&["F1", "GS0", "Im1", "Cs6", "P0", "Sh1", "Span", "MC0", "DeviceRGB", "Pattern", "R", "true", "BI", "q"]).to_string(),
        3..=4 => {
            let n = 1 + rng.usize(8);
            (0..n).map(|_| *rng.pick(NAME_CHARS) as char).collect()
        }
        5 => {
            let n = rng.usize(6);
            (0..n).map(|_| *rng.pick(b" #/()<>[]{}%\t\n\r\x0c\x00Aa1\\\x7f") as char).collect()
        }
        _ => {
            let n = rng.usize(6);
            (0..n)
                .map(|_| match rng.below(6) {
                    0 => *rng.pick(&['\u{e9}', '\u{df}', '\u{7ff}', '\u{80}']),
                    1 => *rng.pick(&['\u{20ac}', '\u{800}', '\u{ffff}', '\u{d7ff}', '\u{e000}']),
                    2 => *rng.pick(&['\u{1f600}', '\u{10000}', '\u{10ffff}']),
                    3 => char::from_u32(rng.below(0x11_0000) as u32).unwrap_or('x'),
                    _ => (rng.below(128) as u8) as char,
                })
                .collect()
        }
    }
}

/// a string: any bytes (all 256 values, CR, LF, parentheses, backslashes)
pub fn string_bytes(rng: &mut Rng) -> Vec<u8> {
    let n = match rng.below(8) {
        0 => 0,
        1..=5 => 1 + rng.usize(8),
        _ => 9 + rng.usize(40),
    };
    let kind = rng.below(5);
    (0..n)
        .map(|_| match kind {
            0 => *rng.pick(b"abc ()\\xyz01\r\n"),
            1 => 0x20 + rng.below(0x5f) as u8,
            2 => rng.byte(),
            3 => rng.below(128) as u8,
            _ => *rng.pick(b"Hello, World"),
        })
        .collect()
}

pub fn prim(rng: &mut Rng, depth: usize, prim_dot: bool) -> Primitive {
    let top = if depth == 0 { 8 } else { 11 };
    match rng.below(top) {
        0 => Primitive::Integer(*rng.pick(&[0, 1, -1, 2, 7, 255, 65536, i32::MAX, i32::MIN, -17])),
        1 => Primitive::Integer(rng.range(-100, 100) as i32),
        2 | 3 => Primitive::Number(prim_real(rng, prim_dot)),
        4 => Primitive::Name(name_str(rng).into()),
        5 => Primitive::String(pstr(&string_bytes(rng))),
        6 => rng.pick(&[Primitive::Null, Primitive::Boolean(true), Primitive::Boolean(false)]).clone(),
        7 => Primitive::Reference(PlainRef { id: 1 + rng.below(50), gen: *rng.pick(&[0, 0, 1, 65535]) }),
        8 | 9 => Primitive::Array((0..rng.usize(4)).map(|_| prim(rng, depth - 1, prim_dot)).collect()),
        _ => {
            let mut d = Dictionary::new();
            for _ in 0..rng.usize(4) {
                d.insert(name_str(rng), prim(rng, depth - 1, prim_dot));
            }
            Primitive::Dictionary(d)
        }
    }
}

pub fn point(rng: &mut Rng) -> Point {
    Point { x: real(rng), y: real(rng) }
}

pub fn matrix(rng: &mut Rng) -> Matrix {
    Matrix { a: real(rng), b: real(rng), c: real(rng), d: real(rng), e: real(rng), f: real(rng) }
}

fn winding(rng: &mut Rng) -> Winding {
    if rng.chance(1, 2) { Winding::NonZero } else { Winding::EvenOdd }
}

fn color(rng: &mut Rng, prim_dot: bool) -> Color {
    match rng.below(5) {
        0 => Color::Gray(real(rng)),
        1 => Color::Rgb(Rgb { red: real(rng), green: real(rng), blue: real(rng) }),
        2 => Color::Cmyk(Cmyk { cyan: real(rng), magenta: real(rng), yellow: real(rng), key: real(rng) }),
        3 => {
            // what SCN/scn usually carry: numbers and a pattern name
            let mut v: Vec<Primitive> = (0..rng.usize(5)).map(|_| if rng.chance(1, 3) { Primitive::Integer(rng.range(0, 3) as i32) } else { Primitive::Number(prim_real(rng, prim_dot)) }).collect();
            if rng.chance(1, 2) {
                v.push(Primitive::Name(name_str(rng).into()));
            }
            Color::Other(v)
        }
        _ => Color::Other((0..rng.usize(4)).map(|_| prim(rng, 2, prim_dot)).collect()),
    }
}

fn tda(rng: &mut Rng) -> Vec<TextDrawAdjusted> {
    (0..rng.usize(6)).map(|_| if rng.chance(1, 2) { TextDrawAdjusted::Text(pstr(&string_bytes(rng))) } else { TextDrawAdjusted::Spacing(real(rng)) }).collect()
}

fn props(rng: &mut Rng, prim_dot: bool) -> Primitive {
    match rng.below(4) {
        0 => Primitive::Name(name_str(rng).into()),
        1 => dict(vec![("MCID", Primitive::Integer(rng.range(0, 40) as i32))]),
        _ => prim(rng, 2, prim_dot),
    }
}

const INTENTS: [RenderingIntent; 4] = [RenderingIntent::AbsoluteColorimetric, RenderingIntent::RelativeColorimetric, RenderingIntent::Saturation, RenderingIntent::Perceptual];
const JOINS: [LineJoin; 3] = [LineJoin::Miter, LineJoin::Round, LineJoin::Bevel];
const CAPS: [LineCap; 3] = [LineCap::Butt, LineCap::Round, LineCap::Square];
pub const MODES: [TextMode; 8] = [TextMode::Fill, TextMode::Stroke, TextMode::FillThenStroke, TextMode::Invisible, TextMode::FillAndClip, TextMode::StrokeAndClip, TextMode::FillThenStrokeAndClip, TextMode::Clip];

/// one operation of any variant except `InlineImage`
pub fn single_op(rng: &mut Rng, prim_dot: bool) -> Op {
    match rng.below(44) {
        0 => Op::BeginMarkedContent { tag: name(&name_str(rng)), properties: None },
        1 => Op::BeginMarkedContent { tag: name(&name_str(rng)), properties: Some(props(rng, prim_dot)) },
        2 => Op::EndMarkedContent,
        3 => Op::MarkedContentPoint { tag: name(&name_str(rng)), properties: None },
        4 => Op::MarkedContentPoint { tag: name(&name_str(rng)), properties: Some(props(rng, prim_dot)) },
        5 => Op::Close,
        6 => Op::MoveTo { p: point(rng) },
        7 => Op::LineTo { p: point(rng) },
        8 => Op::CurveTo { c1: point(rng), c2: point(rng), p: point(rng) },
        9 => Op::Rect { rect: ViewRect { x: real(rng), y: real(rng), width: real(rng), height: real(rng) } },
        10 => Op::EndPath,
        11 => Op::Stroke,
        12 => Op::FillAndStroke { winding: winding(rng) },
        13 => Op::Fill { winding: winding(rng) },
        14 => Op::Shade { name: name(&name_str(rng)) },
        15 => Op::Clip { winding: winding(rng) },
        16 => Op::Save,
        17 => Op::Restore,
        18 => Op::Transform { matrix: matrix(rng) },
        19 => Op::LineWidth { width: real(rng) },
        20 => Op::Dash { pattern: (0..rng.usize(4)).map(|_| real(rng)).collect(), phase: real(rng) },
        21 => Op::LineJoin { join: *rng.pick(&JOINS) },
        22 => Op::LineCap { cap: *rng.pick(&CAPS) },
        23 => Op::MiterLimit { limit: real(rng) },
        24 => Op::Flatness { tolerance: real(rng) },
        25 => Op::GraphicsState { name: name(&name_str(rng)) },
        26 => Op::StrokeColor { color: color(rng, prim_dot) },
        27 => Op::FillColor { color: color(rng, prim_dot) },
        28 => Op::FillColorSpace { name: name(&name_str(rng)) },
        29 => Op::StrokeColorSpace { name: name(&name_str(rng)) },
        30 => Op::RenderingIntent { intent: *rng.pick(&INTENTS) },
        31 => Op::BeginText,
        32 => Op::EndText,
        33 => Op::CharSpacing { char_space: real(rng) },
        34 => Op::WordSpacing { word_space: real(rng) },
        35 => Op::TextScaling { horiz_scale: real(rng) },
        36 => Op::Leading { leading: real(rng) },
        37 => Op::TextFont { name: name(&name_str(rng)), size: real(rng) },
        38 => Op::TextRenderMode { mode: *rng.pick(&MODES) },
        39 => Op::TextRise { rise: real(rng) },
        40 => Op::MoveTextPosition { translation: point(rng) },
        41 => match rng.below(3) {
            0 => Op::SetTextMatrix { matrix: matrix(rng) },
            1 => Op::TextNewline,
            _ => Op::XObject { name: name(&name_str(rng)) },
        },
        42 => Op::TextDraw { text: pstr(&string_bytes(rng)) },
        _ => Op::TextDrawAdjusted { array: tda(rng) },
    }
}

fn flip_zero(rng: &mut Rng, x: f32) -> f32 {
    if x == 0.0 && rng.chance(1, 2) { -x } else { x }
}

/// A sequence of operations.  Chunks: single operations of every variant, and the adjacency patterns of the
/// serializer's look-ahead (complete, truncated, and near misses), with a generator-side current point so
/// that the `v` / `y` conditions are hit on purpose (also after `Close` and `Rect`).
pub fn ops(rng: &mut Rng, prim_dot: bool, hist: &mut dyn FnMut(&str)) -> Vec<Op> {
    let cap = if rng.chance(1, 5) { 40 } else { 10 };
    let n = 1 + rng.usize(cap);
    let mut out: Vec<Op> = vec![];
    let mut cur: Option<Point> = None;
    let mut start: Option<Point> = None;
    while out.len() < n {
        let k = rng.below(24);
        match k {
            0 => {
                hist("pattern=close+paint");
                out.push(Op::Close);
                out.push(match rng.below(4) {
                    0 => Op::Stroke,
                    1 => Op::FillAndStroke { winding: Winding::NonZero },
                    2 => Op::FillAndStroke { winding: Winding::EvenOdd },
                    _ => Op::Fill { winding: winding(rng) },
                });
                cur = start;
            }
            1 => {
                hist("pattern=quote4");
                out.push(Op::WordSpacing { word_space: real(rng) });
                out.push(Op::CharSpacing { char_space: real(rng) });
                out.push(Op::TextNewline);
                out.push(Op::TextDraw { text: pstr(&string_bytes(rng)) });
            }
            2 => {
                hist("pattern=quote4-broken");
                out.push(Op::WordSpacing { word_space: real(rng) });
                let cut = rng.below(3);
                if cut >= 1 {
                    out.push(Op::CharSpacing { char_space: real(rng) });
                }
                if cut >= 2 {
                    out.push(Op::TextNewline);
                }
                if rng.chance(1, 2) {
                    out.push(Op::TextDrawAdjusted { array: tda(rng) });
                }
            }
            3 => {
                hist("pattern=newline+draw");
                out.push(Op::TextNewline);
                out.push(Op::TextDraw { text: pstr(&string_bytes(rng)) });
            }
            4 | 5 => {
                let t = point(rng);
                let leading = match rng.below(5) {
                    0 | 1 => { hist("pattern=leading=-ty"); flip_zero(rng, -t.y) }
                    2 => { hist("pattern=leading=-tx"); -t.x }
                    3 => { hist("pattern=leading=ty"); t.y }
                    _ => { hist("pattern=leading-other"); real(rng) }
                };
                out.push(Op::Leading { leading });
                out.push(Op::MoveTextPosition { translation: t });
            }
            6..=11 => {
                // a path
                let len = 1 + rng.usize(6);
                for _ in 0..len {
                    match rng.below(8) {
                        0 => {
                            let p = point(rng);
                            out.push(Op::MoveTo { p });
                            cur = Some(p);
                            start = Some(p);
                        }
                        1 => {
                            let p = point(rng);
                            out.push(Op::LineTo { p });
                            cur = Some(p);
                        }
                        2 => {
                            out.push(Op::Close);
                            cur = start;
                            hist("path=close");
                        }
                        3 => {
                            let r = ViewRect { x: real(rng), y: real(rng), width: real(rng), height: real(rng) };
                            out.push(Op::Rect { rect: r });
                            cur = Some(Point { x: r.x, y: r.y });
                            start = cur;
                            hist("path=rect");
                        }
                        _ => {
                            let p = point(rng);
                            let mut c1 = point(rng);
                            let mut c2 = point(rng);
                            match rng.below(7) {
                                6 => {
                                    // first control point = start of the subpath (not the current point unless they coincide)
                                    if let Some(c) = start {
                                        c1 = c;
                                        hist("curve=c1-is-subpath-start");
                                    }
                                }
                                0 | 1 => {
                                    if let Some(c) = cur {
                                        c1 = Point { x: flip_zero(rng, c.x), y: flip_zero(rng, c.y) };
                                        hist("curve=c1-is-current");
                                    } else {
                                        c1 = Point { x: 0.0, y: 0.0 };
                                        hist("curve=c1-zero-no-current");
                                    }
                                }
                                2 => {
                                    c2 = Point { x: flip_zero(rng, p.x), y: flip_zero(rng, p.y) };
                                    hist("curve=c2-is-p");
                                }
                                3 => {
                                    if let Some(c) = cur {
                                        c1 = c;
                                    }
                                    c2 = p;
                                    hist("curve=both");
                                }
                                4 => {
                                    // near miss: one coordinate equal
                                    if let Some(c) = cur {
                                        c1 = Point { x: c.x, y: real(rng) };
                                    }
                                    c2 = Point { x: real(rng), y: p.y };
                                    hist("curve=near-miss");
                                }
                                _ => hist("curve=general"),
                            }
                            out.push(Op::CurveTo { c1, c2, p });
                            cur = Some(p);
                        }
                    }
                }
                if rng.chance(1, 2) {
                    out.push(match rng.below(5) {
                        0 => Op::Stroke,
                        1 => Op::Fill { winding: winding(rng) },
                        2 => Op::FillAndStroke { winding: winding(rng) },
                        3 => Op::EndPath,
                        _ => Op::Clip { winding: winding(rng) },
                    });
                }
            }
            _ => {
                let op = single_op(rng, prim_dot);
                match &op {
                    Op::MoveTo { p } => { cur = Some(*p); start = cur; }
                    Op::LineTo { p } | Op::CurveTo { p, .. } => cur = Some(*p),
                    Op::Close => cur = start,
                    Op::Rect { rect } => { cur = Some(Point { x: rect.x, y: rect.y }); start = cur; }
                    _ => {}
                }
                out.push(op);
            }
        }
    }
    out
}

// ---------------------------------------------------------------------------------------------------
// ISO 32000-1 Table A.1, the harness' copy

#[derive(Clone, Copy, Debug, PartialEq)]
pub enum K { Num, Int, Name, Str, Nums, Text, Any, Intent, Colour, ColourN }

#[derive(Clone, Copy, Debug, PartialEq)]
pub enum Support { Full, Unsupported, Construct }

pub struct Entry {
    pub kw: &'static str,
    pub sig: &'static [K],
    pub support: Support,
}

const N1: &[K] = &[K::Num];
const N2: &[K] = &[K::Num, K::Num];
const N3: &[K] = &[K::Num, K::Num, K::Num];
const N4: &[K] = &[K::Num, K::Num, K::Num, K::Num];
const N6: &[K] = &[K::Num, K::Num, K::Num, K::Num, K::Num, K::Num];
const NM: &[K] = &[K::Name];
const NONE: &[K] = &[];

macro_rules! e {
    ($kw:expr, $sig:expr) => { Entry { kw: $kw, sig: $sig, support: Support::Full } };
    ($kw:expr, $sig:expr, $s:expr) => { Entry { kw: $kw, sig: $sig, support: $s } };
}

pub static TABLE: [Entry; 73] = [
    e!("b", NONE), e!("B", NONE), e!("b*", NONE), e!("B*", NONE), e!("BDC", &[K::Name, K::Any]),
    e!("BI", NONE, Support::Construct), e!("BMC", NM), e!("BT", NONE), e!("BX", NONE, Support::Unsupported),
    e!("c", N6), e!("cm", N6), e!("CS", NM), e!("cs", NM), e!("d", &[K::Nums, K::Num]),
    e!("d0", N2, Support::Unsupported), e!("d1", N6, Support::Unsupported), e!("Do", NM), e!("DP", &[K::Name, K::Any]),
    e!("EI", NONE, Support::Construct), e!("EMC", NONE), e!("ET", NONE), e!("EX", NONE, Support::Unsupported),
    e!("f", NONE), e!("F", NONE), e!("f*", NONE), e!("G", N1), e!("g", N1), e!("gs", NM), e!("h", NONE), e!("i", N1),
    e!("ID", NONE, Support::Construct), e!("j", &[K::Int]), e!("J", &[K::Int]), e!("K", N4), e!("k", N4),
    e!("l", N2), e!("m", N2), e!("M", N1), e!("MP", NM), e!("n", NONE), e!("q", NONE), e!("Q", NONE),
    e!("re", N4), e!("RG", N3), e!("rg", N3), e!("ri", &[K::Intent]), e!("s", NONE), e!("S", NONE),
    e!("SC", &[K::Colour]), e!("sc", &[K::Colour]), e!("SCN", &[K::ColourN]), e!("scn", &[K::ColourN]), e!("sh", NM),
    e!("T*", NONE), e!("Tc", N1), e!("Td", N2), e!("TD", N2), e!("Tf", &[K::Name, K::Num]), e!("Tj", &[K::Str]),
    e!("TJ", &[K::Text]), e!("TL", N1), e!("Tm", N6), e!("Tr", &[K::Int]), e!("Ts", N1), e!("Tw", N1), e!("Tz", N1),
    e!("v", N4), e!("w", N1), e!("W", NONE), e!("W*", NONE), e!("y", N4), e!("'", &[K::Str]), e!("\"", &[K::Num, K::Num, K::Str]),
];

pub fn entry(kw: &str) -> Option<&'static Entry> {
    TABLE.iter().find(|e| e.kw == kw)
}

/// decoded operand values
#[derive(Clone, Debug)]
pub enum V {
    Num(f32),
    Int(i32),
    Name(String),
    Str(Vec<u8>),
    Nums(Vec<f32>),
    Text(Vec<Result<Vec<u8>, f32>>),
    Any(Primitive),
    Colour(Vec<Primitive>),
}

fn num_operand(rng: &mut Rng) -> (Primitive, f32) {
    if rng.chance(2, 5) {
        let i = if rng.chance(1, 6) { *rng.pick(&[i32::MAX, i32::MIN, 16777217, -16777219, 0]) } else { rng.range(-20, 300) as i32 };
        (Primitive::Integer(i), i as f32)
    } else {
        let x = real(rng);
        (Primitive::Number(x), x)
    }
}

/// well-formed operands for a signature: the operands and their decoded values; `int_range` bounds the
/// value of an integer operand (`j`, `J`: 3, `Tr`: 8)
pub fn operands(rng: &mut Rng, sig: &[K], int_range: i64) -> (Vec<Primitive>, Vec<V>) {
    let mut ps = vec![];
    let mut vs = vec![];
    for k in sig {
        match k {
            K::Num => {
                let (p, x) = num_operand(rng);
                ps.push(p);
                vs.push(V::Num(x));
            }
            K::Int => {
                let i = rng.range(0, int_range - 1) as i32;
                ps.push(Primitive::Integer(i));
                vs.push(V::Int(i));
            }
            K::Name => {
                let s = name_str(rng);
                ps.push(Primitive::Name(s.clone().into()));
                vs.push(V::Name(s));
            }
            K::Intent => {
                let s = *rng.pick(&["AbsoluteColorimetric", "RelativeColorimetric", "Saturation", "Perceptual"]);
                ps.push(Primitive::Name(s.into()));
                vs.push(V::Name(s.to_string()));
            }
            K::Str => {
                let b = string_bytes(rng);
                ps.push(Primitive::String(pstr(&b)));
                vs.push(V::Str(b));
            }
            K::Nums => {
                let items: Vec<(Primitive, f32)> = (0..rng.usize(5)).map(|_| num_operand(rng)).collect();
                ps.push(Primitive::Array(items.iter().map(|x| x.0.clone()).collect()));
                vs.push(V::Nums(items.iter().map(|x| x.1).collect()));
            }
            K::Text => {
                let mut arr = vec![];
                let mut val = vec![];
                for _ in 0..rng.usize(6) {
                    if rng.chance(1, 2) {
                        let b = string_bytes(rng);
                        arr.push(Primitive::String(pstr(&b)));
                        val.push(Ok(b));
                    } else {
                        let (p, x) = num_operand(rng);
                        arr.push(p);
                        val.push(Err(x));
                    }
                }
                ps.push(Primitive::Array(arr));
                vs.push(V::Text(val));
            }
            K::Any => {
                let p = props(rng, true);
                ps.push(p.clone());
                vs.push(V::Any(p));
            }
            K::Colour | K::ColourN => {
                let mut v: Vec<Primitive> = (0..rng.usize(5)).map(|_| num_operand(rng).0).collect();
                if *k == K::ColourN && rng.chance(1, 2) {
                    v.push(Primitive::Name(name_str(rng).into()));
                }
                ps.extend(v.iter().cloned());
                vs.push(V::Colour(v));
            }
        }
    }
    (ps, vs)
}

pub fn int_range_of(kw: &str) -> i64 {
    match kw {
        "j" | "J" => 3,
        "Tr" => 8,
        _ => 3,
    }
}

fn hexs(s: &str) -> String {
    crate::driver::hex(s.as_bytes())
}

/// The operations an operator of Table A.1 denotes for decoded operand values, in the canonical notation
/// (`None`: unsupported / construct / needs a current point that is not there).
pub fn denote(kw: &str, vs: &[V], cur: Option<(f32, f32)>) -> Option<Vec<String>> {
    use V::*;
    let b = bits;
    let nums = |k: usize| -> Option<Vec<f32>> {
        if vs.len() != k { return None; }
        vs.iter().map(|v| if let Num(x) = v { Some(*x) } else { None }).collect()
    };
    let join = |xs: &[f32]| xs.iter().map(|x| b(*x)).collect::<Vec<_>>().join(":");
    let one = |pre: &str| -> Option<Vec<String>> { nums(1).map(|x| vec![format!("{}:{}", pre, b(x[0]))]) };
    let nm = |pre: &str| -> Option<Vec<String>> { if let [Name(s)] = vs { Some(vec![format!("{}:{}", pre, hexs(s))]) } else { None } };
    let s = |x: &str| Some(vec![x.to_string()]);
    let arr = |ps: &Vec<Primitive>| show_prim(&Primitive::Array(ps.clone()));
    match kw {
        "b" => Some(vec!["h".into(), "B:1".into()]),
        "B" => s("B:1"),
        "b*" => Some(vec!["h".into(), "B:0".into()]),
        "B*" => s("B:0"),
        "BDC" => if let [Name(t), Any(p)] = vs { Some(vec![format!("BDC:{}:{}", hexs(t), show_prim(p))]) } else { None },
        "BMC" => nm("BMC"),
        "BT" => s("BT"),
        "c" => nums(6).map(|x| vec![format!("c:{}", join(&x))]),
        "cm" => nums(6).map(|x| vec![format!("cm:{}", join(&x))]),
        "CS" => nm("CS"),
        "cs" => nm("cs"),
        "d" => if let [Nums(p), Num(ph)] = vs { Some(vec![format!("d:{}:{}", if p.is_empty() { "-".to_string() } else { p.iter().map(|x| b(*x)).collect::<Vec<_>>().join(",") }, b(*ph))]) } else { None },
        "Do" => nm("Do"),
        "DP" => if let [Name(t), Any(p)] = vs { Some(vec![format!("DP:{}:{}", hexs(t), show_prim(p))]) } else { None },
        "EMC" => s("EMC"),
        "ET" => s("ET"),
        "f" | "F" => s("f:1"),
        "f*" => s("f:0"),
        "G" => one("SCg"),
        "g" => one("scg"),
        "gs" => nm("gs"),
        "h" => s("h"),
        "i" => one("i"),
        "j" => if let [Int(n)] = vs { if (0..3).contains(n) { Some(vec![format!("j:{}", n)]) } else { None } } else { None },
        "J" => if let [Int(n)] = vs { if (0..3).contains(n) { Some(vec![format!("J:{}", n)]) } else { None } } else { None },
        "K" => nums(4).map(|x| vec![format!("SCcmyk:{}", join(&x))]),
        "k" => nums(4).map(|x| vec![format!("sccmyk:{}", join(&x))]),
        "l" => nums(2).map(|x| vec![format!("l:{}", join(&x))]),
        "m" => nums(2).map(|x| vec![format!("m:{}", join(&x))]),
        "M" => one("M"),
        "MP" => nm("MP"),
        "n" => s("n"),
        "q" => s("q"),
        "Q" => s("Q"),
        "re" => nums(4).map(|x| vec![format!("re:{}", join(&x))]),
        "RG" => nums(3).map(|x| vec![format!("SCrgb:{}", join(&x))]),
        "rg" => nums(3).map(|x| vec![format!("scrgb:{}", join(&x))]),
        "ri" => if let [Name(n)] = vs {
            let i = ["AbsoluteColorimetric", "RelativeColorimetric", "Saturation", "Perceptual"].iter().position(|x| x == n)?;
            Some(vec![format!("ri:{}", i)])
        } else { None },
        "s" => Some(vec!["h".into(), "S".into()]),
        "S" => s("S"),
        "SC" | "SCN" => if let [Colour(ps)] = vs { Some(vec![format!("SCo:{}", arr(ps))]) } else { None },
        "sc" | "scn" => if let [Colour(ps)] = vs { Some(vec![format!("sco:{}", arr(ps))]) } else { None },
        "sh" => nm("sh"),
        "T*" => s("T*"),
        "Tc" => one("Tc"),
        "Td" => nums(2).map(|x| vec![format!("Td:{}", join(&x))]),
        "TD" => nums(2).map(|x| vec![format!("TL:{}", b(-x[1])), format!("Td:{}", join(&x))]),
        "Tf" => if let [Name(n), Num(x)] = vs { Some(vec![format!("Tf:{}:{}", hexs(n), b(*x))]) } else { None },
        "Tj" => if let [Str(t)] = vs { Some(vec![format!("Tj:{}", crate::driver::hex(t))]) } else { None },
        "TJ" => if let [Text(xs)] = vs {
            Some(vec![format!("TJ:{}", if xs.is_empty() { "-".to_string() } else { xs.iter().map(|x| match x { Ok(t) => format!("s{}", crate::driver::hex(t)), Err(r) => format!("r{}", b(*r)) }).collect::<Vec<_>>().join(",") })])
        } else { None },
        "TL" => one("TL"),
        "Tm" => nums(6).map(|x| vec![format!("Tm:{}", join(&x))]),
        "Tr" => if let [Int(n)] = vs { if (0..8).contains(n) { Some(vec![format!("Tr:{}", n)]) } else { None } } else { None },
        "Ts" => one("Ts"),
        "Tw" => one("Tw"),
        "Tz" => one("Tz"),
        "v" => match (cur, nums(4)) {
            (Some((cx, cy)), Some(x)) => Some(vec![format!("c:{}:{}:{}", b(cx), b(cy), join(&x))]),
            _ => None,
        },
        "w" => one("w"),
        "W" => s("W:1"),
        "W*" => s("W:0"),
        "y" => nums(4).map(|x| vec![format!("c:{}:{}:{}", join(&x), b(x[2]), b(x[3]))]),
        "'" => if let [Str(t)] = vs { Some(vec!["T*".into(), format!("Tj:{}", crate::driver::hex(t))]) } else { None },
        "\"" => if let [Num(aw), Num(ac), Str(t)] = vs { Some(vec![format!("Tw:{}", b(*aw)), format!("Tc:{}", b(*ac)), "T*".into(), format!("Tj:{}", crate::driver::hex(t))]) } else { None },
        _ => None,
    }
}

/// current point according to 8.5.2.1, tracked on the harness side from keywords and decoded values
#[derive(Clone, Copy, Default, Debug)]
pub struct PathSt {
    pub cur: Option<(f32, f32)>,
    pub start: Option<(f32, f32)>,
}

impl PathSt {
    pub fn after(&mut self, kw: &str, vs: &[V]) {
        let n = |i: usize| if let Some(V::Num(x)) = vs.get(i) { *x } else { 0.0 };
        match kw {
            "m" => { self.cur = Some((n(0), n(1))); self.start = self.cur; }
            "l" => self.cur = Some((n(0), n(1))),
            "c" => self.cur = Some((n(4), n(5))),
            "v" | "y" => self.cur = Some((n(2), n(3))),
            "h" => self.cur = self.start,
            "re" => { self.cur = Some((n(0), n(1))); self.start = self.cur; }
            "S" | "s" | "f" | "F" | "f*" | "B" | "B*" | "b" | "b*" | "n" => { self.cur = None; self.start = None; }
            _ => {}
        }
    }
}

#[derive(Clone, Debug)]
pub struct Stmt {
    pub args: Vec<Primitive>,
    pub kw: String,
}

pub fn stmt_toks(ss: &[Stmt]) -> Vec<Tok> {
    let mut out = vec![];
    for s in ss {
        out.extend(s.args.iter().cloned().map(Tok::Prim));
        out.push(Tok::Kw(s.kw.clone()));
    }
    out
}

/// a well-formed statement of a fully supported operator (`v` only with a current point); returns the
/// statement and what it denotes
pub fn wf_stmt(rng: &mut Rng, path: &mut PathSt) -> (Stmt, Vec<String>) {
    loop {
        let e = rng.pick(&TABLE[..]);
        if e.support != Support::Full {
            continue;
        }
        // favour path operators a little, so that current-point histories are long enough to matter
        let e = if rng.chance(1, 3) { entry(*rng.pick(&["m", "l", "c", "v", "y", "h", "re", "v", "v"])).unwrap() } else { e };
        if e.kw == "v" && path.cur.is_none() {
            continue;
        }
        let (args, vs) = operands(rng, e.sig, int_range_of(e.kw));
        let den = match denote(e.kw, &vs, path.cur) {
            Some(d) => d,
            None => continue,
        };
        path.after(e.kw, &vs);
        return (Stmt { args, kw: e.kw.to_string() }, den);
    }
}

/// an ill-formed statement: wrong arity, wrong operand type, value outside the domain, unknown keyword
pub fn bad_stmt(rng: &mut Rng) -> Stmt {
    let mut e = rng.pick(&TABLE[..]);
    while e.kw == "BI" {
        e = rng.pick(&TABLE[..]);
    }
    let (mut args, _) = operands(rng, e.sig, int_range_of(e.kw));
    let mut kw = e.kw.to_string();
    match rng.below(8) {
        0 if !args.is_empty() => { args.pop(); }
        1 if !args.is_empty() => { args.remove(0); }
        2 => args.push(prim(rng, 1, true)),
        3 => args.insert(0, prim(rng, 1, true)),
        4 if !args.is_empty() => {
            let i = rng.usize(args.len());
            args[i] = match &args[i] {
                Primitive::Name(_) => Primitive::Integer(3),
                Primitive::String(_) => Primitive::Name("x".into()),
                Primitive::Array(_) => Primitive::Number(1.5),
                _ => Primitive::Name("x".into()),
            };
        }
        5 => {
            kw = rng.pick(&["foo", "Sq", "TT", "BXX", "Rx", "obj", "endstream", "d2", "Do0", "re*", "T", "EI", "ID"]).to_string();
        }
        6 => {
            let (k, v) = *rng.pick(&[("j", 3), ("J", -1), ("Tr", 8), ("Tr", -1), ("j", 1000)]);
            kw = k.to_string();
            args = vec![Primitive::Integer(v)];
        }
        _ => {
            let (k, p) = rng.pick(&[("ri", Primitive::Name("Foo".into())), ("j", Primitive::Number(1.0)), ("Tr", Primitive::Number(2.0)), ("TJ", Primitive::Array(vec![Primitive::Name("x".into())])), ("d", Primitive::Array(vec![Primitive::Null]))]).clone();
            kw = k.to_string();
            args = vec![p, Primitive::Integer(0)];
        }
    }
    Stmt { args, kw }
}
