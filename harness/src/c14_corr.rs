//! C14 correspondence streams (model driver vs implementation) and the deterministic witness documents.

use super::plant::*;
use crate::driver::Driver;
use crate::report::*;

/// deterministic witnesses: fixed defects (regression) and open findings, run first on every run
pub fn witness_docs() -> Vec<Planted> {
    vec![]
}

pub fn streams(_driver: &Driver, _seed: u64, _thorough: bool) -> Vec<Stream> {
    vec![]
}

pub fn replay(_driver: &Driver, _r: &serde_json::Value) -> Option<Stream> {
    None
}
