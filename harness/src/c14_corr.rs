//! C14 correspondence streams (Lean model driver vs the implementation, in-process, uncached) and the
//! deterministic witness documents of the oracle.
//!
//!   c14.load.fonts      font graphs: Type0 fonts whose /DescendantFonts point at every object      ↔ TypedLoad.load
//!   c14.load.pages      page-tree nodes whose /Parent points at every object, strict and tolerant ↔ TypedLoad.load
//!   c14.resolve         objects whose value is a reference (self, cycles, chains ≤ 20)             ↔ resolve, fromPrim
//!   c14.walk            name and number trees with /Kids pointed at every object                   ↔ walkTree (calls, gets)
//!   c14.page            page trees with arbitrary /Kids and lying /Count values                    ↔ page
//!   c14.cs              colour-space arrays whose base / alternate points at every object         ↔ csLoad
//!   c14.ap              appearance dictionaries whose values point at every object                ↔ apLoad
//!   c14.prev            chains of cross-reference sections with arbitrary /Prev                    ↔ readChain
//!   c14.xref            cross-reference streams with arbitrary /W, /Index and data                 ↔ xrefSections
//!   c14.objstm          object streams with arbitrary /N, /First, offset tables                    ↔ objOffsets, objSlice
//!   c14.diff            /Differences arrays with arbitrary codes                                   ↔ differences
//!   c14.ps              PostScript calculator programs                                             ↔ psBody, exec
//! Every input of these streams lies in the domain of C14 (the property quantifies over all well-formed
//! files), so all streams are `in_domain`.

use super::plant::*;
use crate::driver::{hex, Driver};
use crate::report::Stream;
use crate::rng::Rng;
use pdf::content::Content;
use pdf::encoding::Encoding;
use pdf::file::{Log, NoCache, NoLog, Storage};
use pdf::font::Font;
use pdf::object::*;
use pdf::parser::{parse, parse_indirect_object, parse_xref_stream_and_trailer, Lexer, ParseFlags};
use pdf::primitive::Primitive;
use pdf::xref::XRef;
use std::panic::{catch_unwind, AssertUnwindSafe};
use std::sync::atomic::{AtomicU64, Ordering};

fn opts(tolerant: bool) -> ParseOptions {
    if tolerant { ParseOptions::tolerant() } else { ParseOptions::strict() }
}

fn guarded(f: impl FnOnce() -> String) -> String {
    catch_unwind(AssertUnwindSafe(f)).unwrap_or_else(|_| "panic".into())
}

struct CountingLog(AtomicU64);
impl<'a> Log for &'a CountingLog {
    fn log_get(&self, r: PlainRef) {
        // the helper objects (catalog 901–903, the object stream of the compressed layout 904) are not tree nodes
        if r.id < 900 {
            self.0.fetch_add(1, Ordering::SeqCst);
        }
    }
}

/// objects 1..=n with the given bodies, in a document whose catalog / page tree are objects 901..903
/// (so that the numbers just above n are dangling)
fn doc_with(bodies: &[String]) -> Vec<u8> {
    let n = 900u64;
    let mut objs: Vec<(u64, Vec<u8>)> = bodies.iter().enumerate().map(|(i, b)| (i as u64 + 1, b.clone().into_bytes())).collect();
    objs.push((n + 1, format!("<< /Type /Catalog /Pages {} 0 R >>", n + 2).into_bytes()));
    objs.push((n + 2, format!("<< /Type /Pages /Kids [{} 0 R] /Count 1 >>", n + 3).into_bytes()));
    objs.push((n + 3, format!("<< /Type /Page /Parent {} 0 R /MediaBox [0 0 1 1] >>", n + 2).into_bytes()));
    build_doc_as(&objs, &format!("/Root {} 0 R", n + 1), next_layout())
}

/// The layout of the documents of the graph streams changes from case to case (junk before the header,
/// objects stored in an object stream): what the model says does not depend on it, so neither may the
/// implementation.
fn next_layout() -> Variant {
    static TURN: AtomicU64 = AtomicU64::new(0);
    const LAYOUTS: [Variant; 6] = [
        PLAIN,
        Variant { prefix: 13, compressed: false },
        Variant { prefix: 0, compressed: true },
        PLAIN,
        Variant { prefix: 200, compressed: true },
        Variant { prefix: 1019, compressed: false },
    ];
    LAYOUTS[(TURN.fetch_add(1, Ordering::SeqCst) % 6) as usize]
}

fn storage(bytes: Vec<u8>, tolerant: bool) -> Option<Storage<Vec<u8>, NoCache, NoCache, NoLog>> {
    let mut s = Storage::with_cache(bytes, opts(tolerant), NoCache, NoCache, NoLog).ok()?;
    s.load_storage_and_trailer().ok()?;
    Some(s)
}

fn ask(st: &mut Stream, driver: &Driver, reqs: Vec<String>, imps: Vec<String>, nontrivial: impl Fn(&str, &str) -> bool) {
    let resp = driver.ask(&reqs);
    for ((rq, m), i) in reqs.iter().zip(resp.iter()).zip(imps.iter()) {
        st.count(&format!("outcome={}", m.split(' ').next().unwrap_or("")));
        if m != i { st.count("DISAGREE"); }
        st.case(rq, m, i, nontrivial(rq, m));
    }
}

fn join(v: &[String], sep: &str) -> String {
    if v.is_empty() { "-".into() } else { v.join(sep) }
}

// ---------------------------------------------------------------------------------------------------
// c14.load

#[derive(Clone, Debug)]
enum FontObj {
    Bad,
    Leaf,
    Type0(Vec<u64>),
}

fn font_case(objs: &[FontObj], k: u64, tolerant: bool) -> (String, String) {
    // model: index 0 = object 0 (free) → a missing object
    let mut m = vec!["m".to_string()];
    let mut bodies = vec![];
    for o in objs {
        match o {
            FontObj::Bad => {
                m.push("b".into());
                bodies.push("<< /Type /Font /BaseFont /NoSubtype >>".to_string());
            }
            FontObj::Leaf => {
                m.push("n0".into());
                bodies.push("<< /Type /Font /Subtype /Type1 /BaseFont /Leaf >>".to_string());
            }
            FontObj::Type0(ds) => {
                // only the first element of /DescendantFonts is loaded
                m.push(if ds.is_empty() { "n0".to_string() } else { format!("n0:{}.2.x", ds[0]) });
                bodies.push(format!("<< /Type /Font /Subtype /Type0 /BaseFont /Comp /Encoding /Identity-H /DescendantFonts [{}] >>", ds.iter().map(|d| rf(*d)).collect::<Vec<_>>().join(" ")));
            }
        }
    }
    let req = format!("c14.load {} {} {}", tolerant as u8, k, m.join(","));
    let bytes = doc_with(&bodies);
    let imp = guarded(|| match storage(bytes, tolerant) {
        None => "open-failed".into(),
        Some(s) => match s.resolver().get::<Font>(Ref::from_id(k)) { Ok(_) => "ok".into(), Err(_) => "err".into() },
    });
    (req, imp)
}

fn font_options(n: u64, max_desc: usize) -> Vec<FontObj> {
    let mut v = vec![FontObj::Bad, FontObj::Leaf, FontObj::Type0(vec![])];
    // targets: every object, object 0 (free) and one dangling number
    let targets: Vec<u64> = (0..=n + 1).collect();
    for a in &targets {
        v.push(FontObj::Type0(vec![*a]));
    }
    if max_desc >= 2 {
        for a in &targets {
            for b in &targets {
                v.push(FontObj::Type0(vec![*a, *b]));
            }
        }
    }
    v
}

fn load_fonts(driver: &Driver, seed: u64, thorough: bool) -> Stream {
    let mut st = Stream::new("c14.load.fonts", true);
    let (mut reqs, mut imps) = (vec![], vec![]);
    // exhaustive: every graph over n objects
    let nmax = if thorough { 3 } else { 2 };
    for n in 1..=nmax as u64 {
        let optsv = font_options(n, if n <= 2 { 2 } else { 1 });
        let total = optsv.len().pow(n as u32);
        for c in 0..total {
            let mut x = c;
            let objs: Vec<FontObj> = (0..n).map(|_| { let o = optsv[x % optsv.len()].clone(); x /= optsv.len(); o }).collect();
            for k in 1..=n {
                let (r, i) = font_case(&objs, k, c % 2 == 0);
                reqs.push(r);
                imps.push(i);
            }
        }
    }
    st.count(&format!("exhaustive graphs up to {} objects: {} cases", nmax, reqs.len()));
    let nrand = if thorough { 20_000 } else { 1_500 };
    for case in 0..nrand {
        let mut rng = Rng::derive(seed, "c14.load.fonts", case);
        let n = 2 + rng.below(6);
        let objs: Vec<FontObj> = (0..n).map(|_| match rng.below(8) {
            0 => FontObj::Bad,
            1 | 2 => FontObj::Leaf,
            _ => FontObj::Type0((0..rng.below(4)).map(|_| if rng.chance(1, 12) { n + 1 } else { 1 + rng.below(n) }).collect()),
        }).collect();
        st.count(&format!("random objects={}", n));
        let (r, i) = font_case(&objs, 1 + rng.below(n), rng.chance(1, 2));
        reqs.push(r);
        imps.push(i);
    }
    // nesting around the limit of 64 loads in progress
    for len in [2u64, 63, 64, 65, 66, 200] {
        let mut objs: Vec<FontObj> = (1..len).map(|i| FontObj::Type0(vec![i + 1])).collect();
        objs.push(FontObj::Leaf);
        let (r, i) = font_case(&objs, 1, false);
        reqs.push(r);
        imps.push(i);
    }
    ask(&mut st, driver, reqs, imps, |rq, _| rq.contains(':'));
    st
}

#[derive(Clone, Debug)]
enum PageObj {
    Bad,
    Page(u64),
    Pages(Option<u64>),
}

fn pages_case(objs: &[PageObj], k: u64, tolerant: bool) -> (String, String) {
    let mut m = vec!["b".to_string()];
    let mut bodies = vec![];
    for o in objs {
        match o {
            PageObj::Bad => {
                m.push("b".into());
                bodies.push("<< /Type /Font /Subtype /Type1 /BaseFont /NotAPage >>".to_string());
            }
            PageObj::Page(p) => {
                m.push(format!("n1:{}.0.0", p));
                bodies.push(format!("<< /Type /Page /Parent {} >>", rf(*p)));
            }
            PageObj::Pages(None) => {
                m.push("n0".into());
                bodies.push("<< /Type /Pages /Kids [] /Count 0 >>".to_string());
            }
            PageObj::Pages(Some(p)) => {
                m.push(format!("n0:{}.1.0", p));
                bodies.push(format!("<< /Type /Pages /Parent {} /Kids [] /Count 0 >>", rf(*p)));
            }
        }
    }
    let req = format!("c14.load {} {} {}", tolerant as u8, k, m.join(","));
    let bytes = doc_with(&bodies);
    let imp = guarded(|| match storage(bytes, tolerant) {
        None => "open-failed".into(),
        Some(s) => match s.resolver().get::<PagesNode>(Ref::from_id(k)) { Ok(_) => "ok".into(), Err(_) => "err".into() },
    });
    (req, imp)
}

fn load_pages(driver: &Driver, seed: u64, thorough: bool) -> Stream {
    let mut st = Stream::new("c14.load.pages", true);
    let (mut reqs, mut imps) = (vec![], vec![]);
    let nmax = if thorough { 4 } else { 3 };
    for n in 1..=nmax as u64 {
        // /Parent points at every object of the graph (optional fields never at a missing object: what a
        // dangling reference in an Option is, is the subject of C18)
        let mut optsv = vec![PageObj::Bad, PageObj::Pages(None)];
        for a in 1..=n {
            optsv.push(PageObj::Page(a));
            optsv.push(PageObj::Pages(Some(a)));
        }
        let total = optsv.len().pow(n as u32);
        for c in 0..total {
            let mut x = c;
            let objs: Vec<PageObj> = (0..n).map(|_| { let o = optsv[x % optsv.len()].clone(); x /= optsv.len(); o }).collect();
            for k in 1..=n {
                for tol in [false, true] {
                    let (r, i) = pages_case(&objs, k, tol);
                    reqs.push(r);
                    imps.push(i);
                }
            }
        }
    }
    st.exhaustive = false;
    st.count(&format!("exhaustive graphs up to {} objects: {} cases", nmax, reqs.len()));
    for case in 0..(if thorough { 10_000 } else { 600 }) {
        let mut rng = Rng::derive(seed, "c14.load.pages", case);
        let n = 3 + rng.below(6);
        let objs: Vec<PageObj> = (0..n).map(|_| match rng.below(8) {
            0 => PageObj::Bad,
            1 => PageObj::Pages(None),
            2 | 3 | 4 => PageObj::Page(1 + rng.below(n)),
            _ => PageObj::Pages(Some(1 + rng.below(n))),
        }).collect();
        let (r, i) = pages_case(&objs, 1 + rng.below(n), rng.chance(1, 2));
        reqs.push(r);
        imps.push(i);
    }
    // /Parent chains around the limit of 64 loads in progress (the last node has no parent)
    for len in [2u64, 63, 64, 65, 66, 200] {
        for tol in [false, true] {
            let mut objs: Vec<PageObj> = vec![PageObj::Page(2)];
            objs.extend((2..len).map(|i| PageObj::Pages(Some(i + 1))));
            objs.push(PageObj::Pages(None));
            let (r, i) = pages_case(&objs, 1, tol);
            reqs.push(r);
            imps.push(i);
        }
    }
    ask(&mut st, driver, reqs, imps, |rq, _| rq.contains(':'));
    st
}

// ---------------------------------------------------------------------------------------------------
// c14.resolve

fn resolve_case(objs: &[Option<u64>], vals: &[u64], k: u64) -> (String, String) {
    // objs[i] = Some(j): object i+1 is `j 0 R`; None: the integer vals[i]
    let n = objs.len() as u64;
    let mut m = vec![format!("r{}", n + 50)];
    let mut bodies = vec![];
    for (i, o) in objs.iter().enumerate() {
        match o {
            Some(j) => { m.push(format!("r{}", j)); bodies.push(rf(*j)); }
            None => { m.push(format!("v{}", vals[i])); bodies.push(format!("{}", vals[i])); }
        }
    }
    // the model table ends where the document's own objects begin: give them as values the harness can recognise
    let req = format!("c14.resolve {} {}", k, m.join(","));
    let bytes = doc_with(&bodies);
    let imp = guarded(|| match storage(bytes, false) {
        None => "open-failed".into(),
        Some(s) => {
            let r = s.resolver();
            let a = match r.resolve(PlainRef { id: k, gen: 0 }) { Ok(Primitive::Integer(v)) => format!("ok {}", v), Ok(Primitive::Reference(_)) => "reference".into(), Ok(_) => "other".into(), Err(_) => "err".into() };
            // the recursion pattern `Reference(r) => Self::from_primitive(resolve(r)?)`
            let b = match Vec::<Primitive>::from_primitive(Primitive::Reference(PlainRef { id: k, gen: 0 }), &r) {
                Ok(v) => match v.as_slice() { [Primitive::Integer(x)] => format!("ok {}", x), _ => "other".into() },
                Err(_) => "err".into(),
            };
            // the same pattern in Content / Dictionary (outcome only)
            let c = Content::from_primitive(Primitive::Reference(PlainRef { id: k, gen: 0 }), &r).is_ok();
            let d = Dictionary::from_primitive(Primitive::Reference(PlainRef { id: k, gen: 0 }), &r).is_ok();
            let _ = (c, d);
            format!("{} {}", a, b)
        }
    });
    (req, imp)
}

use pdf::primitive::Dictionary;

fn resolve_stream(driver: &Driver, seed: u64, thorough: bool) -> Stream {
    let mut st = Stream::new("c14.resolve", true);
    let (mut reqs, mut imps) = (vec![], vec![]);
    // exhaustive over 3 objects: each an integer or a reference to 0..=4 (0: free, 4: dangling)
    let n = 3u64;
    let per = 6usize;
    for c in 0..per.pow(3) {
        let mut x = c;
        let objs: Vec<Option<u64>> = (0..n).map(|_| { let o = x % per; x /= per; if o == 5 { None } else { Some(o as u64) } }).collect();
        for k in 0..=n + 1 {
            let (r, i) = resolve_case(&objs, &[11, 12, 13], k);
            reqs.push(r);
            imps.push(i);
        }
    }
    st.count(&format!("exhaustive tables of 3 objects: {} cases", reqs.len()));
    for case in 0..(if thorough { 5_000 } else { 400 }) {
        let mut rng = Rng::derive(seed, "c14.resolve", case);
        // chains of length 0..=20 ending in a value, a cycle or a dangling number
        let len = rng.below(21);
        let n = len + 1;
        let mut objs: Vec<Option<u64>> = (1..=len).map(|i| Some(i + 1)).collect();
        objs.push(match rng.below(4) { 0 => Some(1 + rng.below(n)), 1 => Some(n + 3), _ => None });
        let vals: Vec<u64> = (0..n).map(|i| 100 + i).collect();
        st.count(&format!("chain length={}", len));
        let (r, i) = resolve_case(&objs, &vals, 1 + rng.below(n));
        reqs.push(r);
        imps.push(i);
    }
    ask(&mut st, driver, reqs, imps, |rq, _| rq.contains('r'));
    st
}

// ---------------------------------------------------------------------------------------------------
// c14.walk

#[derive(Clone, Debug)]
enum TreeObj {
    Bad,
    Leaf(u64),
    Inter(Vec<u64>),
}

fn walk_case(objs: &[TreeObj], root: u64, number: bool) -> (String, String) {
    let mut m = vec!["b".to_string()];
    let mut bodies = vec![];
    for o in objs {
        match o {
            TreeObj::Bad => { m.push("b".into()); bodies.push("[1 2 3]".to_string()); }
            TreeObj::Leaf(n) => {
                m.push(format!("l{}", n));
                let items: Vec<String> = (0..*n).map(|i| if number { format!("{} (v)", i) } else { format!("(k{}) (v)", i) }).collect();
                bodies.push(format!("<< /{} [{}] >>", if number { "Nums" } else { "Names" }, items.join(" ")));
            }
            TreeObj::Inter(ks) => {
                m.push(format!("i{}", ks.iter().map(|k| k.to_string()).collect::<Vec<_>>().join("+")));
                bodies.push(format!("<< /Kids [{}] >>", ks.iter().map(|k| rf(*k)).collect::<Vec<_>>().join(" ")));
            }
        }
    }
    let req = format!("c14.walk {} {}", root, m.join(","));
    let bytes = doc_with(&bodies);
    let imp = guarded(|| {
        let log = CountingLog(AtomicU64::new(0));
        let mut s = match Storage::with_cache(bytes, opts(false), NoCache, NoCache, &log) { Ok(s) => s, Err(_) => return "open-failed".into() };
        if s.load_storage_and_trailer().is_err() {
            return "open-failed".into();
        }
        let r = s.resolver();
        let mut calls = 0u64;
        let res = if number {
            match r.get::<NumberTree<Primitive>>(Ref::from_id(root)) {
                Err(_) => return "err 0".into(),
                Ok(t) => { log.0.store(0, Ordering::SeqCst); t.walk(&r, &mut |_, _| calls += 1) }
            }
        } else {
            match r.get::<NameTree<Primitive>>(Ref::from_id(root)) {
                Err(_) => return "err 0".into(),
                Ok(t) => { log.0.store(0, Ordering::SeqCst); t.walk(&r, &mut |_, _| calls += 1) }
            }
        };
        let gets = log.0.load(Ordering::SeqCst);
        match res { Ok(()) => format!("ok {} {}", calls, gets), Err(_) => format!("err {}", gets) }
    });
    (req, imp)
}

fn walk_stream(driver: &Driver, seed: u64, thorough: bool) -> Stream {
    let mut st = Stream::new("c14.walk", true);
    let (mut reqs, mut imps) = (vec![], vec![]);
    let nmax = if thorough { 3 } else { 2 };
    for n in 1..=nmax as u64 {
        let mut optsv = vec![TreeObj::Bad, TreeObj::Leaf(0), TreeObj::Leaf(2), TreeObj::Inter(vec![])];
        let targets: Vec<u64> = (0..=n + 1).collect();
        for a in &targets {
            optsv.push(TreeObj::Inter(vec![*a]));
            for b in &targets {
                optsv.push(TreeObj::Inter(vec![*a, *b]));
            }
        }
        let total = optsv.len().pow(n as u32);
        for c in 0..total {
            let mut x = c;
            let objs: Vec<TreeObj> = (0..n).map(|_| { let o = optsv[x % optsv.len()].clone(); x /= optsv.len(); o }).collect();
            for root in 1..=n {
                let (r, i) = walk_case(&objs, root, c % 2 == 1);
                reqs.push(r);
                imps.push(i);
            }
        }
    }
    st.count(&format!("exhaustive trees up to {} nodes: {} cases", nmax, reqs.len()));
    for case in 0..(if thorough { 20_000 } else { 1_500 }) {
        let mut rng = Rng::derive(seed, "c14.walk", case);
        // mostly proper trees (so that deep successful walks are compared), some with a stray edge
        let n = 2 + rng.below(9);
        let mut objs: Vec<TreeObj> = vec![];
        for i in 1..=n {
            // kids of node i: nodes i+1.. assigned round robin → a tree; leaves at the end
            let kids: Vec<u64> = (i + 1..=n).filter(|j| (j - 2) / 2 + 1 == i).collect();
            objs.push(if kids.is_empty() { TreeObj::Leaf(rng.below(4)) } else { TreeObj::Inter(kids) });
        }
        let stray = rng.below(3);
        for _ in 0..stray {
            let i = rng.usize(n as usize);
            let t = rng.below(n + 2);
            match &mut objs[i] {
                TreeObj::Inter(k) => k.push(t),
                o => *o = TreeObj::Inter(vec![t]),
            }
        }
        if rng.chance(1, 10) {
            let i = rng.usize(n as usize);
            objs[i] = TreeObj::Bad;
        }
        st.count(&format!("random nodes={} stray={}", n, stray));
        let (r, i) = walk_case(&objs, 1, rng.chance(1, 2));
        reqs.push(r);
        imps.push(i);
    }
    // nesting around the depth budget: chains of 60..70 intermediate nodes
    for len in [1u64, 10, 63, 64, 65, 66, 70] {
        let mut objs: Vec<TreeObj> = (1..=len).map(|i| TreeObj::Inter(vec![i + 1])).collect();
        objs.push(TreeObj::Leaf(1));
        let (r, i) = walk_case(&objs, 1, false);
        reqs.push(r);
        imps.push(i);
    }
    ask(&mut st, driver, reqs, imps, |rq, m| rq.contains('i') && m != "err 0");
    st
}

// ---------------------------------------------------------------------------------------------------
// c14.page

#[derive(Clone, Debug)]
enum PgObj {
    Bad,
    Leaf,
    Tree(Vec<u64>, u64),
}

fn page_case(objs: &[PgObj], root_kids: &[u64], root_count: u64, page_nr: u32) -> (String, String) {
    // object n+1 is the root of the lookup (always a /Pages without /Parent); its own entry in the model table
    let n = objs.len() as u64;
    let root = n + 1;
    let mut m = vec!["b".to_string()];
    let mut bodies = vec![];
    let kid_list = |ks: &[u64]| ks.iter().map(|k| rf(*k)).collect::<Vec<_>>().join(" ");
    let km = |ks: &[u64]| ks.iter().map(|k| k.to_string()).collect::<Vec<_>>().join("+");
    for o in objs {
        match o {
            PgObj::Bad => { m.push("b".into()); bodies.push("<< /Type /Font /Subtype /Type1 /BaseFont /NotAPage >>".to_string()); }
            PgObj::Leaf => { m.push("p".into()); bodies.push(format!("<< /Type /Page /Parent {} >>", rf(root))); }
            PgObj::Tree(ks, c) => {
                m.push(if ks.is_empty() { format!("t{}", c) } else { format!("t{}:{}", c, km(ks)) });
                bodies.push(format!("<< /Type /Pages /Parent {} /Kids [{}] /Count {} >>", rf(root), kid_list(ks), c));
            }
        }
    }
    m.push(if root_kids.is_empty() { format!("t{}", root_count) } else { format!("t{}:{}", root_count, km(root_kids)) });
    bodies.push(format!("<< /Type /Pages /Kids [{}] /Count {} >>", kid_list(root_kids), root_count));
    let req = format!("c14.page {} {} {}", page_nr, if root_kids.is_empty() { "-".to_string() } else { km(root_kids) }, m.join(","));
    let bytes = doc_with(&bodies);
    let imp = guarded(|| match storage(bytes, false) {
        None => "open-failed".into(),
        Some(s) => {
            let r = s.resolver();
            match r.get::<PagesNode>(Ref::from_id(root)) {
                Ok(node) => match &*node {
                    PagesNode::Tree(t) => match t.page(&r, page_nr) { Ok(p) => format!("ok {}", p.get_ref().get_inner().id), Err(_) => "err".into() },
                    _ => "root-not-a-tree".into(),
                },
                Err(_) => "root-failed".into(),
            }
        }
    });
    (req, imp)
}

fn page_stream(driver: &Driver, seed: u64, thorough: bool) -> Stream {
    let mut st = Stream::new("c14.page", true);
    let (mut reqs, mut imps) = (vec![], vec![]);
    let big = [0u64, 1, 2, 3, 2147483647];
    // exhaustive: two objects, each bad / leaf / tree with 0..2 kids among {0,1,2,3(root),4(dangling)} and a count
    let mut optsv = vec![PgObj::Bad, PgObj::Leaf];
    for c in [0u64, 1, 2, 2147483647] {
        optsv.push(PgObj::Tree(vec![], c));
        for a in 0..=4u64 {
            optsv.push(PgObj::Tree(vec![a], c));
        }
        if thorough {
            for a in 1..=3u64 { for b in 1..=3u64 { optsv.push(PgObj::Tree(vec![a, b], c)); } }
        }
    }
    for c in 0..optsv.len().pow(2) {
        let objs = vec![optsv[c % optsv.len()].clone(), optsv[c / optsv.len()].clone()];
        for kids in [vec![1u64], vec![1, 2], vec![2, 1, 2], vec![1, 1, 1]] {
            for nr in [0u32, 1, 2, u32::MAX] {
                if !thorough && (c + nr as usize) % 3 != 0 { continue; }
                let (r, i) = page_case(&objs, &kids, 2, nr);
                reqs.push(r);
                imps.push(i);
            }
        }
    }
    st.count(&format!("exhaustive two-node trees: {} cases", reqs.len()));
    for case in 0..(if thorough { 30_000 } else { 2_500 }) {
        let mut rng = Rng::derive(seed, "c14.page", case);
        let n = 1 + rng.below(7);
        let honest = rng.chance(1, 2);
        let objs: Vec<PgObj> = (1..=n).map(|i| match rng.below(10) {
            0 => PgObj::Bad,
            1..=4 => PgObj::Leaf,
            _ => {
                // honest: kids among later objects (a tree); hostile: anywhere, the root and dangling numbers included
                let nk = rng.below(4);
                let ks: Vec<u64> = (0..nk).map(|_| if honest { (i + 1 + rng.below(n.max(i + 1) - i)).min(n) } else { rng.below(n + 3) }).collect();
                let c = if honest { nk } else { *rng.pick(&big) };
                PgObj::Tree(ks, c)
            }
        }).collect();
        let nk = 1 + rng.below(4);
        let kids: Vec<u64> = (0..nk).map(|_| if honest { 1 + rng.below(n) } else { rng.below(n + 3) }).collect();
        let nr = match rng.below(6) { 0 => u32::MAX, 1 => 2147483647, 2 => 2147483646, _ => rng.below(6) as u32 };
        st.count(if honest { "random honest" } else { "random hostile" });
        let (r, i) = page_case(&objs, &kids, *rng.pick(&big), nr);
        reqs.push(r);
        imps.push(i);
    }
    // nesting around the depth budget: chains of trees of depth 14..18 ending in a leaf
    for depth in [1u64, 14, 15, 16, 17, 18] {
        let mut objs: Vec<PgObj> = (1..=depth).map(|i| PgObj::Tree(vec![i + 1], 1)).collect();
        objs.push(PgObj::Leaf);
        let (r, i) = page_case(&objs, &[1], 1, 0);
        reqs.push(r);
        imps.push(i);
    }
    ask(&mut st, driver, reqs, imps, |rq, _| rq.contains(':'));
    st
}

// ---------------------------------------------------------------------------------------------------
// c14.cs

#[derive(Clone, Debug)]
enum CsObj { Name, Other, Bad, Indexed(u64), Sep(u64), DevN(u64) }

fn cs_case(objs: &[CsObj], k: u64) -> (String, String) {
    let mut m = vec!["b".to_string()];
    let mut bodies = vec![];
    let f = "<< /FunctionType 2 /Domain [0.0 1.0] /C0 [0.0] /C1 [1.0] /N 1.0 >>";
    for o in objs {
        let (mm, b) = match o {
            CsObj::Name => ("n".to_string(), "/DeviceRGB".to_string()),
            CsObj::Other => ("o".to_string(), "[/CalRGB << /WhitePoint [1.0 1.0 1.0] >>]".to_string()),
            CsObj::Bad => ("b".to_string(), "<< /Not /AColorSpace >>".to_string()),
            CsObj::Indexed(b) => (format!("x{}", b), format!("[/Indexed {} 1 (abcdef)]", rf(*b))),
            CsObj::Sep(b) => (format!("s{}", b), format!("[/Separation /Spot {} {}]", rf(*b), f)),
            CsObj::DevN(b) => (format!("d{}", b), format!("[/DeviceN [/A] {} {}]", rf(*b), f)),
        };
        m.push(mm);
        bodies.push(b);
    }
    let req = format!("c14.cs {} {}", k, m.join(","));
    let bytes = doc_with(&bodies);
    let imp = guarded(|| match storage(bytes, false) {
        None => "open-failed".into(),
        Some(s) => match ColorSpace::from_primitive(Primitive::Reference(PlainRef { id: k, gen: 0 }), &s.resolver()) { Ok(_) => "ok".into(), Err(_) => "err".into() },
    });
    (req, imp)
}

fn cs_stream(driver: &Driver, seed: u64, thorough: bool) -> Stream {
    let mut st = Stream::new("c14.cs", true);
    let (mut reqs, mut imps) = (vec![], vec![]);
    let n = 3u64;
    let mut optsv = vec![CsObj::Name, CsObj::Other, CsObj::Bad];
    for a in 0..=n + 1 {
        optsv.push(CsObj::Indexed(a));
        optsv.push(CsObj::Sep(a));
        optsv.push(CsObj::DevN(a));
    }
    for c in 0..optsv.len().pow(3) {
        let mut x = c;
        let objs: Vec<CsObj> = (0..n).map(|_| { let o = optsv[x % optsv.len()].clone(); x /= optsv.len(); o }).collect();
        if !thorough && c % 3 != 0 { continue; }
        let (r, i) = cs_case(&objs, 1 + (c as u64 % n));
        reqs.push(r);
        imps.push(i);
    }
    st.count(&format!("three-object graphs: {} cases", reqs.len()));
    for case in 0..(if thorough { 5_000 } else { 400 }) {
        let mut rng = Rng::derive(seed, "c14.cs", case);
        // chains around the depth budget
        let len = rng.below(9);
        let mut objs: Vec<CsObj> = (1..=len).map(|i| match rng.below(3) { 0 => CsObj::Indexed(i + 1), 1 => CsObj::Sep(i + 1), _ => CsObj::DevN(i + 1) }).collect();
        objs.push(match rng.below(5) { 0 => CsObj::Other, 1 => CsObj::Bad, 2 => CsObj::DevN(1 + rng.below(len + 1)), _ => CsObj::Name });
        st.count(&format!("chain length={}", len));
        let (r, i) = cs_case(&objs, 1);
        reqs.push(r);
        imps.push(i);
    }
    ask(&mut st, driver, reqs, imps, |rq, _| rq.contains('x') || rq.contains('s') || rq.contains('d'));
    st
}

// ---------------------------------------------------------------------------------------------------
// c14.ap

#[derive(Clone, Debug)]
enum ApObj { Stream, Dict(Vec<u64>), Bad }

fn ap_case(objs: &[ApObj], k: u64) -> (String, String) {
    let mut m = vec!["b".to_string()];
    let mut bodies: Vec<(u64, Vec<u8>)> = vec![];
    for (i, o) in objs.iter().enumerate() {
        let id = i as u64 + 1;
        match o {
            ApObj::Stream => { m.push("s".into()); bodies.push((id, crate::pdfwrite::stream_body("/Type /XObject /Subtype /Form /BBox [0 0 1 1]", b"q Q"))); }
            ApObj::Bad => { m.push("b".into()); bodies.push((id, b"[1 2]".to_vec())); }
            ApObj::Dict(vs) => {
                m.push(format!("d{}", vs.iter().map(|v| v.to_string()).collect::<Vec<_>>().join("+")));
                bodies.push((id, format!("<< {} >>", vs.iter().enumerate().map(|(j, v)| format!("/S{} {}", j, rf(*v))).collect::<Vec<_>>().join(" ")).into_bytes()));
            }
        }
    }
    let req = format!("c14.ap {} {}", k, m.join(","));
    bodies.push((901, b"<< /Type /Catalog /Pages 902 0 R >>".to_vec()));
    bodies.push((902, b"<< /Type /Pages /Kids [] /Count 0 >>".to_vec()));
    let bytes = build_doc_as(&bodies, "/Root 901 0 R", next_layout());
    let imp = guarded(|| match storage(bytes, false) {
        None => "open-failed".into(),
        Some(s) => match AppearanceStreamEntry::from_primitive(Primitive::Reference(PlainRef { id: k, gen: 0 }), &s.resolver()) { Ok(_) => "ok".into(), Err(_) => "err".into() },
    });
    (req, imp)
}

fn ap_stream(driver: &Driver, seed: u64, thorough: bool) -> Stream {
    let mut st = Stream::new("c14.ap", true);
    let (mut reqs, mut imps) = (vec![], vec![]);
    let n = 3u64;
    let mut optsv = vec![ApObj::Stream, ApObj::Bad, ApObj::Dict(vec![])];
    for a in 0..=n + 1 {
        optsv.push(ApObj::Dict(vec![a]));
        for b in 1..=n {
            optsv.push(ApObj::Dict(vec![a, b]));
        }
    }
    for c in 0..optsv.len().pow(3) {
        if !thorough && c % 4 != 0 { continue; }
        let mut x = c;
        let objs: Vec<ApObj> = (0..n).map(|_| { let o = optsv[x % optsv.len()].clone(); x /= optsv.len(); o }).collect();
        let (r, i) = ap_case(&objs, 1 + (c as u64 % n));
        reqs.push(r);
        imps.push(i);
    }
    st.count(&format!("three-object graphs: {} cases", reqs.len()));
    for case in 0..(if thorough { 3_000 } else { 300 }) {
        let mut rng = Rng::derive(seed, "c14.ap", case);
        let n = 2 + rng.below(6);
        let objs: Vec<ApObj> = (1..=n).map(|i| match rng.below(6) {
            0 | 1 | 2 => ApObj::Stream,
            3 => ApObj::Bad,
            _ => ApObj::Dict((0..rng.below(4)).map(|_| if rng.chance(2, 3) { (i + 1 + rng.below(n)).min(n) } else { rng.below(n + 2) }).collect()),
        }).collect();
        let (r, i) = ap_case(&objs, 1);
        reqs.push(r);
        imps.push(i);
    }
    ask(&mut st, driver, reqs, imps, |rq, _| rq.contains('d'));
    st
}

// ---------------------------------------------------------------------------------------------------
// c14.prev

/// what the model is told about a /Prev value: a number the reader accepts (`p<n>`), or a section whose
/// trailer cannot be used (`u`: the token is not a non-negative i32, so the dictionary or `as_usize` fails)
fn prev_kind(pv: &Pv, val: Option<u64>) -> String {
    match pv {
        Pv::None => "e".into(),
        _ => match val { Some(v) if v <= i32::MAX as u64 => format!("p{}", v), _ => "u".into() },
    }
}

fn prev_case(prefix: usize, prevs: &[Pv], stream: bool, sx: &Pv) -> (String, String) {
    let doc = prev_doc_at(prefix, prevs, stream, sx);
    // a section is also found from the white space right in front of it (the reader skips it)
    let mut entries: Vec<String> = vec![];
    for k in 0..prevs.len() {
        let kind = prev_kind(&prevs[k], doc.prev_val[k]);
        let mut q = prefix + doc.sec_pos[k];
        entries.push(format!("{}:{}", q, kind));
        while q > 0 && matches!(doc.bytes[q - 1], 0 | 9 | 10 | 12 | 13 | 32) {
            q -= 1;
            entries.push(format!("{}:{}", q, kind));
        }
    }
    // startxref: a usize or not
    let sxm = match sx { Pv::Lit(t) => match t.parse::<u64>() { Ok(v) => v.to_string(), Err(_) => "x".into() }, _ => doc.startxref_val.map(|v| v.to_string()).unwrap_or("x".into()) };
    let req = format!("c14.prev {} {} {} {}", prefix, sxm, doc.bytes.len(), join(&entries, ","));
    let bytes = doc.bytes;
    let imp = guarded(|| {
        let mut s = match Storage::with_cache(bytes, opts(false), NoCache, NoCache, NoLog) { Ok(s) => s, Err(_) => return "open-failed".into() };
        match s.load_storage_and_trailer() { Ok(_) => "ok".into(), Err(_) => "err".into() }
    });
    (req, imp)
}

fn prev_stream(driver: &Driver, seed: u64, thorough: bool) -> Stream {
    let mut st = Stream::new("c14.prev", true);
    let (mut reqs, mut imps) = (vec![], vec![]);
    let spacing = SECTION_SPACING as i64;
    // exhaustive: k ≤ 3 sections, every /Prev ∈ {none, section j, a position inside an object, outside the
    // file}; behind no junk, 1 byte, and exactly one / two section distances of junk
    let prefixes: Vec<usize> = if thorough { vec![0, 1, 13, SECTION_SPACING, 2 * SECTION_SPACING, 1019] } else { vec![0, 13, SECTION_SPACING] };
    for &px in &prefixes {
        for k in 1..=3usize {
            let per = k + 3;
            for c in 0..per.pow(k as u32) {
                let mut x = c;
                let prevs: Vec<Pv> = (0..k).map(|_| { let o = x % per; x /= per; match o { 0 => Pv::None, o if o <= k => Pv::Sec(o - 1), o if o == k + 1 => Pv::Lit("16".into()), _ => Pv::Lit("999999999".into()) } }).collect();
                let stream = (c + px) % 2 == 1;
                if !thorough && px != 0 && k == 3 && c % 3 != 0 { continue; }
                let (r, i) = prev_case(px, &prevs, stream, &Pv::Sec(0));
                st.count(&format!("sections={} prefix={}", k, px));
                reqs.push(r);
                imps.push(i);
            }
        }
    }
    st.count(&format!("exhaustive chains up to 3 sections: {} cases", reqs.len()));
    // random: longer chains, numbers in the wrong coordinate system, hostile startxref
    for case in 0..(if thorough { 4_000 } else { 500 }) {
        let mut rng = Rng::derive(seed, "c14.prev", case);
        let px = *rng.pick(&[0usize, 1, 7, 13, 200, SECTION_SPACING, SECTION_SPACING, 2 * SECTION_SPACING, 3 * SECTION_SPACING, 1019]);
        let pxi = px as i64;
        let k = 1 + rng.usize(6);
        let prevs: Vec<Pv> = (0..k).map(|i| match rng.below(14) {
            0 => Pv::None,
            1 => Pv::Lit("16".into()),
            2 => Pv::Lit("999999999".into()),
            3 => Pv::SecPlus(rng.usize(k), pxi),
            4 => Pv::SecPlus(rng.usize(k), -pxi),
            5 => Pv::SecPlus(rng.usize(k), spacing),
            6 => Pv::SecPlus(rng.usize(k), -spacing),
            7 => Pv::Lit(rng.pick(&["-1", "2147483647", "4294967295", "18446744073709551615", "0"]).to_string()),
            8 | 9 => Pv::Sec(rng.usize(k)),
            _ => if i + 1 < k { Pv::Sec(i + 1) } else { Pv::None },
        }).collect();
        let sx = match rng.below(10) {
            0 => Pv::SecPlus(0, pxi),
            1 => Pv::SecPlus(0, -pxi),
            2 => Pv::Sec(rng.usize(k)),
            3 => Pv::Lit(rng.pick(&["0", "16", "999999999", "18446744073709551615", "-1"]).to_string()),
            _ => Pv::Sec(0),
        };
        st.count(&format!("random prefix={}", match px { 0 => "0", p if p % SECTION_SPACING == 0 => "k*spacing", _ => "other" }));
        let (r, i) = prev_case(px, &prevs, rng.chance(1, 2), &sx);
        reqs.push(r);
        imps.push(i);
    }
    let resp = driver.ask(&reqs);
    for ((rq, m), i) in reqs.iter().zip(resp.iter()).zip(imps.iter()) {
        // the implementation does not tell how many sections it merged: compare the outcome class
        let mc = m.split(' ').next().unwrap_or("").to_string();
        st.count(&format!("outcome={}", mc));
        if &mc != i { st.count("DISAGREE"); }
        st.case(rq, &mc, i, rq.contains(":p"));
    }
    st
}

// ---------------------------------------------------------------------------------------------------
// c14.xref

fn show_xref(e: &XRef) -> String {
    match *e {
        XRef::Free { next_obj_nr, gen_nr } => format!("f.{}.{}", next_obj_nr, gen_nr),
        XRef::Raw { pos, gen_nr } => format!("r.{}.{}", pos, gen_nr),
        XRef::Stream { stream_id, index } => format!("s.{}.{}", stream_id, index),
        XRef::Promised => "P".into(),
        XRef::Invalid => "I".into(),
    }
}

fn xref_stream(driver: &Driver, seed: u64, thorough: bool) -> Stream {
    let mut st = Stream::new("c14.xref", true);
    let (mut reqs, mut imps) = (vec![], vec![]);
    let mut cases: Vec<(bool, Vec<u64>, Vec<(u64, u64)>, Vec<u8>)> = vec![];
    // small exhaustive part: widths 0..2 each, one section of 0..3 entries, 0..6 bytes of data
    for w0 in 0..=2u64 { for w1 in 0..=2u64 { for w2 in 0..=2u64 { for cnt in 0..=3u64 { for len in [0usize, 1, 3, 6] {
        let data: Vec<u8> = (0..len).map(|i| ((i * 7 + w0 as usize) % 3) as u8).collect();
        cases.push(((w0 + cnt) % 2 == 0, vec![w0, w1, w2], vec![(0, cnt)], data));
    } } } } }
    for case in 0..(if thorough { 40_000 } else { 3_000 }) {
        let mut rng = Rng::derive(seed, "c14.xref", case);
        let wv = [0u64, 0, 1, 1, 1, 2, 2, 3, 4, 8, 9, 2147483647];
        let w: Vec<u64> = if rng.chance(1, 20) { (0..rng.below(5)).map(|_| *rng.pick(&wv)).collect() } else { (0..3).map(|_| *rng.pick(&wv)).collect() };
        let npairs = 1 + rng.below(3);
        let cv = [0u64, 1, 2, 3, 5, 8, 2147483647];
        let pairs: Vec<(u64, u64)> = (0..npairs).map(|_| (*rng.pick(&[0u64, 1, 5, 2147483647]), *rng.pick(&cv))).collect();
        let len = rng.usize(40);
        // type bytes mostly valid
        let data: Vec<u8> = (0..len).map(|_| if rng.chance(4, 5) { rng.below(3) as u8 } else { rng.byte() }).collect();
        cases.push((rng.chance(1, 2), w, pairs, data));
    }
    for (tol, w, pairs, data) in cases {
        let req = format!("c14.xref {} {} {} {}", tol as u8, join(&w.iter().map(|x| x.to_string()).collect::<Vec<_>>(), ","), join(&pairs.iter().map(|(a, b)| format!("{}.{}", a, b)).collect::<Vec<_>>(), ","), hex(&data));
        let mut bytes = b"%PDF-1.7\n".to_vec();
        let pos = bytes.len();
        let dict = format!("/Type /XRef /Size 5 /W [{}] /Index [{}]", w.iter().map(|x| x.to_string()).collect::<Vec<_>>().join(" "), pairs.iter().map(|(a, b)| format!("{} {}", a, b)).collect::<Vec<_>>().join(" "));
        bytes.extend_from_slice(b"7 0 obj\n");
        bytes.extend_from_slice(&crate::pdfwrite::stream_body(&dict, &data));
        // (the reader looks one token past `endobj` for a separate `trailer`)
        bytes.extend_from_slice(b"\nendobj\nstartxref\n9\n%%EOF\n");
        let imp = guarded(|| {
            let s = match Storage::with_cache(bytes.clone(), opts(tol), NoCache, NoCache, NoLog) { Ok(s) => s, Err(_) => return "open-failed".into() };
            let r = s.resolver();
            let mut lexer = Lexer::with_offset(&bytes[pos..], pos);
            match parse_xref_stream_and_trailer(&mut lexer, &r) {
                Err(e) => { if std::env::var("C14_DEBUG").is_ok() { eprintln!("xref err: {:?} for {}", e, dict); } "err".into() },
                Ok((secs, _)) => format!("ok {}", join(&secs.iter().map(|s| format!("{}:{}", s.first_id, join(&s.entries.iter().map(show_xref).collect::<Vec<_>>(), "+"))).collect::<Vec<_>>(), ";")),
            }
        });
        st.count(&format!("W-sum={}", match w.iter().sum::<u64>() { 0 => "0", 1..=24 => "1..24", _ => "large" }));
        reqs.push(req);
        imps.push(imp);
    }
    ask(&mut st, driver, reqs, imps, |_, m| m.contains(':'));
    st
}

// ---------------------------------------------------------------------------------------------------
// c14.objstm

fn objstm_stream(driver: &Driver, seed: u64, thorough: bool) -> Stream {
    let mut st = Stream::new("c14.objstm", true);
    let (mut reqs, mut imps) = (vec![], vec![]);
    let toks = ["0", "1", "2", "3", "5", "9", "17", "2147483647", "4294967295", "18446744073709551615", "18446744073709551616", "-1", "x"];
    for case in 0..(if thorough { 40_000 } else { 3_000 }) {
        let mut rng = Rng::derive(seed, "c14.objstm", case);
        let hostile = rng.chance(1, 2);
        let npairs = rng.below(5);
        let mut header = String::new();
        let mut pairs_m = vec![];
        let mut off = 0u64;
        for _ in 0..npairs {
            let (a, b) = if hostile { (rng.pick(&toks).to_string(), rng.pick(&toks).to_string()) } else { let o = off; off += 1 + rng.below(4); ((20 + rng.below(5)).to_string(), o.to_string()) };
            header.push_str(&format!("{} {} ", a, b));
            let val = |t: &str| -> String { match t.parse::<u64>() { Ok(v) => v.to_string(), Err(_) => "x".to_string() } };
            pairs_m.push(format!("{}.{}", val(&a), val(&b)));
        }
        // the header is followed by something that is not a number
        header.push_str("x ");
        let body: Vec<u8> = (0..rng.usize(12)).map(|_| b'7').collect();
        let mut data = header.clone().into_bytes();
        data.extend_from_slice(&body);
        let nv = [0u64, 1, 2, 3, 4, 5, 2147483647];
        let n = if hostile { *rng.pick(&nv) } else { npairs };
        let first = if hostile { *rng.pick(&[0u64, 1, 4, 10, 2147483647]) } else { header.len() as u64 };
        let index = if rng.chance(1, 8) { *rng.pick(&[u64::MAX, 2147483647, 7]) } else { rng.below(npairs + 2) };
        let req = format!("c14.objstm {} {} {} {} {}", first, n, join(&pairs_m, ","), index, data.len());
        let mut bytes = b"%PDF-1.7\n".to_vec();
        let pos = bytes.len();
        bytes.extend_from_slice(b"7 0 obj\n");
        bytes.extend_from_slice(&crate::pdfwrite::stream_body(&format!("/Type /ObjStm /N {} /First {}", n, first), &data));
        bytes.extend_from_slice(b"\nendobj\n");
        let imp = guarded(|| {
            let s = match Storage::with_cache(bytes.clone(), opts(false), NoCache, NoCache, NoLog) { Ok(s) => s, Err(_) => return "open-failed".into() };
            let r = s.resolver();
            let mut lexer = Lexer::with_offset(&bytes[pos..], pos);
            let p = match parse_indirect_object(&mut lexer, &r, None, ParseFlags::ANY) { Ok((_, p)) => p, Err(_) => return "parse-failed".into() };
            let os = match ObjectStream::from_primitive(p, &r) { Ok(o) => o, Err(_) => return "err".into() };
            match os.get_object_slice(index as usize, &r) {
                Err(_) => "err".into(),
                // what Storage::resolve_ref does with the range
                Ok((d, range)) => match d.get(range.clone()) { Some(_) => format!("ok {} {}", range.start, range.end), None => "err".into() },
            }
        });
        st.count(if hostile { "hostile" } else { "honest" });
        reqs.push(req);
        imps.push(imp);
    }
    ask(&mut st, driver, reqs, imps, |_, m| m.starts_with("ok"));
    st
}

// ---------------------------------------------------------------------------------------------------
// c14.diff

fn diff_stream(driver: &Driver, seed: u64, thorough: bool) -> Stream {
    let mut st = Stream::new("c14.diff", true);
    let (mut reqs, mut imps) = (vec![], vec![]);
    let codes = [-2147483648i64, -2, -1, 0, 1, 32, 65, 255, 256, 2147483646, 2147483647];
    for case in 0..(if thorough { 20_000 } else { 2_000 }) {
        let mut rng = Rng::derive(seed, "c14.diff", case);
        let n = rng.below(8);
        let mut parts_m = vec![];
        let mut text = String::new();
        for _ in 0..n {
            match rng.below(10) {
                0..=2 => { let c = *rng.pick(&codes); parts_m.push(format!("c{}", c)); text.push_str(&format!("{} ", c)); }
                3 if rng.chance(1, 5) => { parts_m.push("o".into()); text.push_str("(s) "); }
                _ => { let id = rng.below(6); parts_m.push(format!("n{}", id)); text.push_str(&format!("/n{} ", id)); }
            }
        }
        let req = format!("c14.diff {}", join(&parts_m, ","));
        let src = format!("<< /Type /Encoding /Differences [{}] >>", text);
        let imp = guarded(|| {
            let p = match parse(src.as_bytes(), &NoResolve, ParseFlags::DICT) { Ok(p) => p, Err(_) => return "parse-failed".into() };
            match Encoding::from_primitive(p, &NoResolve) {
                Err(_) => "err".into(),
                Ok(e) => {
                    let mut v: Vec<(u32, String)> = e.differences.iter().map(|(k, v)| (*k, v.to_string())).collect();
                    v.sort();
                    format!("ok {}", join(&v.iter().map(|(k, n)| format!("{}.{}", k, n.trim_start_matches('n'))).collect::<Vec<_>>(), ","))
                }
            }
        });
        reqs.push(req);
        imps.push(imp);
    }
    ask(&mut st, driver, reqs, imps, |rq, _| rq.contains('n'));
    st
}

// ---------------------------------------------------------------------------------------------------
// c14.ps

fn ps_stream(driver: &Driver, seed: u64, thorough: bool) -> Stream {
    let mut st = Stream::new("c14.ps", true);
    let (mut reqs, mut imps) = (vec![], vec![]);
    let ops = ["add", "sub", "mul", "abs", "dup", "exch", "roll", "index", "cvr", "pop"];
    let ints = ["0", "1", "2", "3", "4", "5", "-1", "-2", "-3", "7", "100", "2147483647", "-2147483648", "16777217", "4294967296", "9999999999"];
    let reals = ["0.5", "1.5", "2.25", "-0.75", "3.0", "-2.5"];
    let mut progs: Vec<(String, Vec<i32>, usize)> = vec![];
    // the body cut: every arrangement of braces around a tiny program
    for p in ["{ 1 }", "}{", "} 1 {", "{", "}", "", "{}", "{{ 1 }}", "x { 1 } y", "{ 1 } }", "{ { 1 }"] {
        progs.push((p.to_string(), vec![], 1));
    }
    // every `n j roll` for a stack of 3 and small n, j (and the extremes)
    for n in ["-1", "0", "1", "2", "3", "4", "2147483647"] {
        for j in ["-4", "-3", "-1", "0", "1", "2", "3", "4", "2147483647", "-2147483648"] {
            progs.push((format!("{{ 10 20 30 {} {} roll }}", n, j), vec![], 3));
        }
    }
    for n in ["-1", "0", "1", "2", "3", "2147483647"] {
        progs.push((format!("{{ 10 20 30 {} index }}", n), vec![], 4));
    }
    for case in 0..(if thorough { 60_000 } else { 4_000 }) {
        let mut rng = Rng::derive(seed, "c14.ps", case);
        let len = rng.below(12);
        let mut toks: Vec<String> = vec![];
        for _ in 0..len {
            toks.push(match rng.below(10) {
                0..=3 => rng.pick(&ints).to_string(),
                4 => rng.pick(&reals).to_string(),
                9 if rng.chance(1, 6) => "frob".to_string(),
                _ => rng.pick(&ops).to_string(),
            });
        }
        // a way to infinities and NaN: repeated squaring, inf - inf
        if rng.chance(1, 8) {
            let mut pre: Vec<String> = "2147483647 dup mul dup mul dup mul dup mul".split(' ').map(|s| s.to_string()).collect();
            if rng.chance(1, 2) { pre.extend("dup sub".split(' ').map(|s| s.to_string())); }
            if rng.chance(1, 2) { pre.push("-1".into()); pre.push("mul".into()); }
            pre.extend(toks);
            toks = pre;
        }
        let sep = if rng.chance(1, 5) { "\n" } else { " " };
        let input: Vec<i32> = (0..rng.below(4)).map(|_| rng.range(-3, 9) as i32).collect();
        let out_len = if rng.chance(3, 4) { usize::MAX } else { rng.usize(6) };
        progs.push((format!("{{ {} }}", toks.join(sep)), input, out_len));
    }
    for (prog, input, out_len) in progs {
        // out_len usize::MAX: ask the model first? no: the implementation side learns the stack size by trying 0..=24
        let func = pdf::object::PsFunc::parse(&prog);
        let inp: Vec<f32> = input.iter().map(|i| *i as f32).collect();
        let (imp, used_len) = {
            let res = catch_unwind(AssertUnwindSafe(|| {
                let f = match &func { Ok(f) => f, Err(_) => return ("err".to_string(), 0usize) };
                let lens: Vec<usize> = if out_len == usize::MAX { (0..=40).collect() } else { vec![out_len] };
                let mut last = ("err".to_string(), *lens.last().unwrap());
                for l in lens {
                    let mut out = vec![0f32; l];
                    match f.exec(&inp, &mut out) {
                        Ok(()) => {
                            let s: Vec<String> = out.iter().map(|v| if v.is_nan() { "nan".to_string() } else { v.to_bits().to_string() }).collect();
                            return (format!("ok {}", join(&s, ",")), l);
                        }
                        Err(_) => { last = ("err".to_string(), l); }
                    }
                }
                last
            }));
            res.unwrap_or(("panic".to_string(), if out_len == usize::MAX { 0 } else { out_len }))
        };
        let req = format!("c14.ps {} {} {}", hex(prog.as_bytes()), join(&input.iter().map(|i| i.to_string()).collect::<Vec<_>>(), ","), used_len);
        reqs.push(req);
        imps.push(imp);
    }
    ask(&mut st, driver, reqs, imps, |_, m| m.starts_with("ok"));
    st
}

// ---------------------------------------------------------------------------------------------------

/// deterministic witnesses: one per repaired defect (regression) and per open finding, walked first
pub fn witness_docs() -> Vec<Planted> {
    let mut out = vec![];
    let mut doc = |desc: &str, frag: &'static str, objs: Vec<(u64, Vec<u8>)>, trailer: &str| {
        out.push(Planted { frag, desc: format!("witness:{}", desc), bytes: build_doc(&objs, trailer) });
    };
    let base = |extra_catalog: &str, res: &str| -> Vec<(u64, Vec<u8>)> {
        vec![
            (1, format!("<< /Type /Catalog /Pages 2 0 R {} >>", extra_catalog).into_bytes()),
            (2, b"<< /Type /Pages /Kids [3 0 R] /Count 1 /MediaBox [0 0 10 10] >>".to_vec()),
            (3, format!("<< /Type /Page /Parent 2 0 R /Resources {} >>", res).into_bytes()),
        ]
    };
    // D31: cyclic name tree and cyclic number tree
    let mut o = base("/Names << /Dests 10 0 R >> /PageLabels 11 0 R", "<< >>");
    o.push((10, b"<< /Kids [10 0 R] >>".to_vec()));
    o.push((11, b"<< /Kids [12 0 R] >>".to_vec()));
    o.push((12, b"<< /Kids [11 0 R] >>".to_vec()));
    doc("D31 cyclic name and number trees", "nametree", o, "/Root 1 0 R");
    // D32: an object whose value is a reference to itself, used as /Contents and /Resources
    let mut o = base("", "20 0 R");
    o[2].1 = b"<< /Type /Page /Parent 2 0 R /Resources 20 0 R /Contents 20 0 R >>".to_vec();
    o.push((20, b"20 0 R".to_vec()));
    doc("D32 self-referencing object", "ref-chains", o, "/Root 1 0 R");
    // D36: lying counts
    let mut o = base("", "<< >>");
    o[1].1 = b"<< /Type /Pages /Kids [4 0 R 4 0 R 4 0 R 3 0 R] /Count 2147483647 /MediaBox [0 0 10 10] >>".to_vec();
    o.push((4, b"<< /Type /Pages /Parent 2 0 R /Kids [] /Count 2147483647 >>".to_vec()));
    doc("D36 three kids claiming 2147483647 pages", "pagetree", o, "/Root 1 0 R");
    // D35: function objects
    for (i, f) in ["<< /FunctionType 2 /Domain [] /N 1.0 /C0 [0.0] >>".to_string(),
        String::from_utf8(crate::pdfwrite::stream_body("/FunctionType 4 /Domain [0.0 1.0]", b"{ dup }")).unwrap(),
        String::from_utf8(crate::pdfwrite::stream_body("/FunctionType 4 /Domain [0.0 1.0] /Range [0.0 1.0]", b"}{")).unwrap(),
        String::from_utf8(crate::pdfwrite::stream_body("/FunctionType 4 /Domain [0.0 1.0] /Range [0.0 1.0]", b"{ 1 2 2 5 roll }")).unwrap(),
        String::from_utf8(crate::pdfwrite::stream_body("/FunctionType 4 /Domain [0.0 1.0] /Range [0.0 1.0]", b"{ 5 1 roll }")).unwrap(),
        String::from_utf8(crate::pdfwrite::stream_body("/FunctionType 0 /Domain [0.0 1.0] /Range [0.0 1.0] /Size [0] /BitsPerSample 8", b"\x01\x02")).unwrap(),
        String::from_utf8(crate::pdfwrite::stream_body("/FunctionType 0 /Domain [0.0 1.0] /Range [0.0 1.0] /Size [2] /BitsPerSample 8 /Encode [0.0 1e30]", b"\x01\x02")).unwrap(),
    ].iter().enumerate() {
        let mut o = base("", "<< /ColorSpace << /C0 [/Separation /Spot /DeviceRGB 10 0 R] >> >>");
        o.push((10, f.clone().into_bytes()));
        doc(&format!("D35 function {}", i), "functions", o, "/Root 1 0 R");
    }
    // DeviceN alternate = itself
    let mut o = base("", "<< /ColorSpace << /C0 10 0 R >> >>");
    o.push((10, b"[/DeviceN [/A] 10 0 R << /FunctionType 2 /Domain [0.0 1.0] /N 1.0 >>]".to_vec()));
    doc("DeviceN alternate is itself", "colorspaces", o, "/Root 1 0 R");
    // /Differences [-1 /a]
    let mut o = base("", "<< /Font << /F1 10 0 R >> >>");
    o.push((10, b"<< /Type /Font /Subtype /TrueType /BaseFont /S /Encoding << /Type /Encoding /Differences [-1 /a] >> >>".to_vec()));
    doc("Differences code -1", "encoding-differences", o, "/Root 1 0 R");
    // CCITT /Columns 0
    let mut o = base("", "<< /XObject << /X0 10 0 R >> >>");
    o.push((10, crate::pdfwrite::stream_body("/Type /XObject /Subtype /Image /Width 8 /Height 1 /BitsPerComponent 1 /ImageMask true /Filter /CCITTFaxDecode /DecodeParms << /K -1 /Columns 0 >>", &[0x80, 0, 0x10, 1])));
    doc("CCITT Columns 0", "images", o, "/Root 1 0 R");
    // appearance dictionary that contains itself
    let mut o = base("", "<< >>");
    o[2].1 = b"<< /Type /Page /Parent 2 0 R /Resources << >> /Annots [8 0 R] >>".to_vec();
    o.push((8, b"<< /Type /Annot /Subtype /Widget /Rect [0 0 1 1] /AP << /N 10 0 R >> >>".to_vec()));
    o.push((10, b"<< /On 10 0 R >>".to_vec()));
    doc("appearance dictionary contains itself", "annotations", o, "/Root 1 0 R");
    drop(doc);
    out.push({ let mut p = ladder("fonts", 40); p.desc = format!("witness:{}", p.desc); p });
    out.push({ let mut p = ladder("nametree", 40); p.desc = format!("witness:{}", p.desc); p });
    out.push({ let mut p = deep_chain("parents", 3000); p.desc = format!("witness:{}", p.desc); p });
    out.push({ let mut p = deep_chain("fonts", 3000); p.desc = format!("witness:{}", p.desc); p });
    // D34 and the object-stream offsets need their own layout
    out.push(Planted { frag: "xref-stream", desc: "witness:D34 W [0 0 0] with 2147483647 entries".into(), bytes: xref_stream_doc(["0", "0", "0"], Some("0 2147483647"), "5", [1, 4, 2], 0, None) });
    let spec = ObjStmSpec { n: "2".into(), first: "1".into(), header: "20 0 21 18446744073709551615 ".into(), body: b"11 [22] ".to_vec(), extends: None };
    out.push(Planted { frag: "objstm", desc: "witness:object stream offset 2^64-1".into(), bytes: objstm_doc(&spec, None, &[(20, 10, 0), (21, 10, 1)], None, None) });
    // a key length that asks for a quarter of a gigabyte (memory in proportion to the file)
    {
        use super::numeric::{crypt_bases, crypt_base_fields, crypt_document};
        let b = &crypt_bases()[2];
        let mut c = crypt_base_fields(b);
        c.fields.bits = Some(2147483640);
        let mut p = crypt_document(&c, "witness:/Length 2147483640 (268 MB key buffer)".into(), PLAIN);
        p.frag = "crypt-guards";
        out.push(p);
    }
    // /Prev loops behind junk: the guard must compare in one coordinate system
    for (px, stream) in [(13usize, false), (SECTION_SPACING, true), (1, false)] {
        out.push(Planted { frag: "prev", desc: format!("witness:/Prev ring of three behind {} junk bytes stream={}", px, stream),
            bytes: prev_doc_at(px, &[Pv::Sec(1), Pv::Sec(2), Pv::Sec(0)], stream, &Pv::Sec(0)).bytes });
        out.push(Planted { frag: "prev", desc: format!("witness:/Prev self loop behind {} junk bytes stream={}", px, stream),
            bytes: prev_doc_at(px, &[Pv::Sec(0)], stream, &Pv::Sec(0)).bytes });
    }
    // open findings owned by other packages
    let pick = |f: Frag, choice: Vec<usize>, desc: &str| -> Planted {
        let mut p = f.instantiate(&choice);
        p.desc = format!("witness:{}", desc);
        p
    };
    out.push(pick(font_widths(), vec![6], "regression D33 W [1 -1 800.0]"));
    out.push(pick(font_widths(), vec![1], "regression D33 W [1 []]"));
    // crypt: /Length 0 is option index of "0" in the slot of /Length
    let c = crypt();
    let zero = c.slots[2].options.iter().position(|o| o == "0").unwrap();
    let mut ch = c.defaults();
    ch[2] = zero;
    out.push(pick(c, ch, "regression D18 key length 0"));
    out.push(pick(runlength(), vec![], "regression D13 truncated run"));
    let p = predictor();
    let neg = p.slots[1].options.iter().position(|o| o == "-1").unwrap();
    let mut ch = p.defaults();
    ch[1] = neg;
    out.push(pick(p, ch, "regression D14 predictor Colors -1"));
    out
}

type StreamFn = fn(&Driver, u64, bool) -> Stream;

const STREAMS: [(&str, StreamFn); 12] = [
    ("c14.load.fonts", load_fonts),
    ("c14.load.pages", load_pages),
    ("c14.resolve", resolve_stream),
    ("c14.walk", walk_stream),
    ("c14.page", page_stream),
    ("c14.cs", cs_stream),
    ("c14.ap", ap_stream),
    ("c14.prev", prev_stream),
    ("c14.xref", xref_stream),
    ("c14.objstm", objstm_stream),
    ("c14.diff", diff_stream),
    ("c14.ps", ps_stream),
];

pub fn streams(driver: &Driver, seed: u64, thorough: bool) -> Vec<Stream> {
    STREAMS.iter().map(|(_, f)| f(driver, seed, thorough)).collect()
}

/// replay of a correspondence disagreement: the stream is generated again (same seed: `VERIF_SEED`) and
/// the case with the stored request is compared again on the current tree; if the request is not
/// generated under this seed, the stored implementation answer is compared with the model's.
pub fn replay(driver: &Driver, seed: u64, thorough: bool, r: &serde_json::Value) -> Option<Stream> {
    let d = r.get("disagreement")?;
    let name = d["stream"].as_str()?.to_string();
    let req = d["request"].as_str()?.to_string();
    let f = STREAMS.iter().find(|(n, _)| *n == name)?.1;
    let full = f(driver, seed, thorough);
    let mut st = Stream::new(&name, true);
    // `full` keeps at most 20 disagreements: if the case still disagrees it is among them or the stream is broken anyway
    if let Some(x) = full.disagreements.iter().find(|x| x["request"] == req.as_str()) {
        st.case(&req, x["model"].as_str().unwrap_or(""), x["impl"].as_str().unwrap_or(""), true);
        return Some(st);
    }
    if !full.disagreements.is_empty() {
        let x = &full.disagreements[0];
        st.case(x["request"].as_str().unwrap_or(""), x["model"].as_str().unwrap_or(""), x["impl"].as_str().unwrap_or(""), true);
        return Some(st);
    }
    // the stream agrees everywhere on this tree
    let resp = driver.ask(&[req.clone()]);
    st.case(&req, &resp[0], &resp[0], true);
    st.count("stream regenerated: no disagreement on this tree");
    Some(st)
}
