//! The encrypted fixtures of /repo/files against the harness' own implementation of the standard.
//! For every file: the passwords the standard accepts / rejects must be the ones the library accepts /
//! rejects; every stream read through the library must equal the independent decryption of the bytes
//! found in the file by a minimal scanner; within a family (same source document, five encryption
//! variants) the plaintext must be the same.

use super::std_sec::*;
use crate::driver::hex;
use crate::report::*;
use crate::util::*;
use pdf::file::{NoCache, NoLog, Storage};
use pdf::object::{ParseOptions, PlainRef, Resolve};
use pdf::primitive::{Dictionary, Primitive};
use serde_json::json;
use std::collections::BTreeMap;
use std::panic::{catch_unwind, AssertUnwindSafe};

fn find(hay: &[u8], needle: &[u8], from: usize) -> Option<usize> {
    if needle.is_empty() || hay.len() < needle.len() { return None; }
    (from..=hay.len() - needle.len()).find(|&i| &hay[i..i + needle.len()] == needle)
}

/// raw bytes of the stream of object `id` (generation 0) as stored in the file
fn raw_stream(bytes: &[u8], id: u64, len: usize) -> Option<Vec<u8>> {
    let head = format!("{} 0 obj", id).into_bytes();
    let mut from = 0;
    loop {
        let p = find(bytes, &head, from)?;
        let at_line_start = p == 0 || bytes[p - 1] == b'\n' || bytes[p - 1] == b'\r';
        if at_line_start {
            let s = find(bytes, b"stream", p)?;
            let mut q = s + 6;
            if bytes.get(q) == Some(&b'\r') { q += 1; }
            if bytes.get(q) == Some(&b'\n') { q += 1; }
            return bytes.get(q..q + len).map(|x| x.to_vec());
        }
        from = p + 1;
    }
}

struct Enc {
    params: Params,
    o: Vec<u8>,
    u: Vec<u8>,
    oe: Vec<u8>,
    ue: Vec<u8>,
    encrypt_id: Option<PlainRef>,
}

fn str_of(d: &Dictionary, k: &str) -> Vec<u8> {
    d.get(k).and_then(|p| p.as_string().ok()).map(|s| s.as_bytes().to_vec()).unwrap_or_default()
}

fn int_of(d: &Dictionary, k: &str) -> Option<i32> {
    d.get(k).and_then(|p| p.as_integer().ok())
}

/// the encryption parameters, read with a storage that has *no* decoder (so nothing is decrypted)
fn read_enc(bytes: &[u8]) -> Result<(Enc, u64), String> {
    let storage = Storage::with_cache(bytes.to_vec(), ParseOptions::strict(), NoCache, NoCache, NoLog).map_err(|e| format!("{}", e))?;
    let resolver = storage.resolver();
    let (_, trailer) = {
        use pdf::backend::Backend;
        let start = bytes.to_vec().locate_start_offset().map_err(|e| format!("{}", e))?;
        bytes.to_vec().read_xref_table_and_trailer(start, &resolver).map_err(|e| format!("{}", e))?
    };
    let size = int_of(&trailer, "Size").unwrap_or(0) as u64;
    let id0 = trailer.get("ID").and_then(|p| p.as_array().ok()).and_then(|a| a.get(0)).and_then(|p| p.as_string().ok()).map(|s| s.as_bytes().to_vec()).unwrap_or_default();
    let enc_prim = trailer.get("Encrypt").ok_or("no /Encrypt")?.clone();
    let encrypt_id = if let Primitive::Reference(r) = enc_prim { Some(r) } else { None };
    // the dictionary text is in the clear: take it from the file through the library's plain parser
    let d: Dictionary = match enc_prim {
        Primitive::Dictionary(d) => d,
        Primitive::Reference(r) => {
            let head = format!("{} {} obj", r.id, r.gen).into_bytes();
            let p = find(bytes, &head, 0).ok_or("encrypt object not found")? + head.len();
            pdf::parser::parse(&bytes[p..], &pdf::object::NoResolve, pdf::parser::ParseFlags::DICT).map_err(|e| format!("{}", e))?.into_dictionary().map_err(|e| format!("{}", e))?
        }
        _ => return Err("unexpected /Encrypt".into()),
    };
    let v = int_of(&d, "V").unwrap_or(0);
    let r = int_of(&d, "R").unwrap_or(0) as u32;
    let bits = int_of(&d, "Length").unwrap_or(40) as usize;
    let cfm = d.get("CF").and_then(|p| p.clone().into_dictionary().ok()).and_then(|cf| cf.get("StdCF").cloned()).and_then(|p| p.into_dictionary().ok()).and_then(|f| f.get("CFM").and_then(|n| n.as_name().ok().map(|s| s.to_string())));
    let (cipher, n) = match (v, cfm.as_deref()) {
        (1, _) => (Cipher::Rc4, 5),
        (2, _) => (Cipher::Rc4, bits / 8),
        (4, Some("AESV2")) => (Cipher::Aes128, 16),
        (4, _) => (Cipher::Rc4, bits / 8),
        (5, _) => (Cipher::Aes256, 32),
        _ => return Err(format!("unsupported V {}", v)),
    };
    let em = d.get("EncryptMetadata").and_then(|p| p.as_bool().ok()).unwrap_or(true);
    let params = Params { r, n, cipher, p: int_of(&d, "P").unwrap_or(0), id0, encrypt_metadata: em };
    Ok((Enc { params, o: str_of(&d, "O"), u: str_of(&d, "U"), oe: str_of(&d, "OE"), ue: str_of(&d, "UE"), encrypt_id }, size))
}

pub fn fixtures_oracle() -> Oracle {
    let mut or = Oracle::new("c06.fixtures");
    let root = format!("{}/files", repo_root());
    let fams: [(&str, &str, Vec<(&str, bool)>); 2] = [
        ("encrypted", "", vec![("", true), ("x", false)]),
        ("password_protected/passwords", "password_protected/", vec![("userpassword", true), ("ownerpassword", true), ("", false), ("userpasswor", false), ("Ownerpassword", false)]),
    ];
    for (prefix, _, pws) in fams.iter() {
        let mut plain_by_variant: BTreeMap<String, BTreeMap<u64, Vec<u8>>> = BTreeMap::new();
        for variant in ["rc4_rev2", "rc4_rev3", "aes_128", "aes_256", "aes_256_hardened"] {
            let path = format!("{}/{}_{}.pdf", root, prefix, variant);
            let bytes = match std::fs::read(&path) {
                Ok(b) => b,
                Err(_) => { or.count("missing-file"); continue; }
            };
            let replay = |pw: &str| json!({"oracle": "c06.fixtures", "file": path, "password": pw});
            let (enc, size) = match read_enc(&bytes) {
                Ok(x) => x,
                Err(e) => { or.fail("fixture-unreadable", &format!("{}: {}", path, e), replay("")); continue; }
            };
            for (pw, should_open) in pws {
                or.case(&format!("{}#{}", path, pw), true, || json!({"file": path, "password": pw}));
                or.count(&format!("R{}", enc.params.r));
                let std_says = authenticate(&mut Rec::off(), &enc.params, &enc.o, &enc.u, &enc.oe, &enc.ue, pw.as_bytes());
                if matches!(std_says, Auth::Key(_)) != *should_open {
                    or.fail("fixture-oracle-disagrees", &format!("{}: the harness' own reader {} password {:?}", path, if *should_open { "rejects the known" } else { "accepts the wrong" }, pw), replay(pw));
                    continue;
                }
                let b2 = bytes.clone();
                let res = catch_unwind(AssertUnwindSafe(|| -> Result<BTreeMap<u64, (Vec<u8>, usize)>, String> {
                    let mut storage = Storage::with_cache(b2, ParseOptions::strict(), NoCache, NoCache, NoLog).map_err(|e| format!("with_cache: {}", e))?;
                    storage.load_storage_and_trailer_password(pw.as_bytes()).map_err(|e| if err_class(&e) == "BADPW" { "BADPW".to_string() } else { format!("load: {}", e) })?;
                    let resolver = storage.resolver();
                    let mut out = BTreeMap::new();
                    for id in 1..size {
                        if let Ok(Primitive::Stream(s)) = resolver.resolve(PlainRef { id, gen: 0 }) {
                            let len = match s.info.get("Length") {
                                Some(Primitive::Integer(n)) => *n as usize,
                                Some(Primitive::Reference(r)) => resolver.resolve(*r).ok().and_then(|p| p.as_integer().ok()).unwrap_or(0) as usize,
                                _ => 0,
                            };
                            let raw = s.raw_data(&resolver).map_err(|e| format!("raw_data of {}: {}", id, e))?;
                            out.insert(id, (raw.to_vec(), len));
                        }
                    }
                    Ok(out)
                }));
                match (res, should_open, &std_says) {
                    (Err(_), _, _) => or.fail("panic:fixture", &format!("{}: panic with password {:?}", path, pw), replay(pw)),
                    (Ok(Err(e)), false, _) if e == "BADPW" => {}
                    (Ok(Err(e)), false, _) => or.fail("wrong-password-other-error:fixture", &format!("{}: wrong password {:?}: {}", path, pw, e), replay(pw)),
                    (Ok(Ok(_)), false, _) => or.fail("wrong-password-accepted:fixture", &format!("{}: wrong password {:?} accepted", path, pw), replay(pw)),
                    (Ok(Err(e)), true, _) => or.fail(&format!("load-failed:fixture-R{}", enc.params.r), &format!("{}: password {:?}: {}", path, pw, e), replay(pw)),
                    (Ok(Ok(streams)), true, Auth::Key(k)) => {
                        let mut plains = BTreeMap::new();
                        for (id, (got, len)) in streams.iter() {
                            if Some(PlainRef { id: *id, gen: 0 }) == enc.encrypt_id { continue; }
                            let stored = match raw_stream(&bytes, *id, *len) {
                                Some(s) => s,
                                None => { or.fail("fixture-scan", &format!("{}: stream {} not found by the scanner", path, id), replay(pw)); continue; }
                            };
                            let want = decrypt_object(&mut Rec::off(), enc.params.cipher, k, *id, 0, &stored);
                            match want {
                                Some(w) if &w == got => { plains.insert(*id, w); }
                                Some(w) => or.fail(&format!("plaintext-mismatch:stream:fixture-R{}", enc.params.r), &format!("{}: stream {} expected {} got {}", path, id, super::short(&w), super::short(got)), replay(pw)),
                                None => or.fail("fixture-oracle-disagrees", &format!("{}: stream {} is not a valid encryption for the harness' reader", path, id), replay(pw)),
                            }
                        }
                        if plains.values().all(|p| find(p, b"BT", 0).is_none()) {
                            or.fail("fixture-no-text", &format!("{}: no decrypted stream looks like a content stream", path), replay(pw));
                        }
                        plain_by_variant.insert(variant.to_string(), plains);
                    }
                    (Ok(Ok(_)), true, Auth::Wrong) => unreachable!(),
                }
            }
        }
        // same source document in every variant
        let mut it = plain_by_variant.iter();
        if let Some((v0, p0)) = it.next() {
            for (v, p) in it {
                if p != p0 {
                    or.fail("fixture-variants-differ", &format!("{}: plaintext of variant {} differs from variant {}", prefix, v, v0), json!({"oracle": "c06.fixtures", "family": prefix, "a": v0, "b": v, "hex_a": p0.values().map(|x| hex(x)).collect::<Vec<_>>(), "hex_b": p.values().map(|x| hex(x)).collect::<Vec<_>>()}));
                }
            }
        }
        or.count(&format!("variants-compared={}", plain_by_variant.len()));
    }
    or
}
