//! Which public *read* entry points of the crate the C01 walker does not reach.
//!
//! The list of entry points is derived from the source on every run (`syn`): every `pub fn` in an inherent `impl`
//! block of the read-side types below (and the methods of the `Resolve` trait), minus constructors, writers and
//! builders. The walker names what it calls with labels (`font.widths`, `get<Catalog>`, …); `LABELS` maps a label to
//! the `Type::function` it stands for. The evidence (`extra.public_read_api`) lists what is reached and what is not,
//! so the gap between "walked" and "exists" is visible.

use std::collections::{BTreeMap, BTreeSet};

/// files whose inherent impls hold the read interface
const FILES: &[&str] = &["file.rs", "object/types.rs", "object/stream.rs", "object/color.rs", "object/function.rs", "object/mod.rs",
    "font.rs", "content.rs", "encoding.rs", "primitive.rs", "xref.rs", "backend.rs", "crypt.rs", "enc.rs", "parser/mod.rs", "parser/parse_object.rs", "parser/parse_xref.rs"];

/// types that make up the public read interface (what a reader of a document touches)
const TYPES: &[&str] = &["File", "Storage", "StorageResolver", "Catalog", "PagesNode", "PageTree", "Page", "PagesRc", "PageRc", "Resources", "Font", "Widths", "ToUnicodeMap",
    "Content", "FormXObject", "ImageXObject", "XObject", "PostScriptXObject", "Stream", "PdfStream", "ObjectStream", "NameTree", "NumberTree", "Function", "ColorSpace", "Encoding",
    "Lazy", "MaybeRef", "RcRef", "Primitive", "Dictionary", "PdfString", "Name", "Annot", "Outlines", "OutlineItem", "StructTreeRoot", "InfoDict", "XRefTable", "Decoder", "CryptDict", "Trailer", "Dest"];

/// not part of reading a document: construction, writing, updating, conversion into owned parts
fn is_write_side(f: &str) -> bool {
    const EXACT: &[&str] = &["new", "default", "empty", "set", "pop", "append", "log", "array", "name", "from_ops", "from_compressed", "new_with_filters", "new_with_id", "hexencode"];
    const PARTS: &[&str] = &["write", "serialize", "update", "create", "save", "promise", "fulfill", "insert", "remove", "push", "set_", "build", "encode", "to_primitive", "to_dict",
        "to_pdf_stream", "into_", "_mut", "with_cache", "add_", "clone_", "deep_clone", "log_", "invalidate"];
    EXACT.contains(&f) || PARTS.iter().any(|p| f.contains(p))
}

/// walker label → the entry points it stands for
const LABELS: &[(&str, &[&str])] = &[
    ("file.load", &["File::load", "File::open", "File::load_password", "File::open_password"]), ("file.get_page", &["File::get_page", "File::num_pages", "File::pages", "File::get_root"]),
    ("file.version", &["File::version"]), ("storage.with_cache", &["Storage::with_cache"]), ("storage.load_storage_and_trailer", &["Storage::load_storage_and_trailer", "Storage::load_storage_and_trailer_password"]),
    ("storage.version", &["Storage::version"]), ("resolve", &["Storage::resolve_ref", "Storage::resolver", "File::resolver"]), ("scan.item", &["File::scan", "Storage::scan"]),
    ("font.widths", &["Font::widths"]), ("font.to_unicode", &["Font::to_unicode"]), ("font.embedded_data", &["Font::embedded_data"]),
    ("content.operations", &["Content::operations"]), ("form.operations", &["FormXObject::operations"]), ("function.apply", &["Function::apply", "Function::input_dim", "Function::output_dim"]),
    ("image.image_data", &["ImageXObject::image_data"]), ("image.raw_image_data", &["ImageXObject::raw_image_data"]), ("nametree.walk", &["NameTree::walk"]),
    ("numbertree.walk", &["NumberTree::walk"]), ("objstm.get_object_slice", &["ObjectStream::get_object_slice", "ObjectStream::n_objects"]), ("page.media_box", &["Page::media_box"]),
    ("page.crop_box", &["Page::crop_box"]), ("page.resources", &["Page::resources"]), ("pagetree.page", &["PageTree::page", "PagesRc::page", "PageTree::page_limited"]),
    ("pdfstream.raw_data", &["PdfStream::raw_data"]), ("stream.data", &["Stream::data", "Stream::len"]), ("lazy<Font>.load", &["Lazy::load"]), ("page.annotations.load", &["Lazy::load"]),
    ("inline_image.data", &["Stream::data"]),
];

pub fn public_read_api(repo: &str) -> (Vec<String>, Vec<String>) {
    let mut out: BTreeSet<String> = BTreeSet::new();
    let mut problems = vec![];
    for f in FILES {
        let path = format!("{}/pdf/src/{}", repo, f);
        let text = match std::fs::read_to_string(&path) { Ok(t) => t, Err(e) => { problems.push(format!("{}: {}", path, e)); continue; } };
        let file = match syn::parse_file(&text) { Ok(x) => x, Err(e) => { problems.push(format!("{}: {}", path, e)); continue; } };
        for it in &file.items {
            match it {
                syn::Item::Impl(im) if im.trait_.is_none() => {
                    let ty = match &*im.self_ty { syn::Type::Path(p) => p.path.segments.last().map(|s| s.ident.to_string()).unwrap_or_default(), _ => String::new() };
                    if !TYPES.contains(&ty.as_str()) { continue; }
                    for ii in &im.items {
                        if let syn::ImplItem::Fn(m) = ii {
                            if matches!(m.vis, syn::Visibility::Public(_)) {
                                let name = m.sig.ident.to_string();
                                if !is_write_side(&name) { out.insert(format!("{}::{}", ty, name)); }
                            }
                        }
                    }
                }
                syn::Item::Trait(t) if t.ident == "Resolve" => {
                    for ti in &t.items { if let syn::TraitItem::Fn(m) = ti { out.insert(format!("Resolve::{}", m.sig.ident)); } }
                }
                _ => {}
            }
        }
    }
    (out.into_iter().collect(), problems)
}

/// `(reached, not reached)` given the labels the walker reported
pub fn coverage(api: &[String], labels: &BTreeSet<String>) -> (Vec<String>, Vec<String>) {
    let mut reached: BTreeSet<String> = BTreeSet::new();
    let map: BTreeMap<&str, &[&str]> = LABELS.iter().cloned().collect();
    for l in labels {
        let base = l.rsplit_once(':').map(|x| x.0).unwrap_or(l);
        if let Some(fs) = map.get(base) { for f in *fs { reached.insert(f.to_string()); } }
        if base.starts_with("get<") { reached.insert("Resolve::get".into()); reached.insert("Resolve::resolve".into()); reached.insert("Resolve::resolve_flags".into()); }
        if base == "resolve" { reached.insert("Resolve::resolve".into()); reached.insert("Resolve::resolve_flags".into()); reached.insert("Resolve::options".into()); }
        if base.starts_with("stream.") || base.starts_with("pdfstream.") { reached.insert("Resolve::stream_data".into()); reached.insert("Resolve::get_data_or_decode".into()); }
        if base.starts_with("scan.") { reached.insert("File::scan".into()); reached.insert("Storage::scan".into()); }
    }
    let r: Vec<String> = api.iter().filter(|f| reached.contains(*f)).cloned().collect();
    let n: Vec<String> = api.iter().filter(|f| !reached.contains(*f)).cloned().collect();
    (r, n)
}
