//! The behavioural half of the translator (`pdfverif extract`): facts that are observable through the compiled
//! crate are *observed* — the source text is only the fallback and the cross-check (`extract::finalize`). A rewrite
//! of the modelled code that does not change its behaviour therefore leaves the generated Lean tables untouched.
//!
//!   byte classes      white space / delimiters: `Lexer::next` on `a?b\nc`; the skipped bytes of the two ASCII decoders:
//!                     `decode_hex` / `decode_85` on valid input with the byte inserted; the bytes a name is written
//!                     with as they are: `Primitive::Name(..).serialize` of every one-character name
//!   header search     the marker: the shortest prefix of `%PDF-1.7` that `locate_start_offset` finds; the window: the
//!                     largest offset at which it is still found, plus the marker's length
//!   budgets           the largest n for which a planted structure of size n is still accepted (exponential, then
//!                     binary search; monotone by construction of the structures): nesting of arrays (parser), /Size,
//!                     page-tree levels, number-tree levels, nested Indexed colour spaces, nested appearance
//!                     dictionaries, fonts loading their descendant (nested typed loads, through a real file), the
//!                     first code of a /W group; the reference-chain budget is the `depth` a recording resolver
//!                     receives from `Resolve::resolve`
//!   Option reader     `Option::<T>::from_primitive` with a resolver that fails with each error kind, bare and
//!                     wrapped, under each single option flag: which come back as `None`
//!   dispatch tables   per value enum and tag: the variant the reader builds from a minimal input carrying the tag
//!                     (`Debug` name), and the tags found in what the writer makes of that value

use super::support::*;
use super::{sweep_inputs, SweepCase, SweepInput};
use crate::extract::{Arm, Dispatch, Extracted, OptionReader, Probed};
use crate::rng::Rng;
use pdf::error::PdfError;
use pdf::object::*;
use pdf::parser::{Lexer, ParseFlags};
use pdf::primitive::{Dictionary, Primitive};
use std::collections::{BTreeMap, BTreeSet, HashMap};

/// tags of the hand-written dispatch as of this harness: candidates for the probes in addition to the tags the
/// source patterns show (a rewrite may hide those from the syntactic scan)
pub const KNOWN_TAGS: &[(&str, &[&str])] = &[
    ("Action", &["GoTo"]),
    ("CidToGidMap", &["Identity"]),
    ("ColorSpace", &["DeviceGray", "DeviceRGB", "DeviceCMYK", "Pattern", "Indexed", "Separation", "ICCBased", "DeviceN", "CalGray", "CalRGB", "CalCMYK"]),
    ("DestView", &["XYZ", "Fit", "FitH", "FitV", "FitR", "FitB", "FitBH"]),
    ("FontData", &["Type0", "Type1", "TrueType", "CIDFontType0", "CIDFontType2"]),
    ("PagesNode", &["Page", "Pages"]),
    ("StreamFilter", &["ASCIIHexDecode", "ASCII85Decode", "LZWDecode", "FlateDecode", "JPXDecode", "DCTDecode", "CCITTFaxDecode", "JBIG2Decode", "Crypt", "RunLengthDecode"]),
    ("TimeRel", &["-", "+", "Z"]),
    ("XObject", &["PS", "Image", "Form"]),
];

fn guarded<T>(f: impl FnOnce() -> T) -> Option<T> {
    let prev = std::panic::take_hook();
    std::panic::set_hook(Box::new(|_| {}));
    let r = std::panic::catch_unwind(std::panic::AssertUnwindSafe(f)).ok();
    std::panic::set_hook(prev);
    r
}

/// largest n in `from..=cap` with `ok(n)`, for a predicate that holds up to some bound and fails beyond it
fn largest_ok(from: u64, cap: u64, mut ok: impl FnMut(u64) -> bool) -> Result<u64, String> {
    if !ok(from) {
        return Err(format!("the structure of size {} is refused already", from));
    }
    let (mut lo, mut hi) = (from, from);
    loop {
        hi = (hi * 2).max(from + 1);
        if hi > cap {
            return Err(format!("no bound observed up to {}", cap));
        }
        if !ok(hi) {
            break;
        }
        lo = hi;
    }
    // ok(lo), !ok(hi)
    while hi - lo > 1 {
        let mid = lo + (hi - lo) / 2;
        if ok(mid) {
            lo = mid;
        } else {
            hi = mid;
        }
    }
    if ok(lo) && !ok(lo + 1) {
        Ok(lo)
    } else {
        Err("acceptance is not monotone in the size".into())
    }
}

// ---------------------------------------------------------------------------------------------------
// byte classes

fn lexer_classes() -> Result<(Vec<u8>, Vec<u8>), String> {
    let (mut ws, mut delim) = (vec![], vec![]);
    for b in 0..=255u8 {
        // the line end terminates a comment, should `b` start one
        let buf = [b'a', b, b'b', b'\n', b'c'];
        let mut lx = Lexer::new(&buf);
        let t1 = lx.next().map(|s| s.to_vec());
        match t1 {
            Ok(t) if t == b"a" => {
                let t2 = lx.next().map(|s| s.to_vec());
                if matches!(&t2, Ok(t) if t == b"b") {
                    ws.push(b);
                } else {
                    delim.push(b);
                }
            }
            Ok(t) if t == buf[..3] => {}
            other => return Err(format!("lexing `a\\x{:02x}b` gives {:?}", b, other.map(|t| String::from_utf8_lossy(&t).to_string()).map_err(|e| e.to_string()))),
        }
    }
    Ok((ws, delim))
}

fn hex_ws() -> Vec<u8> {
    (0..=255u8).filter(|b| matches!(pdf::enc::decode_hex(&[b'4', *b, b'1', b'>']), Ok(v) if v == [0x41])).collect()
}

fn a85_ws() -> Result<Vec<u8>, String> {
    let enc = pdf::enc::encode(b"abcd", &pdf::enc::StreamFilter::ASCII85Decode).map_err(|e| e.to_string())?;
    if !matches!(pdf::enc::decode_85(&enc), Ok(v) if v == b"abcd") {
        return Err("decode_85(encode(abcd)) is not abcd".into());
    }
    Ok((0..=255u8)
        .filter(|b| {
            let mut d = enc.clone();
            d.insert(2, *b);
            matches!(pdf::enc::decode_85(&d), Ok(v) if v == b"abcd")
        })
        .collect())
}

/// (lo, hi, except): the bytes a name is written with as they are
fn name_verbatim() -> Result<(u64, u64, Vec<u8>), String> {
    let mut verbatim: BTreeSet<u8> = BTreeSet::new();
    for c in 1..=255u32 {
        let ch = char::from_u32(c).unwrap();
        let s: String = std::iter::once(ch).collect();
        let mut out = vec![];
        Primitive::Name(s.as_str().into()).serialize(&mut out).map_err(|e| e.to_string())?;
        if out.first() != Some(&b'/') {
            return Err(format!("a name is not written with a leading `/`: {:?}", String::from_utf8_lossy(&out)));
        }
        let body = &out[1..];
        let raw = s.as_bytes();
        if body == raw {
            verbatim.extend(raw.iter().copied());
        } else if body.len() != 3 * raw.len() || !body.chunks(3).zip(raw).all(|(e, b)| e[0] == b'#' && u8::from_str_radix(&String::from_utf8_lossy(&e[1..]), 16) == Ok(*b)) {
            return Err(format!("name {:?} is written neither as itself nor as #xx per byte: {:?}", s, String::from_utf8_lossy(body)));
        }
    }
    let (Some(lo), Some(hi)) = (verbatim.iter().next().copied(), verbatim.iter().next_back().copied()) else {
        return Err("no byte is written as itself".into());
    };
    Ok((lo as u64, hi as u64, (lo..=hi).filter(|b| !verbatim.contains(b)).collect()))
}

// ---------------------------------------------------------------------------------------------------
// header search

fn header() -> Result<(Vec<u8>, u64), String> {
    use pdf::backend::Backend;
    let full = b"%PDF-1.7";
    let mut marker: Option<Vec<u8>> = None;
    for l in 1..=full.len() {
        let mut data = b"xx".to_vec();
        data.extend_from_slice(&full[..l]);
        data.extend_from_slice(b"qq");
        if matches!(data.locate_start_offset(), Ok(2)) {
            marker = Some(full[..l].to_vec());
            break;
        }
    }
    let marker = marker.ok_or("no prefix of `%PDF-1.7` is located")?;
    // every byte of it matters
    for i in 0..marker.len() {
        let mut data = b"xx".to_vec();
        data.extend_from_slice(&marker);
        data[2 + i] ^= 1;
        data.extend_from_slice(b"qq");
        if data.locate_start_offset().is_ok() {
            return Err(format!("the marker is found with byte {} altered", i));
        }
    }
    let found_at = |off: u64| {
        let mut data = vec![b'x'; off as usize];
        data.extend_from_slice(&marker);
        data.extend_from_slice(b"1.7\nrest of the file");
        matches!(data.locate_start_offset(), Ok(o) if o as u64 == off)
    };
    let max_off = largest_ok(0, 1 << 22, found_at)?;
    Ok((marker.clone(), max_off + marker.len() as u64))
}

// ---------------------------------------------------------------------------------------------------
// budgets

fn parser_depth() -> Result<u64, String> {
    largest_ok(1, 512, |n| {
        let mut d = vec![b'['; n as usize];
        d.extend(std::iter::repeat(b']').take(n as usize));
        guarded(|| pdf::parser::parse(&d, &NoResolve, ParseFlags::ANY).is_ok()).unwrap_or(false)
    })
}

fn max_size() -> Result<u64, String> {
    use crate::pdfwrite::*;
    use pdf::backend::Backend;
    largest_ok(4, 1 << 21, |n| {
        let mut w = PdfWriter::new(b"", "1.7");
        w.free(0, 0, 65535);
        w.object(1, 0, b"<< /Type /Catalog /Pages 2 0 R >>");
        w.object(2, 0, b"<< /Type /Pages /Kids [] /Count 0 >>");
        w.finish(XrefFormat::Classic, n, "/Root 1 0 R", &[], 3);
        let bytes = w.out.clone();
        guarded(|| bytes.read_xref_table_and_trailer(0, &NoResolve).is_ok()).unwrap_or(false)
    })
}

struct RecordingResolver {
    depth: std::cell::Cell<Option<usize>>,
    opts: ParseOptions,
}
impl Resolve for RecordingResolver {
    fn resolve_flags(&self, _r: PlainRef, _flags: ParseFlags, depth: usize) -> pdf::error::Result<Primitive> {
        self.depth.set(Some(depth));
        Ok(Primitive::Null)
    }
    fn get<T: Object + datasize::DataSize>(&self, _r: Ref<T>) -> pdf::error::Result<RcRef<T>> {
        Err(PdfError::Reference)
    }
    fn options(&self) -> &ParseOptions {
        &self.opts
    }
    fn stream_data(&self, _id: PlainRef, _range: std::ops::Range<usize>) -> pdf::error::Result<std::sync::Arc<[u8]>> {
        Err(PdfError::Reference)
    }
    fn get_data_or_decode(&self, _id: PlainRef, _range: std::ops::Range<usize>, _filters: &[pdf::enc::StreamFilter]) -> pdf::error::Result<std::sync::Arc<[u8]>> {
        Err(PdfError::Reference)
    }
}

fn resolve_depth() -> Result<u64, String> {
    let r = RecordingResolver { depth: std::cell::Cell::new(None), opts: ParseOptions::strict() };
    let _ = r.resolve(PlainRef { id: 7, gen: 0 });
    r.depth.get().map(|d| d as u64).ok_or_else(|| "`Resolve::resolve` does not call `resolve_flags`".to_string())
}

fn dict(entries: &[(&str, Primitive)]) -> Primitive {
    let mut d = Dictionary::new();
    for (k, v) in entries {
        d.insert(*k, v.clone());
    }
    Primitive::Dictionary(d)
}
fn rf(id: u64) -> Primitive {
    Primitive::Reference(PlainRef { id, gen: 0 })
}

fn page_tree_depth() -> Result<u64, String> {
    largest_ok(1, 256, |n| {
        // n nested /Pages nodes 100 .. 100+n-1, then the page
        let mut objs = HashMap::new();
        for i in 0..n {
            let mut e = vec![("Type", name_prim("Pages")), ("Kids", Primitive::Array(vec![rf(100 + i + 1)])), ("Count", Primitive::Integer(1))];
            if i > 0 {
                e.push(("Parent", rf(100 + i - 1)));
            }
            objs.insert(100 + i, dict(&e));
        }
        objs.insert(100 + n, dict(&[("Type", name_prim("Page")), ("Parent", rf(100 + n - 1))]));
        let root = objs[&100].clone();
        let mem = MemResolver::new(objs, HashMap::new(), false);
        guarded(|| match PageTree::from_primitive(root, &mem) {
            Ok(t) => t.page(&mem, 0).is_ok(),
            Err(_) => false,
        })
        .unwrap_or(false)
    })
}

fn tree_depth() -> Result<u64, String> {
    largest_ok(1, 1024, |n| {
        // n intermediate nodes 200 .. 200+n-1 (each the only kid of the one before), then a leaf
        let mut objs = HashMap::new();
        for i in 0..n {
            objs.insert(200 + i, dict(&[("Kids", Primitive::Array(vec![rf(200 + i + 1)]))]));
        }
        objs.insert(200 + n, dict(&[("Nums", Primitive::Array(vec![Primitive::Integer(0), Primitive::Integer(1)]))]));
        let root = objs[&200].clone();
        let mem = MemResolver::new(objs, HashMap::new(), false);
        guarded(|| match NumberTree::<i32>::from_primitive(root, &mem) {
            Ok(t) => {
                let mut seen = 0;
                t.walk(&mem, &mut |_, _| seen += 1).is_ok() && seen == 1
            }
            Err(_) => false,
        })
        .unwrap_or(false)
    })
}

fn color_space_depth() -> Result<u64, String> {
    largest_ok(1, 256, |n| {
        let mut p = name_prim("DeviceRGB");
        for _ in 0..n {
            p = Primitive::Array(vec![name_prim("Indexed"), p, Primitive::Integer(0), str_prim(&[0, 0, 0])]);
        }
        let mem = MemResolver::new(HashMap::new(), HashMap::new(), false);
        guarded(|| ColorSpace::from_primitive(p, &mem).is_ok()).unwrap_or(false)
    })
}

fn appearance_depth() -> Result<u64, String> {
    largest_ok(1, 256, |n| {
        let mut p = Primitive::Dictionary(Dictionary::new());
        for _ in 1..n {
            p = dict(&[("On", p)]);
        }
        let mem = MemResolver::new(HashMap::new(), HashMap::new(), false);
        guarded(|| AppearanceStreamEntry::from_primitive(p, &mem).is_ok()).unwrap_or(false)
    })
}

fn nested_gets() -> Result<u64, String> {
    largest_ok(1, 1024, |n| {
        // n fonts 10 .. 10+n-1, each but the last a composite font whose descendant is the next one
        let mut objs = HashMap::new();
        for i in 0..n {
            let me = 10 + i;
            if i + 1 == n {
                objs.insert(me, dict(&[("Type", name_prim("Font")), ("Subtype", name_prim("Type1")), ("BaseFont", name_prim("Leaf"))]));
            } else {
                objs.insert(me, dict(&[("Type", name_prim("Font")), ("Subtype", name_prim("Type0")), ("BaseFont", name_prim("C")), ("Encoding", name_prim("Identity-H")), ("DescendantFonts", Primitive::Array(vec![rf(me + 1)]))]));
            }
        }
        let doc = build_doc(&objs, &HashMap::new(), Layout::SINGLE, None);
        guarded(|| {
            let Ok(file) = pdf::file::FileOptions::uncached().load(doc.bytes.clone()) else { return false };
            let r = file.resolver();
            r.get(Ref::<pdf::font::Font>::new(PlainRef { id: 10, gen: 0 })).is_ok()
        })
        .unwrap_or(false)
    })
}

fn max_cid() -> Result<u64, String> {
    largest_ok(1, 1 << 22, |c| {
        let d = dict(&[
            ("Type", name_prim("Font")),
            ("Subtype", name_prim("CIDFontType2")),
            ("BaseFont", name_prim("F")),
            ("CIDSystemInfo", dict(&[("Registry", str_prim(b"Adobe")), ("Ordering", str_prim(b"Identity")), ("Supplement", Primitive::Integer(0))])),
            ("FontDescriptor", dict(&[("Type", name_prim("FontDescriptor")), ("FontName", name_prim("F")), ("Flags", Primitive::Integer(4)), ("FontBBox", Primitive::Array(vec![Primitive::Integer(0); 4])), ("ItalicAngle", Primitive::Integer(0))])),
            ("W", Primitive::Array(vec![Primitive::Integer(c as i32), Primitive::Array(vec![Primitive::Integer(500)])])),
        ]);
        let mem = MemResolver::new(HashMap::new(), HashMap::new(), false);
        guarded(|| match pdf::font::Font::from_primitive(d, &mem) {
            Ok(f) => matches!(f.widths(&mem), Ok(Some(_))),
            Err(_) => false,
        })
        .unwrap_or(false)
    })
}

// ---------------------------------------------------------------------------------------------------
// the Option reader

/// a type whose reader hands the resolver's error up unchanged
struct Thru;
impl Object for Thru {
    fn from_primitive(p: Primitive, r: &impl Resolve) -> pdf::error::Result<Self> {
        match p {
            Primitive::Reference(id) => r.resolve(id).map(|_| Thru),
            _ => Ok(Thru),
        }
    }
}

struct FailingResolver {
    make: Box<dyn Fn() -> PdfError>,
    opts: ParseOptions,
}
impl Resolve for FailingResolver {
    fn resolve_flags(&self, _r: PlainRef, _flags: ParseFlags, _depth: usize) -> pdf::error::Result<Primitive> {
        Err((self.make)())
    }
    fn get<T: Object + datasize::DataSize>(&self, _r: Ref<T>) -> pdf::error::Result<RcRef<T>> {
        Err((self.make)())
    }
    fn options(&self) -> &ParseOptions {
        &self.opts
    }
    fn stream_data(&self, _id: PlainRef, _range: std::ops::Range<usize>) -> pdf::error::Result<std::sync::Arc<[u8]>> {
        Err(PdfError::Reference)
    }
    fn get_data_or_decode(&self, _id: PlainRef, _range: std::ops::Range<usize>, _filters: &[pdf::enc::StreamFilter]) -> pdf::error::Result<std::sync::Arc<[u8]>> {
        Err(PdfError::Reference)
    }
}

/// error kinds the probe can construct, in the order the generated list has had so far
const KINDS: &[&str] = &["NullRef", "FreeObject", "UnspecifiedXRefEntry", "EOF", "Reference", "UnexpectedPrimitive", "MissingEntry", "Other"];

fn make_kind(k: &str) -> PdfError {
    match k {
        "NullRef" => PdfError::NullRef { obj_nr: 7 },
        "FreeObject" => PdfError::FreeObject { obj_nr: 7 },
        "UnspecifiedXRefEntry" => PdfError::UnspecifiedXRefEntry { id: 7 },
        "EOF" => PdfError::EOF,
        "Reference" => PdfError::Reference,
        "UnexpectedPrimitive" => PdfError::UnexpectedPrimitive { expected: "a", found: "b" },
        "MissingEntry" => PdfError::MissingEntry { typ: "T", field: "F".into() },
        _ => PdfError::Other { msg: "probe".into() },
    }
}

const WRAPPERS: &[&str] = &["Try", "Shared", "FromPrimitive"];

fn wrap(w: &str, e: PdfError) -> PdfError {
    match w {
        "Try" => PdfError::Try { file: "probe", line: 1, column: 1, context: pdf::error::Context(vec![]), source: Box::new(e) },
        "Shared" => PdfError::Shared { source: std::sync::Arc::new(e) },
        _ => PdfError::FromPrimitive { typ: "T", field: "f", source: Box::new(e) },
    }
}

const FLAGS: &[&str] = &["allow_error_in_option", "allow_xref_error", "allow_invalid_ops", "allow_missing_endobj"];

fn options_with(flag: Option<&str>) -> ParseOptions {
    let mut o = ParseOptions::strict();
    // every flag off, then the one under test on
    o.allow_error_in_option = false;
    o.allow_xref_error = false;
    o.allow_invalid_ops = false;
    o.allow_missing_endobj = false;
    match flag {
        Some("allow_error_in_option") => o.allow_error_in_option = true,
        Some("allow_xref_error") => o.allow_xref_error = true,
        Some("allow_invalid_ops") => o.allow_invalid_ops = true,
        Some("allow_missing_endobj") => o.allow_missing_endobj = true,
        _ => {}
    }
    o
}

fn becomes_none(make: impl Fn() -> PdfError + 'static, flag: Option<&str>) -> Option<bool> {
    let r = FailingResolver { make: Box::new(make), opts: options_with(flag) };
    guarded(|| matches!(Option::<Thru>::from_primitive(rf(7), &r), Ok(None)))
}

fn option_reader() -> Result<OptionReader, String> {
    let mut o = OptionReader { via: "probed".into(), ..Default::default() };
    // sanity: a successful read is `Some`, `null` is `None`
    let okr = MemResolver::new([(7u64, Primitive::Integer(1))].into_iter().collect(), HashMap::new(), false);
    if !matches!(Option::<Thru>::from_primitive(rf(7), &okr), Ok(Some(_))) || !matches!(Option::<Thru>::from_primitive(Primitive::Null, &okr), Ok(None)) {
        return Err("the Option reader does not give Some for a readable value / None for null".into());
    }
    for k in KINDS {
        let kk = k.to_string();
        if becomes_none(move || make_kind(&kk), None).ok_or("panic in the Option reader")? {
            o.missing_kinds.push(k.to_string());
        }
    }
    if o.missing_kinds.len() == KINDS.len() {
        return Err("every error becomes None with all options off".into());
    }
    for w in WRAPPERS {
        // looked through: every missing kind is still `None` inside the wrapper, an ordinary error is not
        let all = !o.missing_kinds.is_empty()
            && o.missing_kinds.iter().all(|k| {
                let (kk, ww) = (k.clone(), w.to_string());
                becomes_none(move || wrap(&ww, make_kind(&kk)), None) == Some(true)
            });
        let ww = w.to_string();
        let ordinary = becomes_none(move || wrap(&ww, make_kind("Other")), None) == Some(true);
        if all && !ordinary {
            o.peeled.push(w.to_string());
        }
    }
    let mut flags = vec![];
    for f in FLAGS {
        let ordinary: Vec<&str> = KINDS.iter().copied().filter(|k| !o.missing_kinds.iter().any(|m| m == k)).collect();
        if ordinary.iter().all(|k| {
            let kk = k.to_string();
            becomes_none(move || make_kind(&kk), Some(f)) == Some(true)
        }) {
            flags.push(f.to_string());
        }
    }
    o.tolerant_flag = match flags.len() {
        0 => None,
        1 => Some(flags[0].clone()),
        _ => return Err(format!("more than one option turns ordinary errors into None: {:?}", flags)),
    };
    Ok(o)
}

// ---------------------------------------------------------------------------------------------------
// dispatch tables

fn head(s: &str) -> String {
    s.chars().take_while(|c| c.is_alphanumeric() || *c == '_').collect()
}

/// (variant the reader built, what the writer made of the value: None = it refuses / has no writer)
fn observe_typed<T: Object + ObjectWrite, R: Resolve>(p: &Primitive, r: &R, proj: impl Fn(&T) -> String) -> Option<(String, Option<String>)> {
    let x = T::from_primitive(p.clone(), r).ok()?;
    let v = proj(&x);
    let mut up = RecUpdater::new(CREATED_BASE);
    let w = guarded(|| x.to_primitive(&mut up).ok()).flatten();
    let created = up.objs.clone();
    Some((v, w.map(|p1| show_prim(&p1, &move |id| created.iter().rev().find(|(i, _)| *i == id).map(|(_, q)| q.clone())))))
}

fn observe<R: Resolve>(en: &str, p: &Primitive, r: &R) -> Option<(String, Option<String>)> {
    match en {
        "FontData" => observe_typed::<pdf::font::Font, R>(p, r, |x| head(&format!("{:?}", x.data))),
        "ColorSpace" => observe_typed::<ColorSpace, R>(p, r, |x| head(&format!("{:?}", x))),
        "DestView" => observe_typed::<Dest, R>(p, r, |x| head(&format!("{:?}", x.view))),
        "Action" => observe_typed::<Action, R>(p, r, |x| head(&format!("{:?}", x))),
        "CidToGidMap" => observe_typed::<pdf::font::CidToGidMap, R>(p, r, |x| head(&format!("{:?}", x))),
        "PagesNode" => observe_typed::<PagesNode, R>(p, r, |x| head(&format!("{:?}", x))),
        "XObject" => observe_typed::<XObject, R>(p, r, |x| head(&format!("{:?}", x))),
        _ => None,
    }
}

/// the Rust type the inputs of `sweep_inputs` for this enum are read as by `observe`
fn canonical_ty(en: &str) -> &'static str {
    match en {
        "FontData" => "Font",
        "DestView" => "Dest",
        "ColorSpace" => "ColorSpace",
        "Action" => "Action",
        "CidToGidMap" => "CidToGidMap",
        "PagesNode" => "PagesNode",
        _ => "XObject",
    }
}

fn observe_case(en: &str, c: &SweepCase) -> Option<(String, Option<String>)> {
    guarded(|| match &c.input {
        SweepInput::Prim(p, objs) => {
            let r = MemResolver::new(objs.clone(), HashMap::new(), false);
            observe(en, p, &r)
        }
        SweepInput::Doc { objs, streams, target } => {
            let doc = build_doc(objs, streams, Layout::SINGLE, None);
            let file = pdf::file::FileOptions::uncached().load(doc.bytes.clone()).ok()?;
            let r = file.resolver();
            let p = r.resolve(PlainRef { id: *target, gen: 0 }).ok()?;
            observe(en, &p, &r)
        }
    })
    .flatten()
}

/// the name `tag` occurs in the written form (as a whole name token of the text form)
fn written_has(written: &str, tag: &str) -> bool {
    let needle = format!("N{}", hex(tag.as_bytes()));
    let mut from = 0;
    while let Some(i) = written[from..].find(&needle) {
        let end = from + i + needle.len();
        if !written[end..].chars().next().map(|c| c.is_ascii_hexdigit()).unwrap_or(false) {
            return true;
        }
        from = end;
    }
    false
}

/// tag → (variant, written forms) for one enum
fn probe_enum(en: &str, tags: &[String]) -> BTreeMap<String, (String, Vec<String>)> {
    let mut out = BTreeMap::new();
    for tag in tags {
        let obs: Option<(String, Vec<String>)> = match en {
            "StreamFilter" => guarded(|| {
                let mem = MemResolver::new(HashMap::new(), HashMap::new(), false);
                let f = pdf::enc::StreamFilter::from_kind_and_params(tag, Dictionary::new(), &mem).ok()?;
                let v = head(&format!("{:?}", f));
                let st: pdf::object::Stream<()> = pdf::object::Stream::new_with_filters((), vec![1u8, 2, 3], vec![f]);
                let mut up = RecUpdater::new(CREATED_BASE);
                let w = st.to_primitive(&mut up).ok().map(|p| show_plain(&p));
                Some((v, w.into_iter().collect()))
            })
            .flatten(),
            "TimeRel" => guarded(|| {
                let mem = MemResolver::new(HashMap::new(), HashMap::new(), false);
                let txt = if tag == "Z" { "D:20200102030405Z".to_string() } else { format!("D:20200102030405{}01'30'", tag) };
                let d = pdf::primitive::Date::from_primitive(str_prim(txt.as_bytes()), &mem).ok()?;
                let v = head(&format!("{:?}", d.rel));
                let mut up = RecUpdater::new(CREATED_BASE);
                let w = match d.to_primitive(&mut up) {
                    Ok(Primitive::String(s)) => {
                        let b = s.as_bytes();
                        // the relation is the character after `D:` and the fourteen digits
                        if b.len() > 16 { Some(format!("N{}", hex(&b[16..17]))) } else { None }
                    }
                    _ => None,
                };
                Some((v, w.into_iter().collect()))
            })
            .flatten(),
            _ => {
                let mut rng = Rng::derive(1, &format!("probe/{}/{}", en, tag), 0);
                let cases = guarded(|| sweep_inputs(en, tag, &mut rng)).flatten();
                let mut got: Option<(String, Vec<String>)> = None;
                for c in cases.unwrap_or_default().iter().filter(|c| c.ty == canonical_ty(en)) {
                    if let Some((v, w)) = observe_case(en, c) {
                        match &mut got {
                            None => got = Some((v, w.into_iter().collect())),
                            Some((v0, ws)) => {
                                if *v0 == v {
                                    ws.extend(w);
                                }
                            }
                        }
                    }
                }
                got
            }
        };
        if let Some(o) = obs {
            out.insert(tag.clone(), o);
        }
    }
    out
}

fn dispatch_tables(ex: &Extracted, notes: &mut Vec<String>) -> Vec<Dispatch> {
    let mut out = vec![];
    for (en, known) in KNOWN_TAGS {
        // candidates: the tags of this harness, then the tags the source patterns show, in that order
        let mut tags: Vec<String> = known.iter().map(|t| t.to_string()).collect();
        if let Some(d) = ex.dispatch.iter().find(|d| d.value_enum == *en) {
            for a in &d.reader {
                for t in &a.tags {
                    if !tags.contains(t) {
                        tags.push(t.clone());
                    }
                }
            }
        }
        let obs = probe_enum(en, &tags);
        if obs.is_empty() {
            notes.push(format!("dispatch of {}: no tag could be probed", en));
            continue;
        }
        let Some(variants) = ex.enums.get(*en).cloned() else {
            notes.push(format!("dispatch of {}: the enum is not declared in the sources any more", en));
            continue;
        };
        let mut d = Dispatch { value_enum: en.to_string(), variants, reader: vec![], writer: vec![] };
        for t in &tags {
            match obs.get(t) {
                Some((v, _)) => d.reader.push(Arm { func: format!("{} reader (probed)", en), tags: vec![t.clone()], variants: vec![v.clone()] }),
                None => {
                    if known.contains(&t.as_str()) {
                        notes.push(format!("dispatch of {}: the reader refuses the minimal input for tag {:?}", en, t));
                    } else if tag_is_real(en, t) == Some(true) {
                        // a tag of the source this harness has no input for, but which the compiled reader does
                        // dispatch on: its arms are taken from the source
                        notes.push(format!("dispatch of {}: tag {:?} is read into a variant of its own but the harness has no input for it — arm taken from the source", en, t));
                        if let Some(sd) = ex.dispatch.iter().find(|d| d.value_enum == *en) {
                            for a in sd.reader.iter().filter(|a| a.tags.contains(t)) {
                                d.reader.push(a.clone());
                            }
                        }
                    }
                }
            }
        }
        // writer: per variant, the candidate tags found in what the writer made of the values of that variant
        let mut by_variant: Vec<(String, Vec<String>)> = vec![];
        for t in &tags {
            if let Some((v, ws)) = obs.get(t) {
                if !by_variant.iter().any(|(x, _)| x == v) {
                    by_variant.push((v.clone(), vec![]));
                }
                let slot = &mut by_variant.iter_mut().find(|(x, _)| x == v).unwrap().1;
                for w in ws {
                    for t2 in &tags {
                        if written_has(w, t2) && !slot.contains(t2) {
                            slot.push(t2.clone());
                        }
                    }
                }
            }
        }
        for (v, ts) in by_variant {
            if !ts.is_empty() {
                d.writer.push(Arm { func: format!("{} writer (probed)", en), tags: ts, variants: vec![v] });
            }
        }
        out.push(d);
    }
    out
}

fn rename(p: &Primitive, from: &str, to: &str) -> Primitive {
    match p {
        Primitive::Name(n) if n.as_str() == from => name_prim(to),
        Primitive::Array(a) => Primitive::Array(a.iter().map(|x| rename(x, from, to)).collect()),
        Primitive::Dictionary(d) => {
            let mut o = Dictionary::new();
            for (k, v) in d.iter() {
                o.insert(k.clone(), rename(v, from, to));
            }
            Primitive::Dictionary(o)
        }
        q => q.clone(),
    }
}

/// variants that stand for "no arm of its own": a tag that is read into one of these is not a tag of the dispatch
const CATCH_ALL: &[&str] = &["Other", "Named"];

/// Is `tag` (a string the syntactic scan found near the reader of `en`) a tag the compiled reader dispatches on?
/// The inputs of every known tag are fed with the tag's name replaced by `tag`: a real tag is read into a variant of
/// its own at least once; a fragment of a tag (`"Cal"`, `"RGB"` in a rewritten guard) ends in the catch-all or in
/// an error every time. `None`: the enum has no inputs to try with.
pub fn tag_is_real(en: &str, tag: &str) -> Option<bool> {
    let known = KNOWN_TAGS.iter().find(|(e, _)| *e == en)?.1;
    if matches!(en, "StreamFilter" | "TimeRel") {
        return Some(probe_enum(en, &[tag.to_string()]).contains_key(tag));
    }
    let mut tried = false;
    for k in known {
        let mut rng = Rng::derive(1, &format!("probe/{}/{}", en, k), 0);
        let Some(cases) = guarded(|| sweep_inputs(en, k, &mut rng)).flatten() else { continue };
        for c in cases.iter().filter(|c| c.ty == canonical_ty(en)) {
            let renamed = match &c.input {
                SweepInput::Prim(p, objs) => SweepInput::Prim(rename(p, k, tag), objs.iter().map(|(i, q)| (*i, rename(q, k, tag))).collect()),
                SweepInput::Doc { objs, streams, target } => SweepInput::Doc {
                    objs: objs.iter().map(|(i, q)| (*i, rename(q, k, tag))).collect(),
                    streams: streams.iter().map(|(i, (d, data))| (*i, (match rename(&Primitive::Dictionary(d.clone()), k, tag) { Primitive::Dictionary(d2) => d2, _ => d.clone() }, data.clone()))).collect(),
                    target: *target,
                },
            };
            tried = true;
            let c2 = SweepCase { desc: c.desc.clone(), ty: c.ty, input: renamed };
            if let Some((v, _)) = observe_case(en, &c2) {
                if !CATCH_ALL.contains(&v.as_str()) {
                    return Some(true);
                }
            }
        }
    }
    if tried { Some(false) } else { None }
}

// ---------------------------------------------------------------------------------------------------

pub fn run(ex: &Extracted) -> Probed {
    let mut pr = Probed::default();
    macro_rules! nat {
        ($name:expr, $probe:expr, $shift:expr) => {
            match guarded(|| $probe).unwrap_or_else(|| Err("panic".into())) {
                Ok(v) => {
                    pr.nats.insert($name.into(), (v as i64 + $shift) as u64);
                }
                Err(e) => {
                    pr.failed.insert($name.into(), e);
                }
            }
        };
    }
    match guarded(lexer_classes).unwrap_or_else(|| Err("panic".into())) {
        Ok((ws, de)) => {
            pr.sets.insert("lexWhitespace".into(), ws);
            pr.sets.insert("lexDelimiters".into(), de);
        }
        Err(e) => {
            pr.failed.insert("lexWhitespace".into(), e.clone());
            pr.failed.insert("lexDelimiters".into(), e);
        }
    }
    match guarded(hex_ws) {
        Some(v) => {
            pr.sets.insert("hexDecodeWhitespace".into(), v);
        }
        None => {
            pr.failed.insert("hexDecodeWhitespace".into(), "panic".into());
        }
    }
    match guarded(a85_ws).unwrap_or_else(|| Err("panic".into())) {
        Ok(v) => {
            pr.sets.insert("a85DecodeWhitespace".into(), v);
        }
        Err(e) => {
            pr.failed.insert("a85DecodeWhitespace".into(), e);
        }
    }
    match guarded(name_verbatim).unwrap_or_else(|| Err("panic".into())) {
        Ok((lo, hi, ex_)) => {
            pr.nats.insert("nameVerbatimLo".into(), lo);
            pr.nats.insert("nameVerbatimHi".into(), hi);
            pr.sets.insert("nameVerbatimExcept".into(), ex_);
        }
        Err(e) => {
            for k in ["nameVerbatimLo", "nameVerbatimHi", "nameVerbatimExcept"] {
                pr.failed.insert(k.into(), e.clone());
            }
        }
    }
    match guarded(header).unwrap_or_else(|| Err("panic".into())) {
        Ok((m, w)) => {
            pr.strings.insert("headerMarker".into(), m);
            pr.nats.insert("headerWindow".into(), w);
        }
        Err(e) => {
            pr.failed.insert("headerMarker".into(), e.clone());
            pr.failed.insert("headerWindow".into(), e);
        }
    }
    // budget = largest accepted size + shift (the shift relates the size of the planted structure to the counter
    // of the implementation; see notes/C15.md)
    nat!("parserMaxDepth", parser_depth(), PARSER_SHIFT);
    nat!("maxId", max_size(), 0);
    nat!("resolveDepth", resolve_depth(), 0);
    nat!("pageTreeDepth", page_tree_depth(), 0);
    nat!("maxTreeDepth", tree_depth(), TREE_SHIFT);
    nat!("colorSpaceDepth", color_space_depth(), 0);
    nat!("appearanceDepth", appearance_depth(), 0);
    nat!("maxNestedGets", nested_gets(), GETS_SHIFT);
    nat!("maxCid", max_cid(), 0);
    match guarded(option_reader).unwrap_or_else(|| Err("panic".into())) {
        Ok(o) => {
            pr.option_reader = Some(o);
            pr.option_kinds_probed = KINDS.iter().map(|k| k.to_string()).collect();
        }
        Err(e) => pr.notes.push(format!("Option reader: probe failed: {}", e)),
    }
    let mut notes = vec![];
    pr.dispatch = dispatch_tables(ex, &mut notes);
    pr.notes.extend(notes);
    pr
}

const PARSER_SHIFT: i64 = 0;
const TREE_SHIFT: i64 = 0;
const GETS_SHIFT: i64 = 0;
