//! pdfverif — the implementation side of the correspondence checks and the oracle searches.
//!
//!   pdfverif <property> --tier quick|thorough --seed N --driver PATH --out FILE [--replay FILE]
//!
//! Writes a JSON report (see report.rs) to FILE; `./check` turns it into the verdict and the evidence.

pub mod corpus;
pub mod docgen;
pub mod driver;
pub mod pdfwrite;
pub mod report;
pub mod rng;
pub mod util;
pub mod extract;
mod registry;
pub use registry::*;

use std::time::Instant;

fn main() {
    let args: Vec<String> = std::env::args().collect();
    if args.len() < 2 {
        eprintln!("usage: pdfverif <property> --tier quick|thorough --seed N --driver PATH --out FILE [--replay FILE]");
        std::process::exit(2);
    }
    if args[1] == "extract" {
        // the translator (DESIGN.md §2.2): pdfverif extract --out-dir <lean/PdfModel/Generated>
        std::process::exit(extract::main(&args[2..], &util::repo_root()));
    }
    let prop = args[1].clone();
    if prop == "docgen-stats" {
        util::quiet_panics();
        let n: u64 = args.get(2).and_then(|x| x.parse().ok()).unwrap_or(200);
        let (mut ok, mut pages_ok, mut errs) = (0, 0, std::collections::BTreeMap::<String, u64>::new());
        for case in 0..n {
            let mut rng = rng::Rng::derive(1, "docgen", case);
            let d = docgen::gen_document(&mut rng);
            match util::no_panic(|| pdf::file::FileOptions::uncached().load(d.bytes.clone())) {
                Ok(Ok(f)) => {
                    ok += 1;
                    let mut all = f.num_pages() as usize == d.n_pages;
                    for i in 0..f.num_pages() { if let Err(e) = f.get_page(i) { all = false; *errs.entry(format!("page: {}", util::err_root(&e)).chars().take(200).collect()).or_insert(0) += 1; } }
                    if all { pages_ok += 1; }
                }
                Ok(Err(e)) => { *errs.entry(format!("load: {}", util::err_root(&e)).chars().take(200).collect()).or_insert(0) += 1; if let Some(dir) = args.get(3) { std::fs::write(format!("{}/bad{}.pdf", dir, case), &d.bytes).ok(); } }
                Err(p) => { *errs.entry(format!("panic: {}", p)).or_insert(0) += 1; }
            }
        }
        println!("docs {} load-ok {} pages-ok {}", n, ok, pages_ok);
        for (k, v) in errs { println!("{:5} {}", v, k); }
        return;
    }
    if prop == "corpus-stats" {
        util::quiet_panics();
        for (name, b) in corpus::fixture_files() {
            let n = corpus::normalise(&b);
            println!("{} {} -> {:?}", name, b.len(), n.as_ref().map(|x| x.len()));
            if let (Some(n), Some(dir)) = (n, args.get(2)) {
                let f = format!("{}/{}", dir, name.rsplit('/').next().unwrap());
                std::fs::write(f, n).ok();
            }
        }
        return;
    }
    let mut tier = "quick".to_string();
    let mut seed = 1u64;
    let mut driver_path = "/verif/lean/.lake/build/bin/driver".to_string();
    let mut out = String::new();
    let mut replay: Option<serde_json::Value> = None;
    let mut i = 2;
    while i < args.len() {
        match args[i].as_str() {
            "--tier" => { tier = args[i + 1].clone(); i += 2; }
            "--seed" => { seed = args[i + 1].parse().expect("seed"); i += 2; }
            "--driver" => { driver_path = args[i + 1].clone(); i += 2; }
            "--out" => { out = args[i + 1].clone(); i += 2; }
            "--replay" => {
                let txt = std::fs::read_to_string(&args[i + 1]).expect("replay file");
                let v: serde_json::Value = serde_json::from_str(&txt).expect("replay json");
                replay = Some(v);
                i += 2;
            }
            x => { eprintln!("unknown argument {}", x); std::process::exit(2); }
        }
    }
    let thorough = tier == "thorough";
    util::quiet_panics();
    let drv = driver::Driver::new(&driver_path);
    let t0 = Instant::now();
    // a replay file stores the failing case under "replay" (oracle failure) or is itself the case
    let rp = replay.as_ref().map(|r| if r.get("replay").map(|x| x.is_object()).unwrap_or(false) { &r["replay"] } else { r });
    let report = match registry::run(&prop, &drv, seed, thorough, rp) {
        Some(r) => r,
        None => { eprintln!("unknown property {}", prop); std::process::exit(2); }
    };
    let mut j = report.to_json();
    j["wall_s"] = serde_json::json!(t0.elapsed().as_secs_f64());
    j["seed"] = serde_json::json!(seed);
    j["tier"] = serde_json::json!(tier);
    let txt = serde_json::to_string_pretty(&j).unwrap();
    if out.is_empty() { println!("{}", txt); } else { std::fs::write(&out, txt).expect("write report"); }
}
