// C08 byte level (included by c08.rs): model = lean/PdfModel/Model/ContentBytes.lean

fn prim_reals(p: &Primitive, out: &mut Vec<f32>) {
    match p {
        Primitive::Number(x) => out.push(*x),
        Primitive::Array(xs) => xs.iter().for_each(|x| prim_reals(x, out)),
        Primitive::Dictionary(d) => d.iter().for_each(|(_, v)| prim_reals(v, out)),
        _ => {}
    }
}

/// every f32 that occurs in the operations
fn op_reals(ops: &[Op]) -> Vec<f32> {
    let mut out = vec![];
    for op in ops {
        let mut pt = |p: &Point, out: &mut Vec<f32>| { out.push(p.x); out.push(p.y); };
        let col = |c: &Color, out: &mut Vec<f32>| match c {
            Color::Gray(g) => out.push(*g),
            Color::Rgb(c) => out.extend_from_slice(&[c.red, c.green, c.blue]),
            Color::Cmyk(c) => out.extend_from_slice(&[c.cyan, c.magenta, c.yellow, c.key]),
            Color::Other(a) => a.iter().for_each(|p| prim_reals(p, out)),
        };
        match op {
            Op::BeginMarkedContent { properties: Some(p), .. } | Op::MarkedContentPoint { properties: Some(p), .. } => prim_reals(p, &mut out),
            Op::MoveTo { p } | Op::LineTo { p } => pt(p, &mut out),
            Op::CurveTo { c1, c2, p } => { pt(c1, &mut out); pt(c2, &mut out); pt(p, &mut out); }
            Op::Rect { rect } => out.extend_from_slice(&[rect.x, rect.y, rect.width, rect.height]),
            Op::Transform { matrix: m } | Op::SetTextMatrix { matrix: m } => out.extend_from_slice(&[m.a, m.b, m.c, m.d, m.e, m.f]),
            Op::LineWidth { width: x } | Op::MiterLimit { limit: x } | Op::Flatness { tolerance: x } | Op::CharSpacing { char_space: x } | Op::WordSpacing { word_space: x }
            | Op::TextScaling { horiz_scale: x } | Op::Leading { leading: x } | Op::TextRise { rise: x } | Op::TextFont { size: x, .. } => out.push(*x),
            Op::Dash { pattern, phase } => { out.extend_from_slice(pattern); out.push(*phase); }
            Op::StrokeColor { color } | Op::FillColor { color } => col(color, &mut out),
            Op::MoveTextPosition { translation } => pt(translation, &mut out),
            Op::TextDrawAdjusted { array } => array.iter().for_each(|x| if let TextDrawAdjusted::Spacing(s) = x { out.push(*s) }),
            _ => {}
        }
    }
    out
}

/// `Display for f32` of the reals, as the table the driver takes
fn fmt_table(xs: &[f32]) -> String {
    let mut seen = std::collections::BTreeSet::new();
    let mut parts = vec![];
    for x in xs {
        if seen.insert(x.to_bits()) {
            parts.push(format!("{:08x}={}", x.to_bits(), hex(format!("{}", x).as_bytes())));
        }
    }
    if parts.is_empty() { "-".into() } else { parts.join(",") }
}

/// `f32::from_str` of every prefix of every run of regular characters that looks like a real token
fn real_table(data: &[u8]) -> String {
    let is_reg = |b: u8| !matches!(b, 0 | 9 | 10 | 12 | 13 | 32 | b'(' | b')' | b'<' | b'>' | b'[' | b']' | b'{' | b'}' | b'/' | b'%');
    let mut seen = std::collections::BTreeSet::new();
    let mut parts = vec![];
    let mut i = 0;
    while i < data.len() {
        if !is_reg(data[i]) {
            i += 1;
            continue;
        }
        let mut j = i;
        while j < data.len() && is_reg(data[j]) {
            j += 1;
        }
        // the lexer hands the longest prefix of digits, signs and dots to f32::from_str
        let mut k = 0;
        while i + k < j && k < 60 && (data[i + k].is_ascii_digit() || matches!(data[i + k], b'+' | b'-' | b'.')) {
            k += 1;
        }
        for m in 1..=k {
            let pre = &data[i..i + m];
            if let Ok(txt) = std::str::from_utf8(pre) {
                if let Ok(x) = txt.parse::<f32>() {
                    if seen.insert(pre.to_vec()) {
                        parts.push(format!("{}={:08x}", hex(pre), x.to_bits()));
                    }
                }
            }
        }
        i = j;
    }
    if parts.is_empty() { "-".into() } else { parts.join(",") }
}

fn stream_bser(driver: &Driver, ctx: &Ctx, seed: u64, n: u64, outside: bool) -> Stream {
    let name = if outside { "c08.bytes.ser.outside" } else { "c08.bytes.ser" };
    let mut st = Stream::new(name, !outside);
    let mut reqs = vec![];
    let mut imps = vec![];
    for case in 0..n {
        let mut h: Vec<String> = vec![];
        let v = gen_ser_case(ctx, seed, name, case, outside, &mut |k| h.push(k.to_string()));
        for op in &v {
            st.count(&format!("op={}", op_kind(op)));
        }
        reqs.push(format!("c08.bser {} {}", fmt_table(&op_reals(&v)), show_ops(&v)));
        imps.push(match real_serialize(&v) {
            Ok(bytes) => format!("ok {}", hex(&bytes)),
            Err(e) => e,
        });
    }
    let resp = driver.ask(&reqs);
    for ((rq, m), i) in reqs.iter().zip(resp.iter()).zip(imps.iter()) {
        st.count(&format!("outcome={}", m.split(' ').next().unwrap_or("")));
        st.case(rq, m, i, rq.contains(';'));
    }
    st
}

const GAPS: &[&[u8]] = &[b" ", b" ", b"\n", b"\r", b"\r\n", b"\t", b"\x0c", b"\0", b"  ", b" \n ", b"%c\n", b" % a comment ( [ << \r", b"%\r\n", b"\n%x\n%y\n"];

fn ends_with_delim(t: &[u8]) -> bool {
    matches!(t.last(), Some(b')') | Some(b'>') | Some(b']'))
}
fn starts_with_delim(t: &[u8]) -> bool {
    matches!(t.first(), Some(b'(') | Some(b'<') | Some(b'[') | Some(b'/'))
}

/// the tokens with a random layout: any white-space and comments between them, no separator where the syntax
/// needs none
fn print_layout(rng: &mut Rng, toks: &[Tok]) -> Vec<u8> {
    let texts: Vec<Vec<u8>> = toks
        .iter()
        .map(|t| {
            let mut b = vec![];
            match t {
                Tok::Prim(p) => print_prim(p, &mut b),
                Tok::Kw(s) => b.extend_from_slice(s.as_bytes()),
                Tok::Img(i) => print_image(i, &mut b),
            }
            b
        })
        .collect();
    let mut out = vec![];
    if rng.chance(1, 3) {
        out.extend_from_slice(*rng.pick(GAPS));
    }
    for (i, t) in texts.iter().enumerate() {
        out.extend_from_slice(t);
        let last = i + 1 == texts.len();
        let may_omit = last || ends_with_delim(t) || starts_with_delim(&texts[i + 1]);
        if may_omit && rng.chance(1, 3) {
            continue;
        }
        for _ in 0..1 + rng.usize(2) {
            out.extend_from_slice(*rng.pick(GAPS));
        }
    }
    out
}

fn stream_bparse(driver: &Driver, ctx: &Ctx, seed: u64, n: u64, outside: bool) -> Stream {
    let name = if outside { "c08.bytes.parse.outside" } else { "c08.bytes.parse" };
    let mut st = Stream::new(name, !outside);
    let mut reqs = vec![];
    let mut imps = vec![];
    for case in 0..n {
        let mut rng = Rng::derive(seed, name, case ^ 0x5151);
        let data: Vec<u8> = if !outside && case % 3 == 0 {
            // what the library's own writer produces
            st.count("source=serialize_ops");
            let v = gen_ser_case(ctx, seed, name, case, false, &mut |_| {});
            match real_serialize(&v) {
                Ok(b) => b,
                Err(_) => continue,
            }
        } else {
            st.count("source=layout");
            let mut h: Vec<String> = vec![];
            let mut c = gen_parse_case(seed, name, case, outside, &mut |k| h.push(k.to_string()));
            // inline images are below this model: leave them to the token-level streams
            c.toks.retain(|t| !matches!(t, Tok::Img(_)));
            let mut d = print_layout(&mut rng, &c.toks);
            if outside && rng.chance(1, 2) && !d.is_empty() {
                // damage a byte
                let i = rng.usize(d.len());
                d[i] = *rng.pick(b" ()<>[]/%x9.-\n");
                st.count("damaged");
            }
            d
        };
        if data.windows(2).any(|w| w == b"BI") {
            st.count("skipped=BI");
            continue;
        }
        let tab = real_table(&data);
        for allow in [false, true] {
            reqs.push(format!("c08.bparse {} {} {}", b01(allow), tab, hex(&data)));
            imps.push(answer(&ctx.parse(&data, allow)));
        }
    }
    let resp = driver.ask(&reqs);
    for ((rq, m), i) in reqs.iter().zip(resp.iter()).zip(imps.iter()) {
        st.count(&format!("outcome={}", m.split(' ').next().unwrap_or("")));
        st.case(rq, m, i, true);
    }
    st
}
