//! C18 — references to missing or free objects read as null.
//!
//! Every case is a generated DOCUMENT (harness/src/pdfwrite.rs + an own serialiser of primitives) with a
//! planted reference to an object number that is free, lies inside a gap of the table (never defined) or lies
//! beyond the table, loaded with the real `FileOptions::load` in strict and in tolerant mode and read through
//! the real `StorageResolver`.
//!
//! Correspondence streams (model = Model/Derive.lean interpreter + Model/Dangling.lean):
//!   c18.decide    exhaustive: {free, gap, beyond} × {direct, via get, via t!, t!(get), get(t!(get))} × {strict,
//!                 tolerant}: the real `Option<Probe>` reader on a real document vs `optionDecision`
//!   c18.rd        for every keyed field of every model of the generated registry: the reference planted as the
//!                 entry's value / as an array element / as a dictionary value, and the same dictionary without
//!                 the entry → typed read (+ write) vs the interpreter
//!   c18.lazy      `Lazy::load` on a planted reference
//! Oracle c18.absent (the REAL library against the property itself): reading with the planted reference gives
//!   exactly what reading WITHOUT the entry gives (same typed value as witnessed by its written form, or the same
//!   error, which for a required entry must name the entry), in both modes, for all three kinds; never a panic.
//!   `File::get_page` / `FileOptions::load` paths: Page, PageTree and Catalog planted in the document's own tree.

use crate::c15::support::typed::{visit_model, ModelVisitor, TYPED_MODELS};
use crate::c15::support::*;
use crate::driver::Driver;
use crate::pdfwrite::*;
use crate::report::{trunc, Oracle, Report, Stream};
use crate::rng::Rng;
use pdf::file::FileOptions;
use pdf::object::*;
use pdf::primitive::{Dictionary, Primitive};
use serde_json::json;
use std::collections::HashMap;

const TARGET: u64 = 10;

// ---------------------------------------------------------------------------------------------------
// real reads through the real resolver

struct ReadVisitor<'a, R: Resolve> {
    resolver: &'a R,
    target: Primitive,
    answer: String,
}

fn read_write_real<T: Object + ObjectWrite>(p: Primitive, r: &impl Resolve) -> String {
    std::panic::catch_unwind(std::panic::AssertUnwindSafe(|| match T::from_primitive(p, r) {
        Err(e) => format!("rerr {}", err_chain(&e)),
        Ok(x) => {
            let mut up = RecUpdater::new(CREATED_BASE);
            match x.to_primitive(&mut up) {
                Err(_) => "werr".to_string(),
                Ok(p1) => {
                    let created = up.objs.clone();
                    format!("ok {}", show_prim(&p1, &move |id| created.iter().rev().find(|(i, _)| *i == id).map(|(_, p)| p.clone())))
                }
            }
        }
    }))
    .unwrap_or_else(|_| "panic".into())
}

fn read_real<T: Object>(p: Primitive, r: &impl Resolve) -> String {
    std::panic::catch_unwind(std::panic::AssertUnwindSafe(|| match T::from_primitive(p, r) {
        Err(e) => format!("rerr {}", err_chain(&e)),
        Ok(_) => "ok".to_string(),
    }))
    .unwrap_or_else(|_| "panic".into())
}

impl<'a, R: Resolve> ModelVisitor for ReadVisitor<'a, R> {
    fn read<T: Object + 'static>(&mut self, _name: &str) {
        self.answer = read_real::<T>(self.target.clone(), self.resolver);
    }
    fn read_write<T: Object + ObjectWrite + 'static>(&mut self, _name: &str) {
        self.answer = read_write_real::<T>(self.target.clone(), self.resolver);
    }
}

fn opts(tolerant: bool) -> ParseOptions {
    if tolerant {
        ParseOptions::tolerant()
    } else {
        ParseOptions::strict()
    }
}

/// load the document and read object TARGET as model `name`
fn real_typed_read(bytes: &[u8], name: &str, tolerant: bool) -> String {
    let r = std::panic::catch_unwind(std::panic::AssertUnwindSafe(|| {
        let file = match FileOptions::uncached().parse_options(opts(tolerant)).load(bytes.to_vec()) {
            Ok(f) => f,
            Err(e) => return format!("load-failed {}", err_chain(&e)),
        };
        let resolver = file.resolver();
        let target = match resolver.resolve(PlainRef { id: TARGET, gen: 0 }) {
            Ok(p) => p,
            Err(e) => return format!("target-unreadable {}", err_chain(&e)),
        };
        let mut v = ReadVisitor { resolver: &resolver, target, answer: String::new() };
        if !visit_model(name, &mut v) {
            return "no-typed-model".into();
        }
        v.answer
    }));
    r.unwrap_or_else(|_| "panic".into())
}

// ---------------------------------------------------------------------------------------------------
// cases

#[derive(Clone)]
struct Plant {
    model: String,
    field: String,
    key: String,
    /// value | element | mapvalue
    place: &'static str,
    kind: char,
    tolerant: bool,
}

/// does the reader of this shape keep a reference it is handed without resolving it?
fn keeps_ref(s: &Sh) -> Option<bool> {
    match s {
        Sh::Ref(_) | Sh::Lazy(_) => Some(true),
        Sh::Leaf(n) => match n.as_str() {
            "Primitive" | "()" => Some(true),
            _ => Some(false),
        },
        Sh::Option(a) | Sh::Boxed(a) => keeps_ref(a),
        _ => Some(false),
    }
}

struct Prepared {
    plant: Plant,
    shape_txt: String,
    /// dictionary without the entry / with the planted entry
    base: Dictionary,
    planted: Dictionary,
    objs: HashMap<u64, Primitive>,
    model_known: bool,
    keeps: bool,
    optional: bool,
    has_writer: bool,
    /// what object 22 held before a later revision freed it: a value the field would accept
    old_value: Option<Primitive>,
}

fn dict_without(d: &Dictionary, k: &str) -> Dictionary {
    let mut o = Dictionary::new();
    for (kk, v) in d.iter() {
        if kk.as_str() != k {
            o.insert(kk.clone(), v.clone());
        }
    }
    o
}

fn dict_with(d: &Dictionary, k: &str, v: Primitive) -> Dictionary {
    let mut o = dict_without(d, k);
    o.insert(k, v);
    o
}

/// all plants for one model, on one generated instance
fn prepare(schemas: &[SchemaJ], name: &str, sc: &SchemaJ, arg: Option<&Sh>, has_writer: bool, seed: u64, variant: u64) -> Vec<Prepared> {
    let mut out = vec![];
    let mut rng = Rng::derive(seed, &format!("c18.rd/{}", name), variant);
    // prefer an instance the Lean model can read too
    let mut g = Gen::new(schemas, true);
    let mut model_known = true;
    let mut d = g.struct_dict(&mut rng, sc, arg, 2);
    if d.is_none() {
        g = Gen::new(schemas, false);
        model_known = false;
        d = g.struct_dict(&mut rng, sc, arg, 2);
    }
    let Some(d) = d else { return out };
    // no unknown extra keys here: they only blur the comparison of written forms for models without catch-all
    let mut d0 = Dictionary::new();
    for (k, v) in d.iter() {
        if !k.as_str().starts_with("XExtra") {
            d0.insert(k.clone(), v.clone());
        }
    }
    let shape_txt = match arg {
        None => format!("m.{}", sc.name),
        Some(a) => format!("ma.{}({})", sc.name, show_shape(a)),
    };
    for f in &sc.fields {
        let Some(key) = &f.key else { continue };
        let shape = match (arg, sc.params.first()) {
            (Some(a), Some(x)) => subst(&f.shape, x, a),
            _ => f.shape.clone(),
        };
        let optional = f.default.is_some() || g.reads_null(&shape);
        let mut places: Vec<(&'static str, Sh)> = vec![("value", shape.clone())];
        let inner = match &shape {
            Sh::Option(a) => (**a).clone(),
            s => s.clone(),
        };
        match &inner {
            Sh::Vec(a) => places.push(("element", (**a).clone())),
            Sh::HashMap(a) => places.push(("mapvalue", (**a).clone())),
            _ => {}
        }
        for (place, at_shape) in places {
            for kind in ['F', 'R', 'N', 'X', 'U'] {
                for tolerant in [false, true] {
                    // the placeholder id 0 is replaced once the document (and so "beyond") is known
                    let mut g2 = Gen { schemas, objs: g.objs.clone(), next_id: g.next_id + 50, model_only: model_known, hist: Default::default(), nesting: 1, indirect_placement: true, always_tags: false };
                    let mut r2 = Rng::derive(seed, &format!("c18.plant/{}/{}/{}", name, f.ident, place), variant);
                    let marker = Primitive::Reference(PlainRef { id: u64::MAX, gen: 0 });
                    let value = match place {
                        "value" => marker.clone(),
                        "element" => {
                            let mut xs = vec![];
                            if let Some(v) = g2.value(&mut r2, &at_shape, 1) {
                                xs.push(v);
                            }
                            xs.push(marker.clone());
                            Primitive::Array(xs)
                        }
                        _ => {
                            let mut m = Dictionary::new();
                            if let Some(v) = g2.value(&mut r2, &at_shape, 1) {
                                m.insert("Good", v);
                            }
                            m.insert("Gone", marker.clone());
                            Primitive::Dictionary(m)
                        }
                    };
                    let old_value = g2.value(&mut r2, &at_shape, 1).filter(|v| !matches!(v, Primitive::Null));
                    let known = model_known && g2.shape_known(&shape);
                    out.push(Prepared {
                        plant: Plant { model: name.to_string(), field: f.ident.clone(), key: key.clone(), place, kind, tolerant },
                        shape_txt: shape_txt.clone(),
                        base: dict_without(&d0, key),
                        planted: dict_with(&d0, key, value),
                        objs: g2.objs.clone(),
                        model_known: known,
                        keeps: keeps_ref(&at_shape).unwrap_or(false),
                        optional,
                        has_writer,
                        old_value,
                    });
                }
            }
        }
    }
    out
}

fn replace_marker(p: &Primitive, id: u64) -> Primitive {
    match p {
        Primitive::Reference(r) if r.id == u64::MAX => Primitive::Reference(PlainRef { id, gen: 0 }),
        Primitive::Array(a) => Primitive::Array(a.iter().map(|x| replace_marker(x, id)).collect()),
        Primitive::Dictionary(d) => {
            let mut o = Dictionary::new();
            for (k, v) in d.iter() {
                o.insert(k.clone(), replace_marker(v, id));
            }
            Primitive::Dictionary(o)
        }
        x => x.clone(),
    }
}

fn model_args(tolerant: bool, shape: &str, objs: &HashMap<u64, Primitive>, missing_id: u64, kind: char, p: &Primitive) -> String {
    let mut m = HashMap::new();
    m.insert(missing_id, kind_model(kind));
    format!("{} {} {} {} {} {}", crate::c15::tree_peels() as u8, tolerant as u8, shape, objs_text(objs), missing_text(&m), show_plain(p))
}

fn fields_stream(driver: &Driver, schemas: &[SchemaJ], seed: u64, variants: u64, only: Option<&serde_json::Value>) -> (Stream, Oracle) {
    let mut st = Stream::new("c18.rd", true);
    let mut or = Oracle::new("c18.absent");
    let mut reqs: Vec<String> = vec![];
    let mut imps: Vec<String> = vec![];
    for (name, _ty, rd, wr) in TYPED_MODELS {
        if !*rd {
            continue;
        }
        let base = name.split('<').next().unwrap();
        let Some(sc) = schemas.iter().find(|s| s.name == base) else { continue };
        if sc.kind != "struct" {
            continue;
        }
        let arg: Option<Sh> = if sc.params.is_empty() { None } else { Some(Sh::Ref(Box::new(Sh::LeafApp("Stream".into(), Box::new(Sh::Model("EmbeddedFile".into())))))) };
        for variant in 0..variants {
            let preps = prepare(schemas, name, sc, arg.as_ref(), *wr, seed, variant);
            if preps.is_empty() {
                or.count(&format!("skipped-no-generator-for-a-required-field={}", name));
                break;
            }
            for pr in preps {
                if let Some(o) = only {
                    if o["model"].as_str() != Some(name) || o["field"].as_str() != Some(&pr.plant.field) || o["place"].as_str() != Some(pr.plant.place) || o["kind"].as_str() != Some(&pr.plant.kind.to_string()) || o["tolerant"].as_bool() != Some(pr.plant.tolerant) || o["variant"].as_u64() != Some(variant) {
                        continue;
                    }
                }
                // baseline document / planted document (same layout, same object numbers)
                let layout = Layout::of_variant(variant);
                let mut objs_a = pr.objs.clone();
                objs_a.insert(TARGET, Primitive::Dictionary(pr.base.clone()));
                let ids = missing_ids(max_id_of(&objs_a, &HashMap::new()), layout);
                let Some(miss) = kind_id(pr.plant.kind, &ids) else { continue };
                let no_streams = HashMap::new();
                let doc_a = build_doc(&objs_a, &no_streams, layout, pr.old_value.as_ref());
                let planted = replace_marker(&Primitive::Dictionary(pr.planted.clone()), miss);
                let mut objs_b = pr.objs.clone();
                objs_b.insert(TARGET, planted.clone());
                let doc_b = build_doc(&objs_b, &no_streams, layout, pr.old_value.as_ref());
                or.count(&format!("layout={}-revision(s)/{}", layout.revisions, if layout.stream_xref { "xref-stream" } else { "classic" }));
                let a = real_typed_read(&doc_a.bytes, name, pr.plant.tolerant);
                let b = real_typed_read(&doc_b.bytes, name, pr.plant.tolerant);
                let desc = format!("{}.{} {} kind={} {}", name, pr.plant.field, pr.plant.place, pr.plant.kind, if pr.plant.tolerant { "tolerant" } else { "strict" });
                let class = if pr.keeps { "keeps-reference" } else if pr.optional { "optional" } else { "required" };
                or.count(&format!("field-class={}", class));
                or.count(&format!("place={}", pr.plant.place));
                or.count(&format!("kind={}", pr.plant.kind));
                or.count(&format!("mode={}", if pr.plant.tolerant { "tolerant" } else { "strict" }));
                or.case(&desc, true, || json!({"case": desc, "absent": trunc(&a), "planted": trunc(&b)}));
                let replay = json!({"oracle": "c18.absent", "seed": seed, "variant": variant, "model": name, "field": pr.plant.field, "place": pr.plant.place,
                    "kind": pr.plant.kind.to_string(), "tolerant": pr.plant.tolerant, "document_hex": crate::driver::hex(&doc_b.bytes), "without_entry": a, "with_planted_reference": b});
                let sig_field = format!("{}.{}", name, pr.plant.field);
                if b == "panic" || b.starts_with("load-failed") || b.starts_with("target-unreadable") {
                    or.fail(&format!("dangling:{}:{}", sig_field, b.split(' ').next().unwrap()), &format!("{}: {}", desc, b), replay);
                } else if pr.keeps {
                    if !b.starts_with("ok") {
                        or.fail(&format!("dangling:{}:kept-reference-not-read", sig_field), &format!("{}: the field type keeps references unresolved, yet reading fails: {}", desc, b), replay);
                    }
                } else if a != b {
                    or.fail(
                        &format!("dangling:{}:{}", sig_field, if pr.optional { "optional-not-absent" } else { "required-differs-from-absent" }),
                        &format!("{}: with the entry absent: {} — with the reference to the missing object: {}", desc, trunc(&a), trunc(&b)),
                        replay,
                    );
                } else if !pr.optional && b.starts_with("rerr") && !b.contains(&format!("({})", pr.plant.field)) {
                    or.fail(&format!("dangling:{}:error-does-not-name-entry", sig_field), &format!("{}: {}", desc, b), replay);
                }
                // correspondence
                if pr.model_known {
                    let cmd = if pr.has_writer { "c18.rd" } else { "c18.rd" };
                    let strip = |s: &str| if pr.has_writer { s.to_string() } else { s.split(' ').next().unwrap_or("").to_string() + if s.starts_with("rerr") { &s[4..] } else { "" } };
                    reqs.push(format!("{} {}", cmd, model_args(pr.plant.tolerant, &pr.shape_txt, &pr.objs, miss, pr.plant.kind, &planted)));
                    imps.push(format!("{}|{}", pr.has_writer, strip(&b)));
                    st.count(&format!("place={}", pr.plant.place));
                    st.count(&format!("outcome={}", b.split(' ').next().unwrap_or("")));
                }
            }
        }
    }
    let resp = driver.ask(&reqs);
    for ((rq, m), i) in reqs.iter().zip(resp.iter()).zip(imps.iter()) {
        let (has_writer, imp) = i.split_once('|').unwrap();
        // models without a writer: compare the read outcome only
        let m2 = if has_writer == "true" { m.clone() } else if m.starts_with("ok") || m == "werr" { "ok".to_string() } else { m.clone() };
        st.case(rq, &m2, imp, true);
    }
    (st, or)
}

// probes for the decision table ---------------------------------------------------------------------

#[derive(Debug, datasize::DataSize)]
struct PTry;
impl Object for PTry {
    fn from_primitive(p: Primitive, r: &impl Resolve) -> pdf::error::Result<Self> {
        let _ = pdf::t!(p.resolve(r));
        Ok(PTry)
    }
}
#[derive(Debug, datasize::DataSize)]
struct PTryGet;
impl Object for PTryGet {
    fn from_primitive(p: Primitive, r: &impl Resolve) -> pdf::error::Result<Self> {
        let _ = pdf::t!(RcRef::<i32>::from_primitive(p, r));
        Ok(PTryGet)
    }
}

fn decide_real(path: &str, kind: char, tolerant: bool, layout: Layout) -> String {
    let r = std::panic::catch_unwind(std::panic::AssertUnwindSafe(|| {
        // object 10 holds a reference to the missing object (used by the nested path)
        let ids = missing_ids(TARGET, layout);
        let miss = kind_id(kind, &ids).expect("kind available in this layout");
        let mut objs = HashMap::new();
        objs.insert(TARGET, Primitive::Reference(PlainRef { id: miss, gen: 0 }));
        let doc = build_doc(&objs, &HashMap::new(), layout, Some(&Primitive::Integer(7)));
        let file = match FileOptions::uncached().parse_options(opts(tolerant)).load(doc.bytes.clone()) {
            Ok(f) => f,
            Err(e) => return format!("load-failed {}", err_chain(&e)),
        };
        let resolver = file.resolver();
        let dangling = Primitive::Reference(PlainRef { id: miss, gen: 0 });
        fn show<T>(r: pdf::error::Result<Option<T>>) -> String {
            match r {
                Ok(None) => "none".to_string(),
                Ok(Some(_)) => "some(the-object-is-readable)".to_string(),
                Err(e) => format!("err {}", err_chain(&e)),
            }
        }
        match path {
            "direct" => show(Option::<i32>::from_primitive(dangling, &resolver)),
            "get" => show(Option::<RcRef<i32>>::from_primitive(dangling, &resolver)),
            "try" => show(Option::<PTry>::from_primitive(dangling, &resolver)),
            "tryget" => show(Option::<PTryGet>::from_primitive(dangling, &resolver)),
            _ => show(Option::<RcRef<PTryGet>>::from_primitive(Primitive::Reference(PlainRef { id: TARGET, gen: 0 }), &resolver)),
        }
    }));
    r.unwrap_or_else(|_| "panic".into())
}

fn decide_stream(driver: &Driver) -> (Stream, Oracle) {
    let mut st = Stream::new("c18.decide", true);
    st.exhaustive = true;
    let mut or = Oracle::new("c18.option-reader");
    let mut reqs = vec![];
    let mut imps = vec![];
    // one single-revision and two multi-revision layouts (the freed-later and the late-/Size kinds need ≥ 2)
    let layouts = [Layout::SINGLE, Layout { stream_xref: false, revisions: 2 }, Layout { stream_xref: true, revisions: 3 }];
    for layout in layouts {
    for kind in ['F', 'R', 'N', 'X', 'U'] {
        if layout.revisions < 2 && (kind == 'R' || kind == 'X') {
            continue;
        }
        for path in ["direct", "get", "try", "tryget", "gettryget"] {
            for tolerant in [false, true] {
                let imp = decide_real(path, kind, tolerant, layout);
                let desc = format!("kind={} path={} {} {}-revision(s)/{}", kind, path, if tolerant { "tolerant" } else { "strict" }, layout.revisions, if layout.stream_xref { "xref-stream" } else { "classic" });
                or.case(&desc, true, || json!({"case": desc, "decision": imp}));
                or.count(&format!("decision={}", imp.split(' ').next().unwrap_or("")));
                if imp != "none" {
                    // deterministic witnesses of D38: run first, on every run
                    or.fail(&format!("option-reader:{}:{}", path, kind), &format!("Option<T> on a reference to a missing object ({}): {} instead of None", desc, imp),
                        json!({"oracle": "c18.option-reader", "kind": kind.to_string(), "path": path, "tolerant": tolerant, "revisions": layout.revisions, "stream_xref": layout.stream_xref}));
                }
                reqs.push(format!("c18.decide {} {} {} {}", crate::c15::tree_peels() as u8, tolerant as u8, kind_model(kind), path));
                imps.push(imp);
            }
        }
    }
    }
    let resp = driver.ask(&reqs);
    for ((rq, m), i) in reqs.iter().zip(resp.iter()).zip(imps.iter()) {
        st.case(rq, m, i, true);
    }
    (st, or)
}

// Lazy::load ------------------------------------------------------------------------------------------

fn lazy_stream(driver: &Driver, schemas: &[SchemaJ], seed: u64, n: u64) -> (Stream, Oracle) {
    let mut st = Stream::new("c18.lazy", true);
    let mut or = Oracle::new("c18.lazy-load");
    let mut reqs = vec![];
    let mut imps = vec![];
    let shape = Sh::Vec(Box::new(Sh::MaybeRef(Box::new(Sh::Model("Annot".into())))));
    for case in 0..n {
        for kind in ['F', 'R', 'N', 'X', 'U'] {
            for tolerant in [false, true] {
                let layout = Layout::of_variant(case + 1);
                let mut rng = Rng::derive(seed, "c18.lazy", case);
                let mut g = Gen::new(schemas, true);
                // some annotations that do exist, so that the documents are not all alike
                let _ = g.value(&mut rng, &shape, 2);
                // what object 22 held before it was freed: a list of annotations
                let old = Primitive::Array(vec![Primitive::Dictionary({ let mut d = Dictionary::new(); d.insert("Type", Primitive::name("Annot")); d.insert("Subtype", Primitive::name("Text")); d })]);
                let doc0 = build_doc(&g.objs, &HashMap::new(), layout, Some(&old));
                let Some(miss) = kind_id(kind, &doc0.ids) else { continue };
                let imp = std::panic::catch_unwind(std::panic::AssertUnwindSafe(|| {
                    let file = match FileOptions::uncached().parse_options(opts(tolerant)).load(doc0.bytes.clone()) {
                        Ok(f) => f,
                        Err(e) => return format!("load-failed {}", err_chain(&e)),
                    };
                    let resolver = file.resolver();
                    let lazy = Lazy::<Vec<MaybeRef<Annot>>>::from_primitive(Primitive::Reference(PlainRef { id: miss, gen: 0 }), &resolver).unwrap();
                    match lazy.load(&resolver) {
                        Err(e) => format!("rerr {}", err_chain(&e)),
                        Ok(v) => {
                            let mut up = RecUpdater::new(CREATED_BASE);
                            match v.to_primitive(&mut up) {
                                Ok(p) => format!("ok {}", show_plain(&p)),
                                Err(_) => "werr".into(),
                            }
                        }
                    }
                }))
                .unwrap_or_else(|_| "panic".into());
                let desc = format!("Lazy<Vec<MaybeRef<Annot>>> kind={} {}", kind, if tolerant { "tolerant" } else { "strict" });
                or.case(&desc, true, || json!({"case": desc, "load": imp}));
                if imp != "ok []" {
                    or.fail(&format!("lazy-load:{}", kind), &format!("{}: load() gives {} instead of the empty list an absent /Annots gives", desc, imp), json!({"oracle": "c18.lazy-load", "kind": kind.to_string(), "tolerant": tolerant, "seed": seed, "case": case}));
                }
                let p = Primitive::Reference(PlainRef { id: miss, gen: 0 });
                reqs.push(format!("c18.lazy {}", model_args(tolerant, &show_shape(&shape), &g.objs, miss, kind, &p)));
                st.count(&format!("kind={}", kind));
                imps.push(imp);
            }
        }
    }
    let resp = driver.ask(&reqs);
    for ((rq, m), i) in reqs.iter().zip(resp.iter()).zip(imps.iter()) {
        st.case(rq, m, i, true);
    }
    (st, or)
}

// the document's own page tree: FileOptions::load and File::get_page --------------------------------

fn tree_oracle(schemas: &[SchemaJ], seed: u64, variants: u64) -> Oracle {
    let mut or = Oracle::new("c18.load-get_page");
    for (model, obj_id) in [("Catalog", 1u64), ("PageTree", 2), ("Page", 3)] {
        let Some(sc) = schemas.iter().find(|s| s.name == model) else {
            or.fail("registry:model-missing", &format!("model {} is not in the generated registry", model), json!({"model": model}));
            continue;
        };
        for variant in 0..variants {
            let mut rng = Rng::derive(seed, &format!("c18.tree/{}", model), variant);
            let mut g = Gen::new(schemas, false);
            let Some(d) = g.struct_dict(&mut rng, sc, None, 2) else { continue };
            // tie the generated dictionary into the document's own tree
            let mut d0 = Dictionary::new();
            for (k, v) in d.iter() {
                if !k.as_str().starts_with("XExtra") {
                    d0.insert(k.clone(), v.clone());
                }
            }
            match model {
                "Catalog" => {
                    d0.insert("Pages", Primitive::Reference(PlainRef { id: 2, gen: 0 }));
                }
                "PageTree" => {
                    d0.insert("Type", Primitive::name("Pages"));
                    d0.insert("Kids", Primitive::Array(vec![Primitive::Reference(PlainRef { id: 3, gen: 0 })]));
                    d0.insert("Count", Primitive::Integer(1));
                    d0 = dict_without(&d0, "Parent");
                }
                _ => {
                    d0.insert("Type", Primitive::name("Page"));
                    d0.insert("Parent", Primitive::Reference(PlainRef { id: 2, gen: 0 }));
                }
            }
            for f in &sc.fields {
                let Some(key) = &f.key else { continue };
                if ["Pages", "Kids", "Count", "Parent"].contains(&key.as_str()) {
                    continue;
                }
                let optional = f.default.is_some() || g.reads_null(&f.shape);
                let keeps = keeps_ref(&f.shape).unwrap_or(false);
                for kind in ['F', 'R', 'N', 'X', 'U'] {
                    for tolerant in [false, true] {
                        let layout = Layout::of_variant(variant + 1);
                        let mut old_rng = Rng::derive(seed, &format!("c18.tree.old/{}/{}", model, f.ident), variant);
                        let mut g_old = Gen { schemas, objs: g.objs.clone(), next_id: g.next_id + 50, model_only: false, hist: Default::default(), nesting: 1, indirect_placement: true, always_tags: false };
                        let old_value = g_old.value(&mut old_rng, &f.shape, 1).filter(|v| !matches!(v, Primitive::Null));
                        let base_objs = g_old.objs.clone();
                        let mut probe = base_objs.clone();
                        probe.insert(obj_id, Primitive::Null);
                        let ids = missing_ids(max_id_of(&probe, &HashMap::new()), layout);
                        let Some(miss) = kind_id(kind, &ids) else { continue };
                        let observe = |dict: &Dictionary| -> (String, Vec<u8>) {
                            let mut objs2 = base_objs.clone();
                            objs2.insert(obj_id, replace_marker(&Primitive::Dictionary(dict.clone()), miss));
                            let doc = build_doc(&objs2, &HashMap::new(), layout, old_value.as_ref());
                            let res = std::panic::catch_unwind(std::panic::AssertUnwindSafe(|| {
                                let file = match FileOptions::uncached().parse_options(opts(tolerant)).load(doc.bytes.clone()) {
                                    Ok(f) => f,
                                    Err(e) => return format!("load: rerr {}", err_chain(&e)),
                                };
                                match file.get_page(0) {
                                    Ok(page) => {
                                        let resolver = file.resolver();
                                        let ann = page.annotations.load(&resolver).map(|a| a.len().to_string()).unwrap_or_else(|e| format!("rerr {}", err_chain(&e)));
                                        format!("load: ok, get_page(0): ok rotate={} annotations={}", page.rotate, ann)
                                    }
                                    Err(e) => format!("load: ok, get_page(0): rerr {}", err_chain(&e)),
                                }
                            }))
                            .unwrap_or_else(|_| "panic".into());
                            (res, doc.bytes)
                        };
                        let (a, _) = observe(&dict_without(&d0, key));
                        let (b, bytes) = observe(&dict_with(&d0, key, Primitive::Reference(PlainRef { id: u64::MAX, gen: 0 })));
                        let desc = format!("{}.{} (object {} of the document) kind={} {}", model, f.ident, obj_id, kind, if tolerant { "tolerant" } else { "strict" });
                        or.case(&desc, true, || json!({"case": desc, "absent": a, "planted": b}));
                        or.count(&format!("model={}", model));
                        or.count(&format!("outcome={}", if b.contains("rerr") { "error" } else { "ok" }));
                        let replay = json!({"oracle": "c18.load-get_page", "seed": seed, "variant": variant, "model": model, "field": f.ident, "kind": kind.to_string(), "tolerant": tolerant, "document_hex": crate::driver::hex(&bytes)});
                        if b == "panic" {
                            or.fail(&format!("dangling:{}.{}:panic", model, f.ident), &format!("{}: panic", desc), replay);
                        } else if keeps {
                            if b.contains("load: rerr") || b.contains("get_page(0): rerr") {
                                or.fail(&format!("dangling:{}.{}:kept-reference-not-read", model, f.ident), &format!("{}: {}", desc, b), replay);
                            } else if key == "Annots" && a != b {
                                or.fail(&format!("lazy-load:{}", kind), &format!("{}: absent: {} — planted: {}", desc, a, b), replay);
                            }
                        } else if a != b {
                            or.fail(&format!("dangling:{}.{}:{}", model, f.ident, if optional { "optional-not-absent" } else { "required-differs-from-absent" }), &format!("{}: with the entry absent: {} — with the reference to the missing object: {}", desc, a, b), replay);
                        }
                    }
                }
            }
        }
    }
    or
}

pub fn run(driver: &Driver, seed: u64, thorough: bool, replay: Option<&serde_json::Value>) -> Report {
    let mut rep = Report::new("C18");
    let schemas = load_schemas();
    rep.extra.insert("option_reader".into(), serde_json::from_str::<serde_json::Value>(crate::c15::support::typed::SCHEMAS_JSON).unwrap()["option_reader"].clone());
    if let Some(r) = replay {
        let seed = r["seed"].as_u64().unwrap_or(seed);
        match r["oracle"].as_str().unwrap_or("") {
            "c18.absent" => {
                let (st, or) = fields_stream(driver, &schemas, seed, r["variant"].as_u64().unwrap_or(0) + 1, Some(r));
                rep.streams.push(st);
                rep.oracles.push(or);
            }
            "c18.load-get_page" => rep.oracles.push(tree_oracle(&schemas, seed, r["variant"].as_u64().unwrap_or(0) + 1)),
            "c18.lazy-load" => {
                let (st, or) = lazy_stream(driver, &schemas, seed, r["case"].as_u64().unwrap_or(0) + 1);
                rep.streams.push(st);
                rep.oracles.push(or);
            }
            _ => {
                let (st, or) = decide_stream(driver);
                rep.streams.push(st);
                rep.oracles.push(or);
            }
        }
        return rep;
    }
    let (st, or) = decide_stream(driver);
    rep.streams.push(st);
    rep.oracles.push(or);
    let (st, or) = fields_stream(driver, &schemas, seed, if thorough { 42 } else { 3 }, None);
    rep.streams.push(st);
    rep.oracles.push(or);
    let (st, or) = lazy_stream(driver, &schemas, seed, if thorough { 42 } else { 3 });
    rep.streams.push(st);
    rep.oracles.push(or);
    rep.oracles.push(tree_oracle(&schemas, seed, if thorough { 21 } else { 3 }));
    rep
}
