//! C03 — the lexer/parser reads every specification-conformant spelling of a value as that value and
//! rests exactly behind it.
//!
//! Correspondence streams (model = lean/PdfModel/Model/{Lexer,StrLexer,Parser}.lean, printer =
//! Spec/Render.lean with its Rust twin c03_render.rs):
//!   c03.class (+ .drift)        all 256 bytes: white-space, delimiter, hex white-space, octal, nibble, hex digit
//!   c03.word.exhaustive / .eof  every buffer of length ≤ 2 (thorough: 3 over an alphabet) × every position: Lexer::next
//!   c03.lexops                  token soup: peek, back, next_expect, next_stream, read_n, set_pos, offset_pos
//!   c03.tok / c03.tok.junk      Substr::is_integer, real_number, to::<i32>, to::<u64>, name decoding
//!   c03.utf8                    str::from_utf8 against the model's `utf8Valid`
//!   c03.floattext               f32::from_str against `validFloatText` (an ASSUMPTION of the model)
//!   c03.str / c03.str.junk      StringLexer / HexStringLexer loops
//!   c03.render                  twin printer against the Lean printer
//!   c03.parse / .deep / .mutated  parse_with_lexer, parse_indirect_object, parse_stream on renderings
//!   c03.seq                     sequences parsed one after the other
//!   c03.cursor / c03.cursor.any parse_with_lexer with the cursor afterwards (`c03.parsec`, Model/ParserCursor): on the
//!                               conformant renderings of c03.parse mode plain / on mutated renderings, token soup, noise
//!   c03.tails                   the tails appended to renderings are exactly `Spec/Render.tails` (the proven ones)
//!   c03.enc                     parse_indirect_object with a real RC4 `Decoder` (V 1 / R 2 40 bit, V 2 / R 3 128 bit; dictionary entries and
//!                               per-object keys computed by `crate::c06::std_sec`) on renderings of values whose strings are encrypted,
//!                               against `c03.parsedec` (the model gets the object key only). The request RECORDED for a case carries one
//!                               more field, `fk=<file key>`, which is not sent to the driver: with it a stored disagreement is re-run
//!                               (`Decoder::new(file key, length, V2, true)` decrypts exactly like the decoder `from_password` returns)
//! Oracles (the real library against the printer's input value, independent of the model):
//!   c03.denotes                 the value read equals the value printed, the cursor rests behind its text
//!   c03.sequence                the i-th parse of a sequence gives the i-th value and rests behind the i-th text
//!   c03.decrypts                every case of c03.enc: the value read is the PLAINTEXT value (strings decrypted, everything else as printed),
//!                               id and generation as printed, the cursor right behind `endobj`; an AESV2 decoder on strings that are no
//!                               AES ciphertext: `Err`, never a panic (witness `failing-decryptor`)
//!   c03.restore                 after `Err` of parse_with_lexer the cursor is where the call started; after `Ok` it moved
//!                               forward and stays inside the buffer (every case of c03.cursor and c03.cursor.any)
//! The histogram of c03.render counts which layout freedoms of the syntax the renderings exercised (`freedom.*`).

#[path = "c03_render.rs"]
pub mod render;

use self::render::*;
use crate::driver::{hex, unhex, Driver};
use crate::report::*;
use crate::rng::Rng;
use pdf::crypt::{CryptDict, CryptMethod, Decoder};
use pdf::error::PdfError;
use pdf::object::{NoResolve, Object, ParseOptions, PlainRef, RcRef, Ref, Resolve};
use pdf::enc::StreamFilter;
use pdf::parser::{parse_indirect_object, parse_stream, parse_with_lexer, Context, HexStringLexer, Lexer, ParseFlags, StringLexer, Substr};
use pdf::primitive::Primitive;
use serde_json::{json, Value};
use std::cell::RefCell;
use std::ops::Range;
use std::panic::{catch_unwind, AssertUnwindSafe};
use std::sync::Arc;

// ---------------------------------------------------------------------------------------------------
// the resolver handed to the parser

pub type LenMap = Vec<((u64, u64), u64)>;

pub struct TestResolve {
    pub lens: LenMap,
    pub opts: ParseOptions,
    /// every `stream_data(id, range)` call (how the harness reads the private `StreamInner::InFile`)
    pub seen: RefCell<Vec<(PlainRef, Range<usize>)>>,
}

impl TestResolve {
    pub fn new(lens: &LenMap, tolerant: bool) -> TestResolve {
        TestResolve { lens: lens.clone(), opts: if tolerant { ParseOptions::tolerant() } else { ParseOptions::strict() }, seen: RefCell::new(vec![]) }
    }
}

impl Resolve for TestResolve {
    fn resolve_flags(&self, r: PlainRef, _flags: ParseFlags, _depth: usize) -> pdf::error::Result<Primitive> {
        match self.lens.iter().find(|e| e.0 == (r.id, r.gen)) {
            Some(e) => Ok(Primitive::Integer(e.1 as i32)),
            None => Err(PdfError::Reference),
        }
    }
    fn get<T: Object>(&self, _r: Ref<T>) -> pdf::error::Result<RcRef<T>> {
        Err(PdfError::Reference)
    }
    fn options(&self) -> &ParseOptions {
        &self.opts
    }
    fn stream_data(&self, id: PlainRef, range: Range<usize>) -> pdf::error::Result<Arc<[u8]>> {
        self.seen.borrow_mut().push((id, range));
        Ok(Arc::from(&[][..]))
    }
    fn get_data_or_decode(&self, _: PlainRef, _: Range<usize>, _: &[StreamFilter]) -> pdf::error::Result<Arc<[u8]>> {
        Err(PdfError::Reference)
    }
}

pub fn show_lens(l: &LenMap) -> String {
    if l.is_empty() {
        "-".into()
    } else {
        l.iter().map(|((i, g), n)| format!("{}.{}={}", i, g, n)).collect::<Vec<_>>().join(";")
    }
}

pub fn read_lens(s: &str) -> Option<LenMap> {
    if s == "-" {
        return Some(vec![]);
    }
    s.split(';')
        .map(|e| {
            let (k, v) = e.split_once('=')?;
            let (i, g) = k.split_once('.')?;
            Some(((i.parse().ok()?, g.parse().ok()?), v.parse().ok()?))
        })
        .collect()
}

// ---------------------------------------------------------------------------------------------------
// Primitive <-> Val

fn dict_to_entries(d: &pdf::primitive::Dictionary, res: &TestResolve) -> Vec<(Vec<u8>, Val)> {
    d.iter().map(|(k, v)| (k.as_str().as_bytes().to_vec(), prim_to_val(v, res))).collect()
}

/// the implementation's value in the harness notation (reals as `#bits`)
pub fn prim_to_val(p: &Primitive, res: &TestResolve) -> Val {
    match p {
        Primitive::Null => Val::Null,
        Primitive::Integer(i) => Val::Int(*i as i64),
        Primitive::Number(f) => Val::Real(format!("#{:08x}", f.to_bits())),
        Primitive::Boolean(b) => Val::Bool(*b),
        Primitive::String(s) => Val::Str(s.as_bytes().to_vec()),
        Primitive::Name(s) => Val::Name(s.as_str().as_bytes().to_vec()),
        Primitive::Reference(r) => Val::Ref(r.id, r.gen),
        Primitive::Array(xs) => Val::Arr(xs.iter().map(|x| prim_to_val(x, res)).collect()),
        Primitive::Dictionary(d) => Val::Dict(dict_to_entries(d, res)),
        Primitive::Stream(s) => {
            let info = dict_to_entries(&s.info, res);
            let before = res.seen.borrow().len();
            let data = s.raw_data(res);
            let after = res.seen.borrow().len();
            if after > before {
                let (id, range) = res.seen.borrow()[after - 1].clone();
                Val::StreamInFile(info, id.id, id.gen, range.start, range.end)
            } else {
                Val::StreamPending(info, data.map(|d| d.to_vec()).unwrap_or_default())
            }
        }
    }
}

/// a value of the harness as a `Primitive` (names must be UTF-8; `InFile` streams cannot be built: `None`)
pub fn val_to_prim(v: &Val) -> Option<Primitive> {
    Some(match v {
        Val::Null => Primitive::Null,
        Val::Int(i) => Primitive::Integer(i32::try_from(*i).ok()?),
        Val::Real(t) => Primitive::Number(f32::from_bits(real_bits(t)?)),
        Val::Bool(b) => Primitive::Boolean(*b),
        Val::Str(s) => Primitive::String(pdf::primitive::PdfString::new(s.as_slice().into())),
        Val::Name(s) => Primitive::Name(std::str::from_utf8(s).ok()?.into()),
        Val::Ref(i, g) => Primitive::Reference(PlainRef { id: *i, gen: *g }),
        Val::Arr(xs) => Primitive::Array(xs.iter().map(val_to_prim).collect::<Option<Vec<_>>>()?),
        Val::Dict(kvs) => Primitive::Dictionary(entries_to_dict(kvs)?),
        Val::StreamPending(info, data) => {
            let mut ps = pdf::object::Stream::<pdf::primitive::Dictionary>::new(pdf::primitive::Dictionary::new(), data.clone()).to_pdf_stream(&mut pdf::object::NoUpdate).ok()?;
            ps.info = entries_to_dict(info)?;
            Primitive::Stream(ps)
        }
        Val::StreamInFile(..) => return None,
    })
}

pub fn entries_to_dict(kvs: &[(Vec<u8>, Val)]) -> Option<pdf::primitive::Dictionary> {
    let mut d = pdf::primitive::Dictionary::new();
    for (k, v) in kvs {
        d.insert(std::str::from_utf8(k).ok()?, val_to_prim(v)?);
    }
    Some(d)
}

// ---------------------------------------------------------------------------------------------------
// value inspection

pub fn kind_name(v: &Val) -> &'static str {
    match v {
        Val::Null => "null",
        Val::Int(_) => "int",
        Val::Real(_) => "real",
        Val::Bool(_) => "bool",
        Val::Str(_) => "string",
        Val::Name(_) => "name",
        Val::Ref(..) => "ref",
        Val::Arr(_) => "array",
        Val::Dict(_) => "dict",
        Val::StreamPending(..) | Val::StreamInFile(..) => "stream",
    }
}

pub fn flag_of(v: &Val) -> u16 {
    match v {
        Val::Int(_) => 1,
        Val::StreamPending(..) | Val::StreamInFile(..) | Val::Dict(_) => 4,
        Val::Real(_) => 8,
        Val::Name(_) => 16,
        Val::Arr(_) => 32,
        Val::Str(_) => 64,
        Val::Bool(_) => 128,
        Val::Null => 256,
        Val::Ref(..) => 512,
    }
}

/// nesting of containers (0 for a scalar); parsing succeeds up to MAX_DEPTH = 20
pub fn nest(v: &Val) -> usize {
    match v {
        Val::Arr(xs) => 1 + xs.iter().map(nest).max().unwrap_or(0),
        Val::Dict(kvs) | Val::StreamPending(kvs, _) | Val::StreamInFile(kvs, ..) => 1 + kvs.iter().map(|(_, v)| nest(v)).max().unwrap_or(0),
        _ => 0,
    }
}

pub fn has_non_utf8_name(v: &Val) -> bool {
    let bad = |b: &Vec<u8>| std::str::from_utf8(b).is_err();
    match v {
        Val::Name(n) => bad(n),
        Val::Arr(xs) => xs.iter().any(has_non_utf8_name),
        Val::Dict(kvs) | Val::StreamPending(kvs, _) | Val::StreamInFile(kvs, ..) => kvs.iter().any(|(k, v)| bad(k) || has_non_utf8_name(v)),
        _ => false,
    }
}

pub fn count_kinds(v: &Val, f: &mut dyn FnMut(&str)) {
    f(kind_name(v));
    match v {
        Val::Arr(xs) => xs.iter().for_each(|x| count_kinds(x, f)),
        Val::Dict(kvs) | Val::StreamPending(kvs, _) | Val::StreamInFile(kvs, ..) => kvs.iter().for_each(|(_, v)| count_kinds(v, f)),
        _ => {}
    }
}

pub struct DiffCtx<'a> {
    /// `Integer` and `Number` of equal numeric value are the same (C04 round trip)
    pub identify_numbers: bool,
    /// where `InFile` ranges point (buffer, lexer file offset) and the id they must carry
    pub buf: &'a [u8],
    pub file_off: usize,
    pub id: Option<(u64, u64)>,
    /// string forms written by the printer (bytes, hex?) to name the construct
    pub forms: &'a [(Vec<u8>, bool)],
}

fn str_kind(s: &[u8], cx: &DiffCtx) -> String {
    let mut hexf = None;
    for (b, h) in cx.forms {
        if b == s {
            match hexf {
                None => hexf = Some(*h),
                Some(x) if x != *h => return "string".into(),
                _ => {}
            }
        }
    }
    match hexf {
        Some(true) => "string-hex".into(),
        Some(false) => "string-literal".into(),
        None => "string".into(),
    }
}

fn diff_entries(a: &[(Vec<u8>, Val)], b: &[(Vec<u8>, Val)], cx: &DiffCtx, what: &str) -> Option<String> {
    if a.len() != b.len() || a.iter().zip(b).any(|(x, y)| x.0 != y.0) {
        // a key that differs because a name was read differently is a name problem
        return Some(what.into());
    }
    for (x, y) in a.iter().zip(b) {
        if let Some(d) = diff_kind(&x.1, &y.1, cx) {
            return Some(d);
        }
    }
    None
}

/// kind of construct at the first difference between the expected and the obtained value
pub fn diff_kind(exp: &Val, got: &Val, cx: &DiffCtx) -> Option<String> {
    match (exp, got) {
        (Val::Null, Val::Null) => None,
        (Val::Int(a), Val::Int(b)) => if a == b { None } else { Some("int".into()) },
        (Val::Real(a), Val::Real(b)) => if real_bits(a).is_some() && real_bits(a) == real_bits(b) { None } else { Some("real".into()) },
        (Val::Int(a), Val::Real(b)) | (Val::Real(b), Val::Int(a)) if cx.identify_numbers => {
            match real_bits(b) {
                Some(bits) if f32::from_bits(bits) as f64 == *a as f64 => None,
                _ => Some(kind_name(exp).into()),
            }
        }
        (Val::Bool(a), Val::Bool(b)) => if a == b { None } else { Some("bool".into()) },
        (Val::Str(a), Val::Str(b)) => if a == b { None } else { Some(str_kind(a, cx)) },
        (Val::Name(a), Val::Name(b)) => if a == b { None } else { Some("name".into()) },
        (Val::Ref(a, b), Val::Ref(c, d)) => if a == c && b == d { None } else { Some("ref".into()) },
        (Val::Arr(a), Val::Arr(b)) => {
            if a.len() != b.len() {
                return Some("array".into());
            }
            a.iter().zip(b).find_map(|(x, y)| diff_kind(x, y, cx))
        }
        (Val::Dict(a), Val::Dict(b)) => diff_entries(a, b, cx, "dict"),
        (Val::StreamPending(ia, da), Val::StreamInFile(ib, id, gen, lo, hi)) => {
            if let Some(d) = diff_entries(ia, ib, cx, "stream") {
                return Some(d);
            }
            let ok_id = cx.id.map(|x| x == (*id, *gen)).unwrap_or(true);
            let ok_data = *lo >= cx.file_off && lo <= hi && hi - cx.file_off <= cx.buf.len() && &cx.buf[lo - cx.file_off..hi - cx.file_off] == da.as_slice();
            if ok_id && ok_data { None } else { Some("stream".into()) }
        }
        (Val::StreamPending(ia, da), Val::StreamPending(ib, db)) => {
            if let Some(d) = diff_entries(ia, ib, cx, "stream") {
                return Some(d);
            }
            if da == db { None } else { Some("stream".into()) }
        }
        (Val::Str(a), _) => Some(str_kind(a, cx)),
        _ => Some(kind_name(exp).into()),
    }
}

// ---------------------------------------------------------------------------------------------------
// the implementation side of every request kind

fn guard(f: impl FnOnce() -> String) -> String {
    catch_unwind(AssertUnwindSafe(f)).unwrap_or_else(|_| "panic".into())
}

fn lexer_at(buf: &[u8], pos: usize, off: usize) -> Lexer<'_> {
    let mut lx = if off == 0 { Lexer::new(buf) } else { Lexer::with_offset(buf, off) };
    lx.set_pos(pos);
    lx
}

fn range_of(s: &Substr) -> (usize, usize) {
    let r = s.file_range();
    (r.start, r.end)
}

pub fn imp_word(buf: &[u8], pos: usize) -> String {
    guard(|| {
        let mut lx = lexer_at(buf, pos, 0);
        match lx.next() {
            Ok(s) => {
                let (a, b) = range_of(&s);
                if lx.get_pos() == b { format!("ok {} {}", a, b) } else { format!("ok {} {} cursor={}", a, b, lx.get_pos()) }
            }
            Err(_) => "err".into(),
        }
    })
}

pub fn imp_lexop(op: &str, buf: &[u8], pos: usize, arg: &str) -> String {
    guard(|| {
        let mut lx = lexer_at(buf, pos, 0);
        match op {
            "c03.peek" => match lx.peek() {
                Ok(s) => {
                    let (a, b) = range_of(&s);
                    if lx.get_pos() == pos { format!("ok {} {}", a, b) } else { format!("ok {} {} cursor-moved", a, b) }
                }
                Err(_) => "err".into(),
            },
            "c03.back" => match lx.back() {
                Ok(s) => {
                    let (a, b) = range_of(&s);
                    if lx.get_pos() == a { format!("ok {} {}", a, b) } else { format!("ok {} {} cursor={}", a, b, lx.get_pos()) }
                }
                Err(_) => "err".into(),
            },
            "c03.expect" => {
                let w = unhex(arg).unwrap_or_default();
                let word: &'static str = match w.as_slice() {
                    b"obj" => "obj",
                    b"endobj" => "endobj",
                    b"endstream" => "endstream",
                    b"R" => "R",
                    b"stream" => "stream",
                    _ => return "unsupported-word".into(),
                };
                match lx.next_expect(word) {
                    Ok(()) => format!("ok {}", lx.get_pos()),
                    Err(_) => "err".into(),
                }
            }
            "c03.nextstream" => match lx.next_stream() {
                Ok(()) => format!("ok {}", lx.get_pos()),
                Err(_) => "err".into(),
            },
            "c03.readn" => {
                let n: usize = arg.parse().unwrap();
                let s = lx.read_n(n);
                let (a, b) = range_of(&s);
                format!("ok {} {} {}", a, b, lx.get_pos())
            }
            "c03.setpos" => {
                let n: usize = arg.parse().unwrap();
                lx.set_pos(n);
                format!("ok {}", lx.get_pos())
            }
            "c03.offsetpos" => {
                let n: usize = arg.parse().unwrap();
                lx.offset_pos(n);
                format!("ok {}", lx.get_pos())
            }
            _ => "unsupported".into(),
        }
    })
}

/// the five observations of one byte
pub fn imp_class(x: u8) -> String {
    guard(|| {
        // white-space / delimiter through the public lexer: `a x b`
        // (`c` on a second line: a comment started by x runs to the end of the line)
        let probe = [b'a', x, b'b', b'\n', b'c'];
        let mut lx = Lexer::new(&probe);
        let first = lx.next().ok().map(|s| range_of(&s));
        let second = lx.next().ok().map(|s| range_of(&s));
        let ws = first == Some((0, 1)) && second == Some((2, 3));
        let delim = first == Some((0, 1)) && !ws;
        // hex white-space: `4 x 1 >` reads as the one byte 0x41
        let hp = [b'4', x, b'1', b'>'];
        let mut hl = HexStringLexer::new(&hp);
        let hb: Result<Vec<u8>, _> = hl.iter().collect();
        let hexws = matches!(hb, Ok(ref v) if v.as_slice() == [0x41]);
        // octal digit: `\ x )` reads as the byte x - '0'
        let op = [b'\\', x, b')'];
        let mut sl = StringLexer::new(&op);
        let ob: Result<Vec<u8>, _> = sl.iter().collect();
        let octal = x >= 48 && matches!(ob, Ok(ref v) if v.as_slice() == [x - 48]);
        let nib = match pdf::enc::decode_nibble(x) {
            Some(v) => v.to_string(),
            None => "-".into(),
        };
        // hex digit: `x 1 >` reads as one byte with low nibble 1 (white-space x would give 0x10)
        let dp = [x, b'1', b'>'];
        let mut dl = HexStringLexer::new(&dp);
        let db: Result<Vec<u8>, _> = dl.iter().collect();
        let hd = match db {
            Ok(ref v) if v.len() == 1 && v[0] & 15 == 1 => (v[0] >> 4).to_string(),
            _ => "-".into(),
        };
        let b = |x: bool| if x { '1' } else { '0' };
        format!("{}{}{}{} {} {}", b(ws), b(delim), b(hexws), b(octal), nib, hd)
    })
}

pub fn tok_is_plain(tok: &[u8]) -> bool {
    tok.iter().all(|&b| is_regular(b))
}

/// `<isint> <real|none> <i32|none> <u64|none> [<name|err>]` (the name only for tokens without
/// white-space / delimiters, which is what a name token can contain)
pub fn imp_tok(tok: &[u8]) -> String {
    guard(|| {
        let s = Substr::new(tok, 0);
        let isint = if s.is_integer() { "1" } else { "0" };
        let real = match s.real_number() {
            Some(r) => hex(r.as_slice()),
            None => "none".into(),
        };
        let i = s.to::<i32>().map(|x| x.to_string()).unwrap_or_else(|_| "none".into());
        let u = s.to::<u64>().map(|x| x.to_string()).unwrap_or_else(|_| "none".into());
        let mut out = format!("{} {} {} {}", isint, real, i, u);
        if tok_is_plain(tok) {
            let mut nb = vec![b'/'];
            nb.extend_from_slice(tok);
            let res = TestResolve::new(&vec![], false);
            match pdf::parser::parse(&nb, &res, ParseFlags::NAME) {
                Ok(Primitive::Name(n)) => out.push_str(&format!(" {}", hex(n.as_str().as_bytes()))),
                Ok(_) => out.push_str(" not-a-name"),
                Err(_) => out.push_str(" err"),
            }
        }
        out
    })
}

pub fn imp_litstr(buf: &[u8], pos: usize) -> String {
    guard(|| {
        let mut sl = StringLexer::new(&buf[pos..]);
        let mut out = vec![];
        for c in sl.iter() {
            match c {
                Ok(b) => out.push(b),
                Err(_) => return "err".into(),
            }
        }
        format!("ok {} {}", hex(&out), pos + sl.get_offset())
    })
}

pub fn imp_hexstr(buf: &[u8], pos: usize) -> String {
    guard(|| {
        let mut sl = HexStringLexer::new(&buf[pos..]);
        let mut out = vec![];
        for c in sl.iter() {
            match c {
                Ok(b) => out.push(b),
                Err(_) => return "err".into(),
            }
        }
        format!("ok {} {}", hex(&out), pos + sl.get_offset())
    })
}

pub struct Parsed {
    /// canonical outcome: `ok [<id>.<gen>] <value> <pos>` (`stm`: no position) / `err` / `panic`
    pub text: String,
    pub id: Option<(u64, u64)>,
    pub val: Option<Val>,
    pub pos: usize,
}

/// runs the real parser the way `c03.parse <mode> …` describes
pub fn imp_parse(mode: &str, buf: &[u8], pos: usize, flags: u16, off: usize, lens: &LenMap, ctx_id: Option<(u64, u64)>) -> Parsed {
    let r = catch_unwind(AssertUnwindSafe(|| {
        let fl = ParseFlags::from_bits_truncate(flags);
        match mode {
            "plain" => {
                let res = TestResolve::new(lens, false);
                let mut lx = lexer_at(buf, pos, off);
                match parse_with_lexer(&mut lx, &res, fl) {
                    Ok(p) => {
                        let v = prim_to_val(&p, &res);
                        Parsed { text: format!("ok {} {}", show_canon(&v), lx.get_pos()), id: None, val: Some(v), pos: lx.get_pos() }
                    }
                    Err(_) => Parsed { text: "err".into(), id: None, val: None, pos: lx.get_pos() },
                }
            }
            "ind0" | "ind1" => parse_ind(mode, buf, pos, fl, off, lens, None),
            "stm" => {
                let res = TestResolve::new(lens, false);
                let id = ctx_id.unwrap_or((0, 0));
                let ctx = Context { decoder: None, id: PlainRef { id: id.0, gen: id.1 } };
                match parse_stream(&buf[pos..], &res, &ctx) {
                    Ok(ps) => {
                        let v = prim_to_val(&Primitive::Stream(ps), &res);
                        Parsed { text: format!("ok {}", show_canon(&v)), id: Some(id), val: Some(v), pos: 0 }
                    }
                    Err(_) => Parsed { text: "err".into(), id: None, val: None, pos: 0 },
                }
            }
            _ => Parsed { text: "unsupported-mode".into(), id: None, val: None, pos: 0 },
        }
    }));
    r.unwrap_or_else(|_| Parsed { text: "panic".into(), id: None, val: None, pos: 0 })
}

/// `parse_indirect_object` (strict for `ind0`, tolerant for `ind1`), with or without a decoder
fn parse_ind(mode: &str, buf: &[u8], pos: usize, fl: ParseFlags, off: usize, lens: &LenMap, dec: Option<&Decoder>) -> Parsed {
    let res = TestResolve::new(lens, mode == "ind1");
    let mut lx = lexer_at(buf, pos, off);
    match parse_indirect_object(&mut lx, &res, dec, fl) {
        Ok((id, p)) => {
            let v = prim_to_val(&p, &res);
            Parsed { text: format!("ok {}.{} {} {}", id.id, id.gen, show_canon(&v), lx.get_pos()), id: Some((id.id, id.gen)), val: Some(v), pos: lx.get_pos() }
        }
        Err(_) => Parsed { text: "err".into(), id: None, val: None, pos: lx.get_pos() },
    }
}

/// runs the real `parse_indirect_object` with the decoder `dec` the way `c03.parsedec ind0|ind1 …` describes
pub fn imp_parse_dec(mode: &str, buf: &[u8], pos: usize, flags: u16, off: usize, lens: &LenMap, dec: &Decoder) -> Parsed {
    if mode != "ind0" && mode != "ind1" {
        return Parsed { text: "unsupported-mode".into(), id: None, val: None, pos: 0 };
    }
    catch_unwind(AssertUnwindSafe(|| parse_ind(mode, buf, pos, ParseFlags::from_bits_truncate(flags), off, lens, Some(dec))))
        .unwrap_or_else(|_| Parsed { text: "panic".into(), id: None, val: None, pos: 0 })
}

/// the request line the driver understands: a recorded `c03.parsedec` request without its `fk=` field
pub fn driver_line(req: &str) -> String {
    match req.rsplit_once(' ') {
        Some((head, last)) if req.starts_with("c03.parsedec ") && last.starts_with("fk=") => head.to_string(),
        _ => req.to_string(),
    }
}

/// the model's answer to `c03.parse` in the canonical form of `imp_parse`
pub fn canon_parse_answer(mode: &str, ans: &str) -> String {
    let f: Vec<&str> = ans.split(' ').collect();
    if f.first() != Some(&"ok") {
        return ans.to_string();
    }
    let canon = |s: &str| match read_val(s) {
        Some(v) => show_canon(&v),
        None => format!("unreadable:{}", s),
    };
    match (mode, f.len()) {
        ("plain", 3) => format!("ok {} {}", canon(f[1]), f[2]),
        // the cursor of `parse_stream` cannot be observed through the public API
        ("stm", 3) => format!("ok {}", canon(f[1])),
        ("ind0", 4) | ("ind1", 4) => format!("ok {} {} {}", f[1], canon(f[2]), f[3]),
        _ => format!("malformed:{}", ans),
    }
}

pub fn parse_request(mode: &str, buf: &[u8], pos: usize, flags: u16, off: usize, lens: &LenMap, ctx_id: Option<(u64, u64)>) -> String {
    let mut s = format!("c03.parse {} {} {} {} {} {}", mode, hex(buf), pos, flags, off, show_lens(lens));
    if let Some((i, g)) = ctx_id {
        s.push_str(&format!(" {}.{}", i, g));
    }
    s
}

/// twin printer for a `c03.render …` request
pub fn imp_render(f: &[&str]) -> String {
    guard(|| {
        let go = || -> Option<String> {
            let v = read_val(f.get(2)?)?;
            let mut t = Tape::fixed(read_tape(f.get(3)?)?);
            let tail = unhex(f.get(4)?)?;
            Some(match *f.get(1)? {
                "val" => hex(&render_with_tail(&v, &tail, &mut t).0),
                "ind" => hex(&render_indirect(f.get(5)?.parse().ok()?, f.get(6)?.parse().ok()?, &v, &tail, &mut t).bytes),
                "seq" => match v {
                    Val::Arr(vs) => hex(&render_seq(&vs, &tail, &mut t).0),
                    _ => return None,
                },
                _ => return None,
            })
        };
        go().unwrap_or_else(|| "bad-request".into())
    })
}

/// (model answer in comparable form, implementation answer) for a request line — used by the streams
/// and by the replay of a stored disagreement
pub fn both_sides(req: &str, model: &str) -> (String, String) {
    let f: Vec<&str> = req.split(' ').collect();
    let bytes = |i: usize| f.get(i).and_then(|s| unhex(s)).unwrap_or_default();
    let num = |i: usize| f.get(i).and_then(|s| s.parse::<usize>().ok()).unwrap_or(0);
    match f[0] {
        "c03.word" => (model.to_string(), imp_word(&bytes(1), num(2))),
        "c03.peek" | "c03.back" | "c03.nextstream" => (model.to_string(), imp_lexop(f[0], &bytes(1), num(2), "")),
        "c03.expect" | "c03.readn" | "c03.setpos" | "c03.offsetpos" => (model.to_string(), imp_lexop(f[0], &bytes(1), num(2), f.get(3).unwrap_or(&""))),
        "c03.class" => (model.to_string(), imp_class(num(1) as u8)),
        "c03.tok" => {
            let tok = bytes(1);
            let m = if tok_is_plain(&tok) { model.to_string() } else { model.rsplitn(2, ' ').last().unwrap_or("").to_string() };
            (m, imp_tok(&tok))
        }
        "c03.utf8" => (model.to_string(), if std::str::from_utf8(&bytes(1)).is_ok() { "1".into() } else { "0".into() }),
        "c03.floattext" => {
            let b = bytes(1);
            let ok = std::str::from_utf8(&b).map(|s| s.parse::<f32>().is_ok()).unwrap_or(false);
            (model.to_string(), if ok { "1".into() } else { "0".into() })
        }
        "c03.litstr" => (model.to_string(), imp_litstr(&bytes(1), num(2))),
        "c03.hexstr" => (model.to_string(), imp_hexstr(&bytes(1), num(2))),
        "c03.render" => (model.to_string(), imp_render(&f)),
        "c03.parse" => {
            let mode = f.get(1).copied().unwrap_or("");
            let lens = f.get(6).and_then(|s| read_lens(s)).unwrap_or_default();
            let ctx = f.get(7).and_then(|s| s.split_once('.')).and_then(|(a, b)| Some((a.parse().ok()?, b.parse().ok()?)));
            let p = imp_parse(mode, &bytes(2), num(3), num(4) as u16, num(5), &lens, ctx);
            (canon_parse_answer(mode, model), p.text)
        }
        "c03.parsedec" => {
            // the recorded form: `c03.parsedec <mode> <buf> <pos> <flags> <off> <lens> <objkey> fk=<file key>`
            let mode = f.get(1).copied().unwrap_or("");
            let lens = f.get(6).and_then(|s| read_lens(s)).unwrap_or_default();
            let imp = match f.get(8).and_then(|s| s.strip_prefix("fk=")).and_then(unhex) {
                Some(fk) if !fk.is_empty() => {
                    let n = fk.len();
                    let dec = Decoder::new(fk, n, CryptMethod::V2, true);
                    imp_parse_dec(mode, &bytes(2), num(3), num(4) as u16, num(5), &lens, &dec).text
                }
                _ => "file-key-missing".into(),
            };
            (canon_parse_answer(mode, model), imp)
        }
        "c03.parsec" => {
            let lens = f.get(5).and_then(|s| read_lens(s)).unwrap_or_default();
            (canon_parsec_answer(model), imp_parsec(&bytes(1), num(2), num(3) as u16, num(4), &lens).text)
        }
        "c03.tails" => (sorted_list(model), own_tails()),
        _ => (model.to_string(), "unsupported-request".into()),
    }
}

// ---------------------------------------------------------------------------------------------------
// value generator (shared with C04)

#[derive(Clone, Copy)]
pub struct GenCfg {
    /// per cent of names that are not UTF-8 (C03: 2, C04: 0 — a `Name` is a `str`)
    pub bad_name_pct: u64,
    /// names drawn from every Unicode plane, with U+0000 (C04 totality)
    pub wild_names: bool,
}

/// exactly `Spec/Render.tails` (stream `c03.tails`); none of them turns an integer before it into a reference
pub const TAILS: [&[u8]; 13] = [b"", b" ", b"\n", b"]", b">>", b"/X", b"(x)", b"<41>", b"[", b"endobj", b"% c\n", b" 1 0 obj", b"true"];

pub fn gen_f32(rng: &mut Rng) -> f32 {
    loop {
        let f = match rng.below(16) {
            0..=4 => f32::from_bits(rng.next() as u32),
            5 | 6 => (rng.range(-100000, 100000) as f32) / ((1u32 << rng.below(12)) as f32),
            7 | 8 => rng.range(-100000, 100000) as f32,
            9 => *rng.pick(&[0.0f32, -0.0, 1.0, -1.0, 0.5, 0.1, 5.0, 1e-7]),
            10 => f32::from_bits(rng.below(0x0080_0000) as u32 | if rng.chance(1, 2) { 0x8000_0000 } else { 0 }),
            11 => *rng.pick(&[2147483648.0f32, -2147483648.0, 4294967296.0, 1e10, -1e10, 16777216.0, 16777217.0]),
            12 => *rng.pick(&[f32::MAX, f32::MIN, f32::MIN_POSITIVE, 1e-38, -1e-38, 1e-45, f32::EPSILON]),
            13 => (rng.range(-999, 999) as f32) / 100.0,
            14 => (rng.range(-2147483648, 2147483647) as f32) * 3.0,
            _ => f32::from_bits(0x3f80_0000u32.wrapping_add(rng.below(64) as u32).wrapping_sub(32)),
        };
        if f.is_finite() {
            return f;
        }
    }
}

pub fn real_val(f: f32) -> Val {
    Val::Real(format!("{}", f))
}

pub fn gen_int(rng: &mut Rng) -> i64 {
    match rng.below(10) {
        0 => 0,
        1 => *rng.pick(&[1i64, -1]),
        2 => *rng.pick(&[i32::MAX as i64, i32::MIN as i64, i32::MAX as i64 - 1, i32::MIN as i64 + 1]),
        3..=5 => rng.range(-1000, 1000),
        _ => rng.range(i32::MIN as i64, i32::MAX as i64),
    }
}

pub fn gen_string(rng: &mut Rng) -> Vec<u8> {
    let n = rng.usize(13);
    (0..n)
        .map(|_| match rng.below(10) {
            0..=2 => *rng.pick(b"()\\\r\n"),
            3 => *rng.pick(b"0123456789"),
            4 => 0x80 | rng.byte(),
            5 => *rng.pick(b"nrtbf \t\x08\x0c\x00"),
            6 | 7 => b'a' + rng.below(26) as u8,
            _ => rng.byte(),
        })
        .collect()
}

/// strings whose spellings exercise the layout freedoms that proved fragile in other readers: parentheses nested
/// several levels deep (`((()))`, `a(b(c(d)e)f)g`), small bytes directly before the digits 8, 9 and 0-7 (short
/// octal escapes before a digit)
pub fn gen_fragile_string(rng: &mut Rng) -> Vec<u8> {
    fn nested(rng: &mut Rng, depth: usize, out: &mut Vec<u8>) {
        let letters = rng.chance(1, 2);
        if letters { out.push(b'a' + rng.below(26) as u8); }
        if depth > 0 {
            for _ in 0..(1 + rng.usize(2)) {
                out.push(b'(');
                nested(rng, depth - 1, out);
                out.push(b')');
                if out.len() > 40 { break; }
            }
        }
        if letters && rng.chance(1, 2) { out.push(b'a' + rng.below(26) as u8); }
    }
    let mut out = vec![];
    match rng.below(6) {
        0 => { let d = 1 + rng.usize(5); out.extend(std::iter::repeat(b'(').take(d)); out.extend(std::iter::repeat(b')').take(d)); }
        1 | 2 => { let d = 1 + rng.usize(4); nested(rng, d, &mut out); }
        3 | 4 => {
            // (byte, digit) pairs: the byte is small (one or two octal digits suffice) most of the time
            for _ in 0..(1 + rng.usize(5)) {
                out.push(match rng.below(4) { 0 => rng.below(8) as u8, 1 | 2 => rng.below(64) as u8, _ => rng.byte() });
                out.push(*rng.pick(b"8989012345670"));
            }
        }
        _ => {
            let d = 1 + rng.usize(3);
            nested(rng, d, &mut out);
            let at = rng.usize(out.len() + 1);
            out.insert(at, *rng.pick(b"89"));
            out.insert(at, rng.below(64) as u8);
        }
    }
    out
}

/// replaces about one string in five of `v` by a `gen_fragile_string` (C03 only: the generator proper is shared with C04)
pub fn add_fragile_strings(rng: &mut Rng, v: &mut Val) {
    match v {
        Val::Str(s) => if rng.chance(1, 5) { *s = gen_fragile_string(rng); },
        Val::Arr(xs) => xs.iter_mut().for_each(|x| add_fragile_strings(rng, x)),
        Val::Dict(kvs) | Val::StreamPending(kvs, _) | Val::StreamInFile(kvs, ..) => kvs.iter_mut().for_each(|(_, x)| add_fragile_strings(rng, x)),
        _ => {}
    }
}

pub fn gen_name(rng: &mut Rng, cfg: &GenCfg) -> Vec<u8> {
    let n = rng.usize(9);
    if rng.below(100) < cfg.bad_name_pct {
        // not UTF-8: a lone lead / continuation byte somewhere
        let mut v: Vec<u8> = (0..n).map(|_| b'A' + rng.below(26) as u8).collect();
        let at = rng.usize(v.len() + 1);
        v.insert(at, *rng.pick(&[0xffu8, 0x80, 0xc3, 0xe2, 0xc0, 0xf5, 0xbf]));
        if std::str::from_utf8(&v).is_err() {
            return v;
        }
    }
    let mut s = String::new();
    for _ in 0..n {
        match rng.below(if cfg.wild_names { 14 } else { 12 }) {
            0..=6 => s.push((b'A' + rng.below(58) as u8) as char), // letters and [ \ ] ^ _ `
            7 => s.push(*rng.pick(&['(', ')', '<', '>', '[', ']', '{', '}', '/', '%'])),
            8 => s.push(*rng.pick(&[' ', '\t', '\n', '\r', '\x0c', '#', '#'])),
            9 => s.push(*rng.pick(&['é', 'ß', '€', '中', '\u{1F600}', '\u{7f}', '\u{80}', '\u{7ff}', '\u{800}', '\u{ffff}', '\u{10000}', '\u{10ffff}'])),
            10 => s.push((b'0' + rng.below(10) as u8) as char),
            11 => s.push(*rng.pick(&['!', '~', '.', '-', '+', '*', '"', '\''])),
            12 => s.push(char::from_u32(rng.below(0x110000) as u32).unwrap_or('\u{0}')),
            _ => s.push(*rng.pick(&['\u{0}', '\u{1}', '\u{1f}', '\u{d7ff}', '\u{e000}', '\u{fffd}', '\u{1ffff}', '\u{e0001}', '\u{100000}'])),
        }
    }
    s.into_bytes()
}

pub fn gen_scalar(rng: &mut Rng, cfg: &GenCfg) -> Val {
    match rng.below(16) {
        0 => Val::Null,
        1 => Val::Bool(rng.chance(1, 2)),
        2..=4 => Val::Int(gen_int(rng)),
        5..=7 => real_val(gen_f32(rng)),
        8..=10 => Val::Str(gen_string(rng)),
        11..=13 => Val::Name(gen_name(rng, cfg)),
        _ => {
            let id = if rng.chance(1, 12) { *rng.pick(&[u64::MAX, u64::MAX - 1, u32::MAX as u64 + 1, i64::MAX as u64]) } else { rng.below(100000) };
            let gen = if rng.chance(1, 20) { *rng.pick(&[65535u64, 65536, u64::MAX]) } else { rng.below(3) };
            Val::Ref(id, gen)
        }
    }
}

pub fn gen_entries(rng: &mut Rng, depth: usize, cfg: &GenCfg, n: usize) -> Vec<(Vec<u8>, Val)> {
    let mut kvs: Vec<(Vec<u8>, Val)> = vec![];
    for _ in 0..n {
        let k = gen_name(rng, cfg);
        if kvs.iter().any(|e| e.0 == k) {
            continue;
        }
        kvs.push((k, gen_val(rng, depth + 1, cfg)));
    }
    kvs
}

/// a value; containers get rarer with the depth, none below depth 4
pub fn gen_val(rng: &mut Rng, depth: usize, cfg: &GenCfg) -> Val {
    let p = [45u64, 30, 20, 10, 0];
    if depth < 4 && rng.below(100) < p[depth] {
        let n = rng.usize(6);
        if rng.chance(1, 2) {
            Val::Arr((0..n).map(|_| gen_val(rng, depth + 1, cfg)).collect())
        } else {
            Val::Dict(gen_entries(rng, depth, cfg, n))
        }
    } else {
        gen_scalar(rng, cfg)
    }
}

/// `levels` containers inside each other around a scalar (some with siblings)
pub fn gen_deep(rng: &mut Rng, levels: usize, cfg: &GenCfg) -> Val {
    let mut v = gen_scalar(rng, cfg);
    for _ in 0..levels {
        let sib = rng.chance(1, 3);
        v = if rng.chance(1, 2) {
            let mut xs = vec![];
            if sib { xs.push(gen_scalar(rng, cfg)); }
            xs.push(v);
            if sib && rng.chance(1, 2) { xs.push(gen_scalar(rng, cfg)); }
            Val::Arr(xs)
        } else {
            let mut kvs = vec![];
            if sib { kvs.push((b"S".to_vec(), gen_scalar(rng, cfg))); }
            kvs.push((b"K".to_vec(), v));
            Val::Dict(kvs)
        };
    }
    v
}

pub fn gen_stream_data(rng: &mut Rng) -> Vec<u8> {
    match rng.below(6) {
        0 => vec![],
        1 => b"endstream".to_vec(),
        2 => { let mut d = rng.bytes(5); d.extend_from_slice(b"\nendstream\nendobj\n"); d.extend(rng.bytes(3)); d }
        3 => b"abc".to_vec(),
        _ => { let n = rng.usize(40); rng.bytes(n) }
    }
}

/// a `Pending` stream whose `/Length` is right: direct, or a reference answered by the returned map
pub fn gen_stream(rng: &mut Rng, cfg: &GenCfg, allow_indirect_len: bool) -> (Val, LenMap) {
    let data = gen_stream_data(rng);
    let mut lens = vec![];
    let lv = if allow_indirect_len && rng.chance(1, 3) {
        let id = (1 + rng.below(500), rng.below(2));
        lens.push((id, data.len() as u64));
        if rng.chance(1, 2) { lens.insert(0, ((id.0 + 1, 0), 7)); }
        Val::Ref(id.0, id.1)
    } else {
        Val::Int(data.len() as i64)
    };
    let n = rng.usize(4);
    let mut kvs: Vec<(Vec<u8>, Val)> = gen_entries(rng, 1, cfg, n).into_iter().filter(|e| e.0 != b"Length").collect();
    let at = rng.usize(kvs.len() + 1);
    kvs.insert(at, (b"Length".to_vec(), lv));
    (Val::StreamPending(kvs, data), lens)
}

// ---------------------------------------------------------------------------------------------------
// simple streams

/// asks the model, runs the implementation, records every case
fn compare(driver: &Driver, st: &mut Stream, reqs: &[String]) {
    for chunk in reqs.chunks(200_000) {
        let resp = driver.ask(chunk);
        for (rq, m) in chunk.iter().zip(resp.iter()) {
            let (m, i) = both_sides(rq, m);
            st.count(&format!("outcome={}", m.split(' ').next().unwrap_or("")));
            st.case(rq, &m, &i, true);
        }
    }
}

fn class_streams(driver: &Driver) -> Vec<Stream> {
    let mut st = Stream::new("c03.class", true);
    st.exhaustive = true;
    let mut drift = Stream::new("c03.class.drift", false);
    drift.exhaustive = true;
    let reqs: Vec<String> = (0..256).map(|x| format!("c03.class {}", x)).collect();
    let resp = driver.ask(&reqs);
    for (x, (rq, m)) in reqs.iter().zip(resp.iter()).enumerate() {
        let i = imp_class(x as u8);
        if b"ghGH".contains(&(x as u8)) {
            // `decode_nibble` of g, h, G, H (values 16, 17) belongs to another package: drift only
            drift.case(rq, m, &i, true);
            let strip = |s: &str| { let f: Vec<&str> = s.split(' ').collect(); if f.len() == 3 { format!("{} * {}", f[0], f[2]) } else { s.to_string() } };
            st.case(rq, &strip(m), &strip(&i), true);
        } else {
            st.case(rq, m, &i, true);
        }
        st.count(&format!("class={}", m.split(' ').next().unwrap_or("")));
    }
    vec![st, drift]
}

const ALPHABET24: [u8; 24] = [0, 9, 10, 12, 13, 32, b'(', b')', b'<', b'>', b'[', b']', b'{', b'}', b'/', b'%', b'a', b'1', b'-', b'+', b'.', b'#', b'\\', 0x80];

fn word_streams(driver: &Driver, thorough: bool) -> Vec<Stream> {
    let mut ex = Stream::new("c03.word.exhaustive", true);
    ex.exhaustive = true;
    let mut eof = Stream::new("c03.word.eof", false);
    eof.exhaustive = true;
    let mut bufs: Vec<Vec<u8>> = vec![vec![]];
    for a in 0..=255u8 {
        bufs.push(vec![a]);
    }
    for a in 0..=255u8 {
        for b in 0..=255u8 {
            bufs.push(vec![a, b]);
        }
    }
    if thorough {
        for &a in &ALPHABET24 {
            for &b in &ALPHABET24 {
                for &c in &ALPHABET24 {
                    bufs.push(vec![a, b, c]);
                }
            }
        }
    }
    let mut reqs = vec![];
    for b in &bufs {
        for p in 0..=b.len() {
            reqs.push(format!("c03.word {} {}", hex(b), p));
        }
    }
    for chunk in reqs.chunks(200_000) {
        let resp = driver.ask(chunk);
        for (rq, m) in chunk.iter().zip(resp.iter()) {
            let (m, i) = both_sides(rq, m);
            let st = if m.starts_with("ok") { &mut ex } else { &mut eof };
            st.count(&format!("outcome={}", m.split(' ').next().unwrap_or("")));
            st.case(rq, &m, &i, true);
        }
    }
    vec![ex, eof]
}

const SOUP: [&[u8]; 40] = [
    b" ", b"\n", b"\r", b"\r\n", b"\t", b"\x0c", b"\x00", b"% c\n", b"%\r", b"%x", b"obj", b"endobj", b"stream", b"stream\n", b"stream\r\n",
    b"stream\r", b"endstream", b"R", b"<<", b">>", b"<", b">", b"[", b"]", b"(", b")", b"{", b"}", b"/", b"/Name", b"12", b"-3", b"4.5", b"+",
    b"true", b"null", b"abc", b"\xff", b"#", b"\\",
];

pub fn gen_soup(rng: &mut Rng, max: usize) -> Vec<u8> {
    let mut b = vec![];
    let n = rng.usize(10);
    for _ in 0..n {
        let p = *rng.pick(&SOUP);
        if b.len() + p.len() > max {
            break;
        }
        b.extend_from_slice(p);
    }
    b
}

fn lexops_stream(driver: &Driver, seed: u64, n: u64) -> Stream {
    let mut st = Stream::new("c03.lexops", false);
    let mut reqs = vec![];
    for case in 0..n {
        let mut rng = Rng::derive(seed, "c03.lexops", case);
        let buf = gen_soup(&mut rng, 40);
        let pos = rng.usize(buf.len() + 1);
        let h = hex(&buf);
        let rem = buf.len() - pos;
        let rq = match rng.below(8) {
            0 => format!("c03.peek {} {}", h, pos),
            1 => format!("c03.back {} {}", h, pos),
            2 | 3 => format!("c03.expect {} {} {}", h, pos, hex(*rng.pick(&[&b"obj"[..], b"endobj", b"endstream", b"R"]))),
            4 => format!("c03.nextstream {} {}", h, pos),
            5 => {
                let n = match rng.below(6) { 0 => rem, 1 => rem + 1, 2 => rem.saturating_sub(1), 3 => rng.usize(4), 4 => *rng.pick(&[usize::MAX, usize::MAX - pos, (usize::MAX - pos).wrapping_add(1), 50]), _ => rng.usize(60) };
                format!("c03.readn {} {} {}", h, pos, n)
            }
            6 => {
                let w = match rng.below(4) { 0 => buf.len(), 1 => buf.len() + 1 + rng.usize(5), 2 => *rng.pick(&[usize::MAX, 0]), _ => rng.usize(buf.len() + 1) };
                format!("c03.setpos {} {} {}", h, pos, w)
            }
            _ => {
                let o = match rng.below(5) { 0 => rem, 1 => rem + 1 + rng.usize(5), 2 => *rng.pick(&[usize::MAX, usize::MAX - pos, (usize::MAX - pos).wrapping_add(1)]), 3 => 0, _ => rng.usize(rem + 1) };
                format!("c03.offsetpos {} {} {}", h, pos, o)
            }
        };
        st.count(&format!("op={}", rq.split(' ').next().unwrap_or("")));
        reqs.push(rq);
    }
    compare(driver, &mut st, &reqs);
    st
}

/// `[+-]?(d+ | d+.d* | .d+)`
pub fn conformant_number(t: &[u8]) -> bool {
    let b = match t.first() { Some(b'+') | Some(b'-') => &t[1..], _ => t };
    let (ip, fp) = match b.iter().position(|&c| c == b'.') { Some(i) => (&b[..i], Some(&b[i + 1..])), None => (b, None) };
    let dig = |s: &[u8]| s.iter().all(|c| c.is_ascii_digit());
    dig(ip) && fp.map(dig).unwrap_or(true) && !(ip.is_empty() && fp.map(|f| f.is_empty()).unwrap_or(true))
}

/// regular characters only, every `#` followed by two hexadecimal digits
pub fn conformant_name_body(t: &[u8]) -> bool {
    let mut i = 0;
    while i < t.len() {
        if !is_regular(t[i]) { return false; }
        if t[i] == b'#' {
            if i + 2 >= t.len() { return false; }
            if !(t[i + 1].is_ascii_hexdigit() && t[i + 2].is_ascii_hexdigit()) { return false; }
            i += 3;
        } else {
            i += 1;
        }
    }
    true
}

fn tok_streams(driver: &Driver, seed: u64, n: u64) -> Vec<Stream> {
    let mut good = Stream::new("c03.tok", true);
    let mut junk = Stream::new("c03.tok.junk", false);
    let mut toks: Vec<Vec<u8>> = vec![];
    let sym = b"+-.0159#aAfFgG/";
    for &a in sym { toks.push(vec![a]); for &b in sym { toks.push(vec![a, b]); } }
    for t in ["2147483647", "2147483648", "-2147483648", "-2147483649", "+2147483647", "+2147483648", "18446744073709551615", "18446744073709551616",
              "+18446744073709551615", "-0", "+0", "00", "007", "-007", "+17", "+.5", "-.5", ".5", "5.", "+5.", "-5.", "1.2.3", "1..2", "..", "+-1", "-+1", "--1", "++1", "1-", "1+", "1e5", "1E5", "0x10",
              "A#20B", "#41", "#4", "#", "A#", "A#4", "#gh", "#GH", "#g0", "#0g", "#4x", "#ff", "#FF", "#c3#a9", "#e2#82#ac", "#c3", "#00", "##", "#23", "A#2fB", "Name", "1.0", "0.0", ".0", "0.", "-", "+", ".",
              "340282350000000000000000000000000000000.", "0.000000000000000000000000000000000000000000001", "99999999999999999999999999999999999999999"] {
        toks.push(t.as_bytes().to_vec());
    }
    for case in 0..n {
        let mut rng = Rng::derive(seed, "c03.tok", case);
        let mut t = vec![];
        match rng.below(4) {
            0 | 1 => {
                // number-like: signs, zeros, dots in every position
                if rng.chance(1, 2) { t.push(*rng.pick(b"+-")); }
                if rng.chance(1, 12) { t.push(*rng.pick(b"+-")); }
                let n1 = rng.usize(4);
                for _ in 0..rng.usize(3) { t.push(b'0'); }
                for _ in 0..n1 { t.push(b'0' + rng.below(10) as u8); }
                if rng.chance(2, 3) { t.push(b'.'); }
                for _ in 0..rng.usize(4) { t.push(b'0' + rng.below(10) as u8); }
                if rng.chance(1, 8) { t.push(*rng.pick(b".+-eEx#")); for _ in 0..rng.usize(3) { t.push(b'0' + rng.below(10) as u8); } }
            }
            2 => {
                // name-like with escapes
                for _ in 0..rng.usize(6) {
                    match rng.below(6) {
                        0 => { t.push(b'#'); t.push(*rng.pick(b"0123456789abcdefABCDEF")); t.push(*rng.pick(b"0123456789abcdefABCDEF")); }
                        1 => { t.push(b'#'); for _ in 0..rng.usize(3) { t.push(*rng.pick(b"0189afAFgGhHxz#")); } }
                        _ => t.push(b'A' + rng.below(26) as u8),
                    }
                }
            }
            _ => { for _ in 0..rng.usize(6) { t.push(*rng.pick(b"+-.0159#aAfFgG/ ()\x80\xff")); } }
        }
        toks.push(t);
    }
    let reqs: Vec<String> = toks.iter().map(|t| format!("c03.tok {}", hex(t))).collect();
    let resp = driver.ask(&reqs);
    for ((rq, m), t) in reqs.iter().zip(resp.iter()).zip(toks.iter()) {
        let (m, i) = both_sides(rq, m);
        let num = conformant_number(t);
        let st = if num || conformant_name_body(t) { &mut good } else { &mut junk };
        st.count(if num { "kind=number" } else if tok_is_plain(t) { "kind=name-like" } else { "kind=other" });
        st.case(rq, &m, &i, true);
    }
    vec![good, junk]
}

fn utf8_stream(driver: &Driver, seed: u64, n: u64) -> Stream {
    let mut st = Stream::new("c03.utf8", true);
    let mut ss: Vec<Vec<u8>> = vec![vec![]];
    for a in 0..=255u8 { ss.push(vec![a]); }
    for a in 0..=255u8 { for b in 0..=255u8 { ss.push(vec![a, b]); } }
    for b in [&[0xc0u8, 0x80][..], &[0xc1, 0xbf], &[0xc2, 0x80], &[0xdf, 0xbf], &[0xe0, 0x9f, 0xbf], &[0xe0, 0xa0, 0x80], &[0xed, 0x9f, 0xbf], &[0xed, 0xa0, 0x80], &[0xed, 0xbf, 0xbf],
              &[0xee, 0x80, 0x80], &[0xef, 0xbf, 0xbf], &[0xf0, 0x8f, 0xbf, 0xbf], &[0xf0, 0x90, 0x80, 0x80], &[0xf4, 0x8f, 0xbf, 0xbf], &[0xf4, 0x90, 0x80, 0x80], &[0xf5, 0x80, 0x80, 0x80],
              &[0xf8, 0x88, 0x80, 0x80, 0x80], &[0xe2, 0x82], &[0xf0, 0x9f, 0x98], &[0xe2, 0x82, 0xac, 0x80], &[0x41, 0xe2, 0x82, 0xac, 0x42], &[0xe2, 0x28, 0xa1], &[0xf0, 0x28, 0x8c, 0xbc], &[0xf0, 0x90, 0x28, 0xbc]] {
        ss.push(b.to_vec());
    }
    let leads: [u8; 16] = [0x7f, 0x80, 0xbf, 0xc0, 0xc1, 0xc2, 0xdf, 0xe0, 0xe1, 0xec, 0xed, 0xee, 0xef, 0xf0, 0xf4, 0xf5];
    let conts: [u8; 8] = [0x7f, 0x80, 0x8f, 0x90, 0x9f, 0xa0, 0xbf, 0xc0];
    for case in 0..n {
        let mut rng = Rng::derive(seed, "c03.utf8", case);
        if rng.chance(1, 4) {
            let k = 1 + rng.usize(5);
            let s: String = (0..k).map(|_| char::from_u32(match rng.below(4) { 0 => rng.below(0x80), 1 => 0x80 + rng.below(0x780), 2 => 0x800 + rng.below(0xf800), _ => 0x10000 + rng.below(0x100000) } as u32).unwrap_or('x')).collect();
            ss.push(s.into_bytes());
        } else {
            let k = 3 + rng.usize(2);
            let mut v = vec![];
            for j in 0..k {
                v.push(if rng.chance(1, 8) { rng.byte() } else if j == 0 || rng.chance(1, 6) { *rng.pick(&leads) } else if rng.chance(1, 2) { *rng.pick(&conts) } else { 0x80 + rng.below(0x40) as u8 });
            }
            ss.push(v);
        }
    }
    let reqs: Vec<String> = ss.iter().map(|t| format!("c03.utf8 {}", hex(t))).collect();
    compare(driver, &mut st, &reqs);
    st
}

fn floattext_stream(driver: &Driver, maxlen: usize) -> Stream {
    let mut st = Stream::new("c03.floattext", true);
    st.exhaustive = true;
    let sym = b"+-.0123456789";
    let mut reqs = vec!["c03.floattext -".to_string()];
    let mut level: Vec<Vec<u8>> = vec![vec![]];
    for _ in 0..maxlen {
        let mut next = Vec::with_capacity(level.len() * 13);
        for t in &level {
            for &c in sym {
                let mut u = t.clone();
                u.push(c);
                reqs.push(format!("c03.floattext {}", hex(&u)));
                next.push(u);
            }
        }
        level = next;
        if reqs.len() > 400_000 {
            compare(driver, &mut st, &reqs);
            reqs.clear();
        }
    }
    compare(driver, &mut st, &reqs);
    st
}

// ---------------------------------------------------------------------------------------------------
// renderings

pub struct RCase {
    /// `val` | `ind` | `seq`
    pub mode: &'static str,
    /// for `seq`: `Val::Arr(values)`
    pub value: Val,
    pub tape: Vec<u64>,
    pub tail: Vec<u8>,
    pub id: (u64, u64),
    pub lens: LenMap,
    pub text: Vec<u8>,
    /// own text of every object (`val`, `ind`: the value's)
    pub spans: Vec<(usize, usize)>,
    pub endobj_end: usize,
    pub stats: RenderStats,
}

pub fn render_case(mode: &'static str, value: Val, tape: &mut Tape, tail: &[u8], id: (u64, u64), lens: LenMap) -> RCase {
    let (text, spans, endobj_end) = match mode {
        "ind" => {
            let r = render_indirect(id.0, id.1, &value, tail, tape);
            (r.bytes, vec![(r.val_start, r.val_end)], r.endobj_end)
        }
        "seq" => {
            let vs = match &value { Val::Arr(vs) => vs.clone(), _ => vec![] };
            let (b, sp) = render_seq(&vs, tail, tape);
            (b, sp, 0)
        }
        _ => {
            let (b, e) = render_with_tail(&value, tail, tape);
            (b, vec![(0, e)], 0)
        }
    };
    RCase { mode, value, tape: tape.consumed().to_vec(), tail: tail.to_vec(), id, lens, text, spans, endobj_end, stats: tape.stats.clone() }
}

/// renders with a tape that grows from `rng`; now and then with a tape that runs out early
pub fn render_random(rng: &mut Rng, mode: &'static str, value: Val, tail: &[u8], id: (u64, u64), lens: LenMap) -> RCase {
    let mut tape = Tape::lazy(Rng::new(rng.next()));
    let c = render_case(mode, value, &mut tape, tail, id, lens);
    if rng.chance(1, 25) && !c.tape.is_empty() {
        let keep = rng.usize(c.tape.len());
        let mut short = Tape::fixed(c.tape[..keep].to_vec());
        let mut d = render_case(mode, c.value, &mut short, tail, id, c.lens);
        d.tape = c.tape[..keep].to_vec();
        return d;
    }
    c
}

pub fn render_request(c: &RCase) -> String {
    match c.mode {
        "ind" => format!("c03.render ind {} {} {} {} {}", show_val(&c.value), show_tape(&c.tape), hex(&c.tail), c.id.0, c.id.1),
        "seq" => format!("c03.render seq {} {} {}", show_val(&c.value), show_tape(&c.tape), hex(&c.tail)),
        _ => format!("c03.render val {} {} {}", show_val(&c.value), show_tape(&c.tape), hex(&c.tail)),
    }
}

fn len_bucket(n: usize) -> &'static str {
    match n { 0..=7 => "len=0-7", 8..=31 => "len=8-31", 32..=127 => "len=32-127", 128..=511 => "len=128-511", _ => "len=512+" }
}

fn count_render(st: &mut Stream, c: &RCase) {
    st.count(&format!("mode={}", c.mode));
    st.count(len_bucket(c.text.len()));
    st.count(&format!("tail={}", String::from_utf8_lossy(&c.tail).replace('\n', "\\n")));
    for (k, n) in FREEDOM_KEYS.iter().zip(c.stats.freedom.iter()) {
        if *n > 0 {
            *st.histogram.entry(k.to_string()).or_insert(0) += n;
        }
    }
}

fn count_oracle(or: &mut Oracle, c: &RCase) {
    let mut ks = vec![];
    count_kinds(&c.value, &mut |k| ks.push(k.to_string()));
    for k in ks { or.count(&format!("kind={}", k)); }
    or.count(&format!("nest={}", nest(&c.value)));
    or.count(&format!("tail={}", String::from_utf8_lossy(&c.tail).replace('\n', "\\n")));
    or.count(len_bucket(c.text.len()));
    *or.histogram.entry("gaps".into()).or_insert(0) += c.stats.gaps;
    *or.histogram.entry("gaps.empty".into()).or_insert(0) += c.stats.gaps_empty;
    *or.histogram.entry("gaps.forced-single-space".into()).or_insert(0) += c.stats.gaps_forced;
    *or.histogram.entry("gaps.with-comment".into()).or_insert(0) += c.stats.gaps_comment;
    *or.histogram.entry("strings.hex".into()).or_insert(0) += c.stats.str_hex;
    *or.histogram.entry("strings.literal".into()).or_insert(0) += c.stats.str_lit;
}

/// one parse case derived from a rendering
struct PCase {
    c: RCase,
    pmode: &'static str,
    buf: Vec<u8>,
    pos: usize,
    flags: u16,
    off: usize,
    allowed: bool,
}

fn gen_pcase(seed: u64, case: u64) -> PCase {
    gen_pcase_opt(seed, case, false).expect("every case is generated when nothing is filtered")
}

/// the case `case` of `c03.parse`; with `only_plain`: `None` (before anything is rendered) unless it is parsed
/// in mode plain — the cases of `c03.cursor`
fn gen_pcase_opt(seed: u64, case: u64, only_plain: bool) -> Option<PCase> {
    let mut rng = Rng::derive(seed, "c03.parse", case);
    let cfg = GenCfg { bad_name_pct: 2, wild_names: false };
    let tail: &[u8] = *rng.pick(&TAILS);
    let id = (if rng.chance(1, 10) { *rng.pick(&[0u64, u64::MAX, u32::MAX as u64]) } else { rng.below(1000) }, if rng.chance(1, 6) { rng.below(70000) } else { 0 });
    let r = rng.below(100);
    if only_plain && r >= 60 {
        return None;
    }
    let (c, pmode): (RCase, &'static str) = if r < 55 {
        let mut v = gen_val(&mut rng, 0, &cfg);
        add_fragile_strings(&mut rng, &mut v);
        (render_random(&mut rng, "val", v, tail, id, vec![]), "plain")
    } else if r < 60 {
        let levels = *rng.pick(&[19usize, 20, 21]);
        let mut v = gen_deep(&mut rng, levels, &cfg);
        add_fragile_strings(&mut rng, &mut v);
        if rng.chance(1, 2) { (render_random(&mut rng, "val", v, tail, id, vec![]), "plain") } else if only_plain { return None } else { (render_random(&mut rng, "ind", v, tail, id, vec![]), "ind0") }
    } else if r < 80 {
        let mut v = gen_val(&mut rng, 0, &cfg);
        add_fragile_strings(&mut rng, &mut v);
        (render_random(&mut rng, "ind", v, tail, id, vec![]), if rng.chance(1, 2) { "ind0" } else { "ind1" })
    } else if r < 92 {
        let (mut v, lens) = gen_stream(&mut rng, &cfg, true);
        add_fragile_strings(&mut rng, &mut v);
        (render_random(&mut rng, "ind", v, tail, id, lens), if rng.chance(1, 2) { "ind0" } else { "ind1" })
    } else {
        let (mut v, lens) = gen_stream(&mut rng, &cfg, true);
        add_fragile_strings(&mut rng, &mut v);
        (render_random(&mut rng, "val", v, tail, id, lens), "stm")
    };
    let npre = if pmode == "stm" { 0 } else { rng.usize(6) };
    let mut buf = rng.bytes(npre);
    buf.extend_from_slice(&c.text);
    let off = if pmode != "stm" && rng.chance(1, 4) { 1 + rng.usize(1000) } else { 0 };
    let own = flag_of(&c.value);
    let (flags, allowed) = match rng.below(20) {
        0..=13 => (1023u16, true),
        14..=16 => (own | (rng.below(1024) as u16), true),
        _ => ((rng.below(1024) as u16) & !own, false),
    };
    let (flags, allowed) = if pmode == "stm" { (1023, true) } else { (flags, allowed) };
    Some(PCase { c, pmode, buf, pos: npre, flags, off, allowed })
}

fn pcase_request(p: &PCase) -> String {
    parse_request(p.pmode, &p.buf, p.pos, p.flags, p.off, &p.c.lens, if p.pmode == "stm" { Some(p.c.id) } else { None })
}

/// the oracle of C03 on one parsed rendering: `None` = holds, else (signature, what)
fn check_denotes(exp: &Val, exp_id: Option<(u64, u64)>, exp_cursor: Option<usize>, got: &Parsed, buf: &[u8], off: usize, forms: &[(Vec<u8>, bool)]) -> Option<(String, String)> {
    if got.text == "panic" {
        return Some(("panic".into(), "the parser panicked on a conformant spelling".into()));
    }
    let gv = match &got.val {
        Some(v) => v,
        None => {
            if has_non_utf8_name(exp) {
                return Some(("name-not-utf8".into(), "a conformant spelling with a name that is not UTF-8 after #xx decoding is rejected".into()));
            }
            let k = match exp { Val::Str(s) => str_kind(s, &DiffCtx { identify_numbers: false, buf, file_off: off, id: None, forms }), v => kind_name(v).to_string() };
            return Some((k, format!("a conformant spelling of a {} is rejected (Err)", kind_name(exp))));
        }
    };
    let cx = DiffCtx { identify_numbers: false, buf, file_off: off, id: exp_id, forms };
    if let Some(k) = diff_kind(exp, gv, &cx) {
        return Some((k.clone(), format!("the value read differs from the value printed (first difference: {})", k)));
    }
    if let (Some(e), Some(g)) = (exp_id, got.id) {
        if e != g {
            return Some(("indirect".into(), format!("object id read as {}.{}, printed {}.{}", g.0, g.1, e.0, e.1)));
        }
    }
    if let Some(c) = exp_cursor {
        if got.pos != c {
            return Some(("cursor".into(), format!("the cursor rests at {} but the text ends at {}", got.pos, c)));
        }
    }
    None
}

fn parse_streams(driver: &Driver, seed: u64, from: u64, to: u64, render_st: &mut Stream) -> (Vec<Stream>, Oracle) {
    let mut st = Stream::new("c03.parse", true);
    let mut deep = Stream::new("c03.parse.deep", false);
    let mut or = Oracle::new("c03.denotes");
    let mut lo = from;
    while lo < to {
    let hi = (lo + 20_000).min(to);
    let mut rreqs = vec![];
    let mut rimps = vec![];
    let mut preqs = vec![];
    let mut pimps = vec![];
    let mut pdeep = vec![];
    for case in lo..hi {
        let p = gen_pcase(seed, case);
        count_render(render_st, &p.c);
        rreqs.push(render_request(&p.c));
        rimps.push(hex(&p.c.text));
        let got = imp_parse(p.pmode, &p.buf, p.pos, p.flags, p.off, &p.c.lens, Some(p.c.id));
        let too_deep = nest(&p.c.value) > 20;
        let s = if too_deep { &mut deep } else { &mut st };
        s.count(&format!("mode={}", p.pmode));
        s.count(&format!("flags={}", if p.flags == 1023 { "any" } else if p.allowed { "restricted-allowed" } else { "restricted-disallowed" }));
        s.count(&format!("top={}", kind_name(&p.c.value)));
        if p.off != 0 { s.count("file-offset=nonzero"); }
        if !too_deep && p.allowed {
            count_oracle(&mut or, &p.c);
            or.count(&format!("mode={}", p.pmode));
            or.count(&format!("outcome={}", got.text.split(' ').next().unwrap_or("")));
            let exp_cursor = match p.pmode { "plain" => Some(p.pos + p.c.spans[0].1), "stm" => None, _ => Some(p.pos + p.c.endobj_end) };
            let exp_id = if p.pmode == "plain" { None } else { Some(p.c.id) };
            let key = format!("{} {}", p.pmode, hex(&p.buf));
            or.case(&key, true, || json!({"mode": p.pmode, "value": show_val(&p.c.value), "text": String::from_utf8_lossy(&p.c.text), "got": got.text}));
            if let Some((sig, what)) = check_denotes(&p.c.value, exp_id, exp_cursor, &got, &p.buf, p.off, &p.c.stats.forms) {
                fail_limited(&mut or, &sig, &what, json!({"stream": "c03.parse", "seed": seed, "case": case, "mode": p.pmode, "value": show_val(&p.c.value), "tape": show_tape(&p.c.tape),
                    "tail": hex(&p.c.tail), "buffer": hex(&p.buf), "pos": p.pos, "flags": p.flags, "file_offset": p.off, "lens": show_lens(&p.c.lens),
                    "expected": format!("{} cursor {:?}", show_canon(&p.c.value), exp_cursor), "got": got.text, "text": String::from_utf8_lossy(&p.buf)}));
            }
        }
        preqs.push(pcase_request(&p));
        pimps.push(got.text);
        pdeep.push(too_deep);
    }
    let resp = driver.ask(&rreqs);
    for ((rq, m), i) in rreqs.iter().zip(resp.iter()).zip(rimps.iter()) {
        render_st.case(rq, m, i, true);
    }
    let resp = driver.ask(&preqs);
    for (((rq, m), i), d) in preqs.iter().zip(resp.iter()).zip(pimps.iter()).zip(pdeep.iter()) {
        let mode = rq.split(' ').nth(1).unwrap_or("");
        let m = canon_parse_answer(mode, m);
        let s = if *d { &mut deep } else { &mut st };
        s.count(&format!("outcome={}", m.split(' ').next().unwrap_or("")));
        s.case(rq, &m, i, true);
    }
    lo = hi;
    }
    (vec![st, deep], or)
}

fn gen_seq_case(seed: u64, case: u64) -> (RCase, Vec<u8>, usize) {
    let mut rng = Rng::derive(seed, "c03.seq", case);
    let cfg = GenCfg { bad_name_pct: 2, wild_names: false };
    let n = 2 + rng.usize(5);
    let mut vs = Val::Arr((0..n).map(|_| gen_val(&mut rng, 1, &cfg)).collect());
    add_fragile_strings(&mut rng, &mut vs);
    let tail: &[u8] = *rng.pick(&TAILS);
    let c = render_random(&mut rng, "seq", vs, tail, (0, 0), vec![]);
    let npre = rng.usize(6);
    let mut buf = rng.bytes(npre);
    buf.extend_from_slice(&c.text);
    (c, buf, npre)
}

/// parses `exp.len()` values one after the other; (signature, what) of the first deviation
fn run_sequence(buf: &[u8], start: usize, exp: &[Val], spans: &[(usize, usize)], forms: &[(Vec<u8>, bool)], reqs: &mut Vec<String>, imps: &mut Vec<String>) -> Option<(String, String)> {
    let mut pos = start;
    for (i, v) in exp.iter().enumerate() {
        let got = imp_parse("plain", buf, pos, 1023, 0, &vec![], None);
        reqs.push(parse_request("plain", buf, pos, 1023, 0, &vec![], None));
        imps.push(got.text.clone());
        if let Some((sig, what)) = check_denotes(v, None, Some(start + spans[i].1), &got, buf, 0, forms) {
            return Some((sig, format!("object {} of the sequence (read from {}): {}", i, pos, what)));
        }
        pos = got.pos;
    }
    None
}

fn seq_streams(driver: &Driver, seed: u64, from: u64, to: u64, render_st: &mut Stream) -> (Stream, Oracle) {
    let mut st = Stream::new("c03.seq", true);
    let mut or = Oracle::new("c03.sequence");
    let mut lo = from;
    while lo < to {
    let hi = (lo + 10_000).min(to);
    let (mut rreqs, mut rimps, mut preqs, mut pimps) = (vec![], vec![], vec![], vec![]);
    for case in lo..hi {
        let (c, buf, start) = gen_seq_case(seed, case);
        count_render(render_st, &c);
        rreqs.push(render_request(&c));
        rimps.push(hex(&c.text));
        let vs = match &c.value { Val::Arr(vs) => vs.clone(), _ => vec![] };
        count_oracle(&mut or, &c);
        or.count(&format!("objects={}", vs.len()));
        let r = run_sequence(&buf, start, &vs, &c.spans, &c.stats.forms, &mut preqs, &mut pimps);
        or.case(&hex(&buf), true, || json!({"values": show_val(&c.value), "text": String::from_utf8_lossy(&c.text)}));
        if let Some((sig, what)) = r {
            fail_limited(&mut or, &sig, &what, json!({"stream": "c03.seq", "seed": seed, "case": case, "value": show_val(&c.value), "tape": show_tape(&c.tape), "tail": hex(&c.tail),
                "buffer": hex(&buf), "pos": start, "expected": format!("{} ends {:?}", show_canon(&c.value), c.spans.iter().map(|s| s.1 + start).collect::<Vec<_>>()), "got": pimps.last().cloned().unwrap_or_default(),
                "text": String::from_utf8_lossy(&buf)}));
        }
    }
    let resp = driver.ask(&rreqs);
    for ((rq, m), i) in rreqs.iter().zip(resp.iter()).zip(rimps.iter()) {
        render_st.case(rq, m, i, true);
    }
    let resp = driver.ask(&preqs);
    for ((rq, m), i) in preqs.iter().zip(resp.iter()).zip(pimps.iter()) {
        let m = canon_parse_answer("plain", m);
        st.count(&format!("outcome={}", m.split(' ').next().unwrap_or("")));
        st.case(rq, &m, i, true);
    }
    lo = hi;
    }
    (st, or)
}

pub fn mutate(rng: &mut Rng, buf: &mut Vec<u8>) {
    let k = 1 + rng.usize(3);
    for _ in 0..k {
        if buf.is_empty() { buf.push(rng.byte()); continue; }
        let at = rng.usize(buf.len());
        match rng.below(5) {
            0 => buf[at] ^= 1 << rng.below(8),
            1 => { buf.remove(at); }
            2 => buf.insert(at, *rng.pick(b"()<>[]/% \n\r\\#0179R.-+")),
            3 => buf.truncate(at),
            _ => buf[at] = rng.byte(),
        }
    }
}

fn mutated_stream(driver: &Driver, seed: u64, n: u64) -> Stream {
    let mut st = Stream::new("c03.parse.mutated", false);
    let mut reqs = vec![];
    for case in 0..n {
        let mut rng = Rng::derive(seed, "c03.parse.mutated", case);
        let cfg = GenCfg { bad_name_pct: 2, wild_names: false };
        let tail: &[u8] = *rng.pick(&TAILS);
        let (c, mode): (RCase, &'static str) = match rng.below(4) {
            0 | 1 => { let v = gen_val(&mut rng, 0, &cfg); (render_random(&mut rng, "val", v, tail, (1, 0), vec![]), "plain") }
            2 => { let v = gen_val(&mut rng, 0, &cfg); (render_random(&mut rng, "ind", v, tail, (7, 0), vec![]), if rng.chance(1, 2) { "ind0" } else { "ind1" }) }
            _ => { let (v, lens) = gen_stream(&mut rng, &cfg, true); (render_random(&mut rng, "ind", v, tail, (7, 0), lens), if rng.chance(1, 2) { "ind0" } else { "ind1" }) }
        };
        let mut buf = c.text.clone();
        mutate(&mut rng, &mut buf);
        st.count(&format!("mode={}", mode));
        reqs.push(parse_request(mode, &buf, 0, 1023, 0, &c.lens, None));
        if reqs.len() >= 50_000 { compare(driver, &mut st, &reqs); reqs.clear(); }
    }
    compare(driver, &mut st, &reqs);
    st
}


// ---------------------------------------------------------------------------------------------------
// encrypted spellings: parse_indirect_object with a real RC4 `Decoder` (stream c03.enc, oracle c03.decrypts)

pub struct EncKey {
    /// file key length in bytes: 5 (V 1 / R 2) or 16 (V 2 / R 3)
    pub n: usize,
    /// the file key by `std_sec` (Algorithm 2)
    pub file_key: Vec<u8>,
    /// `user` | `owner` | `default`: how the decoder was opened
    pub role: &'static str,
    pub decoder: Decoder,
}

/// An encryption dictionary for a random document id, its /O and /U computed by `crate::c06::std_sec`
/// (Algorithms 3, 2, 4/5) from the two passwords, read by the real `CryptDict::from_primitive`; the decoder is what
/// the real `Decoder::from_password` (or `Decoder::default` for an empty user password) returns for it.
pub fn build_rc4_decoder(rng: &mut Rng, n: usize, user_pw: &[u8]) -> Result<EncKey, String> {
    use crate::c06::std_sec as ss;
    let (v, r) = if n == 5 { (1i64, 2u32) } else { (2, 3) };
    let id0 = rng.bytes(16);
    let p = *rng.pick(&[-4i32, -44, -3904, -1, -1340, 0]);
    let params = ss::Params { r, n, cipher: ss::Cipher::Rc4, p, id0: id0.clone(), encrypt_metadata: true };
    let owner_pw: Vec<u8> = if rng.chance(1, 5) { user_pw.to_vec() } else { (0..1 + rng.usize(12)).map(|_| (0x21 + rng.below(0x5e)) as u8).collect() };
    let u_tail = rng.bytes(16);
    let mut rnd = |k: usize| u_tail[..k.min(16)].to_vec();
    let e = ss::make_entries(&mut ss::Rec::off(), &params, user_pw, &owner_pw, &mut rnd);
    let mut kvs: Vec<(Vec<u8>, Val)> = vec![(b"Filter".to_vec(), Val::Name(b"Standard".to_vec())), (b"V".to_vec(), Val::Int(v)), (b"R".to_vec(), Val::Int(r as i64))];
    // V 1 ignores /Length (40 bits, stated or not); V 2 states it
    if v == 2 || rng.chance(1, 2) {
        kvs.push((b"Length".to_vec(), Val::Int(8 * n as i64)));
    }
    kvs.push((b"O".to_vec(), Val::Str(e.o.clone())));
    kvs.push((b"U".to_vec(), Val::Str(e.u.clone())));
    kvs.push((b"P".to_vec(), Val::Int(p as i64)));
    let prim = val_to_prim(&Val::Dict(kvs)).ok_or("encryption dictionary not representable")?;
    let cd = CryptDict::from_primitive(prim, &NoResolve).map_err(|e| format!("CryptDict::from_primitive: {}", e))?;
    let role: &'static str = if rng.chance(1, 4) { "owner" } else if user_pw.is_empty() && rng.chance(1, 2) { "default" } else { "user" };
    let dec = match role {
        "owner" => Decoder::from_password(&cd, &id0, &owner_pw),
        "default" => Decoder::default(&cd, &id0),
        _ => Decoder::from_password(&cd, &id0, user_pw),
    };
    let decoder = dec.map_err(|e| format!("Decoder::from_password ({} password): {}", role, e))?;
    Ok(EncKey { n, file_key: e.file_key, role, decoder })
}

/// Algorithm 1 for RC4 by `std_sec`: MD5(file key ‖ id[3 bytes LE] ‖ gen[2 bytes LE]) cut to min(n + 5, 16) bytes
pub fn rc4_object_key(file_key: &[u8], id: u64, gen: u64) -> Vec<u8> {
    use crate::c06::std_sec as ss;
    ss::object_key(&mut ss::Rec::off(), ss::Cipher::Rc4, file_key, id, gen)
}

/// every string of `v` RC4-encrypted under `key` (RC4 is its own inverse); names and keys are not encrypted
pub fn enc_val(v: &Val, key: &[u8]) -> Val {
    match v {
        Val::Str(s) => Val::Str(crate::c06::std_sec::rc4(key, s)),
        Val::Arr(xs) => Val::Arr(xs.iter().map(|x| enc_val(x, key)).collect()),
        Val::Dict(kvs) => Val::Dict(kvs.iter().map(|(k, x)| (k.clone(), enc_val(x, key))).collect()),
        other => other.clone(),
    }
}

pub fn count_strings(v: &Val) -> usize {
    match v {
        Val::Str(_) => 1,
        Val::Arr(xs) => xs.iter().map(count_strings).sum(),
        Val::Dict(kvs) | Val::StreamPending(kvs, _) | Val::StreamInFile(kvs, ..) => kvs.iter().map(|(_, x)| count_strings(x)).sum(),
        _ => 0,
    }
}

fn strip_strings(v: &Val) -> Val {
    match v {
        Val::Str(s) => if s.len() % 2 == 0 { Val::Int(s.len() as i64) } else { Val::Name(b"NoString".to_vec()) },
        Val::Arr(xs) => Val::Arr(xs.iter().map(strip_strings).collect()),
        Val::Dict(kvs) => Val::Dict(kvs.iter().map(|(k, x)| (k.clone(), strip_strings(x))).collect()),
        other => other.clone(),
    }
}

fn gen_enc_string(rng: &mut Rng) -> Vec<u8> {
    match rng.below(12) {
        0 => vec![],
        1 => vec![rng.byte()],
        2 => { let k = 40 + rng.usize(300); rng.bytes(k) }
        3 => { let k = rng.usize(40); (0..k).map(|_| 0x20 + rng.below(0x5f) as u8).collect() }
        4 => gen_fragile_string(rng),
        5 => { let k = rng.usize(30); rng.bytes(k) }
        _ => gen_string(rng),
    }
}

/// a stream-free value in which strings are frequent, at every depth
fn gen_enc_tree(rng: &mut Rng, depth: usize, cfg: &GenCfg) -> Val {
    let p = [100u64, 45, 30, 15, 0];
    if depth < 4 && rng.below(100) < p[depth] {
        let n = if depth == 0 { 1 + rng.usize(5) } else { rng.usize(5) };
        if rng.chance(1, 2) {
            Val::Arr((0..n).map(|_| gen_enc_tree(rng, depth + 1, cfg)).collect())
        } else {
            let mut kvs: Vec<(Vec<u8>, Val)> = vec![];
            for _ in 0..n {
                let k = gen_name(rng, cfg);
                if kvs.iter().any(|e| e.0 == k) { continue; }
                kvs.push((k, gen_enc_tree(rng, depth + 1, cfg)));
            }
            Val::Dict(kvs)
        }
    } else if rng.chance(3, 5) {
        Val::Str(gen_enc_string(rng))
    } else {
        gen_scalar(rng, cfg)
    }
}

fn gen_enc_val(rng: &mut Rng) -> Val {
    let cfg = GenCfg { bad_name_pct: 2, wild_names: false };
    match rng.below(12) {
        0 => strip_strings(&gen_val(rng, 0, &cfg)),
        1..=3 => Val::Str(gen_enc_string(rng)),
        4 => { let k = 2 + rng.usize(3); Val::Arr((0..k).map(|_| Val::Str(gen_enc_string(rng))).collect()) }
        5 => {
            // one string below several containers
            let mut v = Val::Str(gen_enc_string(rng));
            for _ in 0..(1 + rng.usize(6)) {
                v = if rng.chance(1, 2) { Val::Arr(vec![v]) } else { Val::Dict(vec![(b"K".to_vec(), v)]) };
            }
            v
        }
        6 => gen_val(rng, 0, &cfg),
        _ => gen_enc_tree(rng, 0, &cfg),
    }
}

/// one case of `c03.enc` / `c03.decrypts`
struct ECase {
    /// c03.enc | c03.enc.witness
    origin: &'static str,
    seed: u64,
    case: u64,
    name: String,
    key: EncKey,
    objkey: Vec<u8>,
    /// the value before encryption: what the parser must give back
    plain: Val,
    /// rendering of the value with every string encrypted (mode `ind`)
    c: RCase,
    pmode: &'static str,
    buf: Vec<u8>,
    pos: usize,
    off: usize,
}

fn make_ecase(origin: &'static str, seed: u64, case: u64, name: String, key: EncKey, plain: Val, id: (u64, u64), render: impl FnOnce(Val) -> RCase, pmode: &'static str, prefix: Vec<u8>, off: usize) -> ECase {
    let objkey = rc4_object_key(&key.file_key, id.0, id.1);
    let c = render(enc_val(&plain, &objkey));
    let pos = prefix.len();
    let mut buf = prefix;
    buf.extend_from_slice(&c.text);
    ECase { origin, seed, case, name, key, objkey, plain, c, pmode, buf, pos, off }
}

fn gen_enc_case(seed: u64, case: u64) -> Result<ECase, String> {
    let mut rng = Rng::derive(seed, "c03.enc", case);
    let n = if rng.chance(1, 2) { 5 } else { 16 };
    let user_pw = if rng.chance(1, 2) { vec![] } else { crate::c06::doc::rand_password(&mut rng, 3) };
    let key = build_rc4_decoder(&mut rng, n, &user_pw)?;
    // the key derivation uses the low 3 bytes of the number and the low 2 bytes of the generation: the real code
    // (`to_le_bytes()[..3]`, `[..2]`) and `std_sec::object_key` (`id as u8, id >> 8, id >> 16`) cut larger numbers alike
    let id = match rng.below(10) {
        0 => *rng.pick(&[0u64, (1 << 23) - 1, 1 << 23, (1 << 24) - 1, 1 << 24, (1 << 24) + 7, u32::MAX as u64, u64::MAX]),
        1..=3 => rng.below(1 << 23),
        _ => 1 + rng.below(2000),
    };
    let gen = match rng.below(10) {
        0 => *rng.pick(&[65535u64, 65536, 65537, 70000, u64::MAX]),
        1 | 2 => rng.below(1 << 16),
        _ => rng.below(3),
    };
    let plain = gen_enc_val(&mut rng);
    let tail: &[u8] = *rng.pick(&TAILS);
    let mut rr = Rng::new(rng.next());
    let pmode = if rng.chance(1, 2) { "ind0" } else { "ind1" };
    let npre = rng.usize(6);
    let prefix = rng.bytes(npre);
    let off = if rng.chance(1, 4) { 1 + rng.usize(1000) } else { 0 };
    Ok(make_ecase("c03.enc", seed, case, "random".into(), key, plain, (id, gen), |v| render_random(&mut rr, "ind", v, tail, (id, gen), vec![]), pmode, prefix, off))
}

/// deterministic witnesses of `c03.decrypts` (independent of the seed): every value under both key lengths, several tapes
fn enc_witness_cases() -> Result<Vec<ECase>, String> {
    // `None`: the plaintext whose CIPHERTEXT is the given bytes (chosen with the object key)
    let special: &[u8] = b"a(b)c\\d\re\nf((\\";
    let wits: Vec<(&str, Option<Val>, (u64, u64))> = vec![
        ("the string abc as object 7 0", Some(s(b"abc")), (7, 0)),
        ("an empty string", Some(s(b"")), (7, 0)),
        ("a string whose ciphertext contains ( ) \\ CR LF", None, (7, 0)),
        ("[ (a) [ (b) << /K (c) >> ] ]", Some(Val::Arr(vec![s(b"a"), Val::Arr(vec![s(b"b"), Val::Dict(vec![(b"K".to_vec(), s(b"c"))])])])), (7, 0)),
        ("a value without any string", Some(Val::Dict(vec![(b"A".to_vec(), Val::Int(1)), (b"B".to_vec(), Val::Arr(vec![n("N"), Val::Real("2.5".into()), Val::Bool(true), Val::Null, Val::Ref(3, 0)]))])), (7, 0)),
        ("object 1234567 65535", Some(Val::Arr(vec![s(b"Hello World"), Val::Dict(vec![(b"Title".to_vec(), s(b"\xfe\xff\x00T"))])])), (1234567, 65535)),
    ];
    let mut out = vec![];
    let mut idx = 0u64;
    for (w, (name, plain, id)) in wits.iter().enumerate() {
        for n in [5usize, 16] {
            let mut rng = Rng::derive(0xC03E, "c03.enc.witness", (w * 2 + n / 16) as u64);
            let user_pw: &[u8] = if (w + n / 16) % 2 == 0 { b"" } else { b"user" };
            let (mut lit, mut hexf, mut j) = (0, 0, 0);
            // six tapes per witness; the ciphertext witness until it was spelled as a literal string three times and in hexadecimal twice
            while j < 6 || (plain.is_none() && (lit < 3 || hexf < 2) && j < 200) {
                let key = build_rc4_decoder(&mut rng.clone(), n, user_pw)?;
                let objkey = rc4_object_key(&key.file_key, id.0, id.1);
                let pv = match plain { Some(v) => v.clone(), None => Val::Str(crate::c06::std_sec::rc4(&objkey, special)) };
                let tail: &[u8] = TAILS[(j + w) % TAILS.len()];
                let tape_seed = 1000 * (w as u64 * 2 + n as u64 / 16) + j as u64;
                let e = make_ecase("c03.enc.witness", 0, idx, format!("{} (key of {} bytes, tape {})", name, n, j), key, pv, *id,
                    |v| render_case("ind", v, &mut Tape::lazy(Rng::new(tape_seed)), tail, *id, vec![]), if j % 2 == 0 { "ind0" } else { "ind1" }, vec![], 0);
                for f in &e.c.stats.forms { if f.1 { hexf += 1 } else { lit += 1 } }
                out.push(e);
                idx += 1;
                j += 1;
            }
        }
    }
    Ok(out)
}

/// the oracle on one case: `None` = holds, else (signature, what)
fn check_decrypts(e: &ECase, got: &Parsed) -> Option<(String, String)> {
    if got.text == "panic" {
        return Some(("panic".into(), "parse_indirect_object with a decoder panicked on a conformant spelling".into()));
    }
    let has_str = count_strings(&e.plain) > 0;
    let gv = match &got.val {
        Some(v) => v,
        None => {
            if has_non_utf8_name(&e.plain) {
                return Some(("name-not-utf8".into(), "a conformant spelling with a name that is not UTF-8 after #xx decoding is rejected".into()));
            }
            return Some((if has_str { "enc-string" } else { "enc-value" }.into(), format!("a conformant spelling of an encrypted object ({} strings) is rejected (Err)", count_strings(&e.plain))));
        }
    };
    let cx = DiffCtx { identify_numbers: false, buf: &e.buf, file_off: e.off, id: Some(e.c.id), forms: &[] };
    if let Some(k) = diff_kind(&e.plain, gv, &cx) {
        let sig = if k.starts_with("string") { "enc-string" } else { "enc-value" };
        return Some((sig.into(), format!("the value read differs from the plaintext value (first difference: {})", k)));
    }
    if got.id != Some(e.c.id) {
        return Some(("enc-value".into(), format!("object id read as {:?}, printed {}.{}", got.id, e.c.id.0, e.c.id.1)));
    }
    let cur = e.pos + e.c.endobj_end;
    if got.pos != cur {
        return Some(("enc-cursor".into(), format!("the cursor rests at {} but `endobj` ends at {}", got.pos, cur)));
    }
    None
}

fn run_enc_cases(driver: &Driver, cases: &[ECase], st: &mut Stream, or: &mut Oracle, render_st: &mut Stream) {
    let (mut rreqs, mut rimps, mut preqs, mut recs, mut pimps, mut nts) = (vec![], vec![], vec![], vec![], vec![], vec![]);
    for e in cases {
        count_render(render_st, &e.c);
        rreqs.push(render_request(&e.c));
        rimps.push(hex(&e.c.text));
        let got = imp_parse_dec(e.pmode, &e.buf, e.pos, 1023, e.off, &vec![], &e.key.decoder);
        let ns = count_strings(&e.plain);
        let big_id = e.c.id.0 >= 1 << 23 || e.c.id.1 >= 1 << 16;
        let keys = [
            format!("enc.strings-per-value={}", match ns { 0 => "0", 1 => "1", 2 | 3 => "2-3", _ => "4+" }),
            format!("enc.keylen={}", e.key.n),
            format!("enc.password={}", e.key.role),
            format!("enc.object-number={}", if big_id { "id>=2^23-or-gen>=2^16" } else { "id<2^23,gen<2^16" }),
            format!("mode={}", e.pmode),
            format!("nest={}", nest(&e.plain)),
        ];
        for k in &keys { st.count(k); or.count(k); }
        for f in &e.c.stats.forms {
            let k = if f.1 { "enc.string-form=hex" } else { "enc.string-form=literal" };
            st.count(k); or.count(k);
            if f.0.iter().any(|b| b"()\\\r\n".contains(b)) { or.count("enc.ciphertext-with-paren-backslash-or-eol"); }
        }
        if e.off != 0 { st.count("file-offset=nonzero"); }
        if e.origin == "c03.enc.witness" { or.count("witness"); }
        or.count(&format!("outcome={}", got.text.split(' ').next().unwrap_or("")));
        let line = format!("c03.parsedec {} {} {} 1023 {} - {}", e.pmode, hex(&e.buf), e.pos, e.off, hex(&e.objkey));
        or.case(&format!("{} {}", line, hex(&e.key.file_key)), ns > 0, || json!({"case": e.name, "plaintext": show_val(&e.plain), "object": format!("{} {}", e.c.id.0, e.c.id.1), "keylen": e.key.n,
            "text": String::from_utf8_lossy(&e.c.text), "got": got.text}));
        if let Some((sig, what)) = check_decrypts(e, &got) {
            let what = if e.origin == "c03.enc.witness" { format!("witness '{}': {}", e.name, what) } else { what };
            fail_limited(or, &sig, &what, json!({"stream": e.origin, "seed": e.seed, "case": e.case, "mode": e.pmode, "plaintext": show_val(&e.plain), "encrypted": show_val(&e.c.value),
                "tape": show_tape(&e.c.tape), "tail": hex(&e.c.tail), "id": e.c.id.0, "gen": e.c.id.1, "keylen": e.key.n, "password": e.key.role, "file_key": hex(&e.key.file_key), "object_key": hex(&e.objkey),
                "buffer": hex(&e.buf), "pos": e.pos, "file_offset": e.off, "expected": format!("{}.{} {} cursor {}", e.c.id.0, e.c.id.1, show_canon(&e.plain), e.pos + e.c.endobj_end),
                "got": got.text, "text": String::from_utf8_lossy(&e.buf)}));
        }
        recs.push(format!("{} fk={}", line, hex(&e.key.file_key)));
        preqs.push(line);
        pimps.push(got.text);
        nts.push(ns > 0);
    }
    let resp = driver.ask(&rreqs);
    for ((rq, m), i) in rreqs.iter().zip(resp.iter()).zip(rimps.iter()) {
        render_st.case(rq, m, i, true);
    }
    let resp = driver.ask(&preqs);
    for ((((rq, m), i), nt), e) in recs.iter().zip(resp.iter()).zip(pimps.iter()).zip(nts.iter()).zip(cases.iter()) {
        let m = canon_parse_answer(e.pmode, m);
        st.count(&format!("outcome={}", m.split(' ').next().unwrap_or("")));
        st.case(rq, &m, i, *nt);
    }
}

/// an AESV2 decoder on strings that are no AES ciphertext (shorter than the initialisation vector, no whole blocks, bad
/// padding): `parse_indirect_object` must answer `Err`. Oracle only: the model is not asked.
fn failing_decryptor_witnesses(or: &mut Oracle) {
    let dec = Decoder::new((0..16u8).map(|i| 0x42 ^ i).collect(), 16, CryptMethod::AESV2, true);
    let texts: [(&str, &[u8]); 4] = [
        ("5-byte literal string", b"7 0 obj (abcde) endobj"),
        ("21-byte hexadecimal string", b"7 0 obj <000102030405060708090a0b0c0d0e0f1011121314> endobj"),
        ("16 bytes: an initialisation vector and nothing else", b"7 0 obj [ /A (0123456789abcdef) ] endobj"),
        ("5-byte string inside a dictionary inside an array", b"7 0 obj [ 1 << /K (abcde) >> ] endobj"),
    ];
    for (k, (name, text)) in texts.iter().enumerate() {
        for mode in ["ind0", "ind1"] {
            let got = imp_parse_dec(mode, text, 0, 1023, 0, &vec![], &dec);
            or.count("witness");
            or.count("witness=failing-decryptor");
            or.count(&format!("outcome={}", got.text.split(' ').next().unwrap_or("")));
            or.case(&format!("failing-decryptor {} {}", mode, hex(text)), true, || json!({"witness": format!("failing-decryptor: {}", name), "text": String::from_utf8_lossy(text), "got": got.text}));
            let replay = json!({"stream": "c03.enc.failing-decryptor", "seed": 0, "case": k, "mode": mode, "buffer": hex(text), "expected": "err", "got": got.text, "text": String::from_utf8_lossy(text)});
            if got.text == "panic" {
                or.fail("panic", &format!("witness 'failing-decryptor' ({}): parse_indirect_object panics when the decoder fails", name), replay);
            } else if got.text != "err" {
                or.fail("enc-string", &format!("witness 'failing-decryptor' ({}): a string the AESV2 decoder cannot decrypt is accepted: {}", name, got.text), replay);
            }
        }
    }
}

/// `witnesses`: all of them (`Some(None)`), one (`Some(Some(index))`) or none; then the random cases `from..to`
fn enc_streams(driver: &Driver, seed: u64, witnesses: Option<Option<u64>>, from: u64, to: u64, render_st: &mut Stream) -> (Stream, Oracle) {
    let mut st = Stream::new("c03.enc", true);
    let mut or = Oracle::new("c03.decrypts");
    let broken = |or: &mut Oracle, origin: &str, case: u64, e: String| {
        or.fail("enc-decoder", &format!("no decoder for a dictionary computed by the harness's implementation of the standard security handler: {}", e), json!({"stream": origin, "seed": seed, "case": case}));
    };
    if let Some(only) = witnesses {
        match enc_witness_cases() {
            Ok(ws) => {
                let ws: Vec<ECase> = ws.into_iter().filter(|e| only.map(|c| c == e.case).unwrap_or(true)).collect();
                run_enc_cases(driver, &ws, &mut st, &mut or, render_st);
            }
            Err(e) => broken(&mut or, "c03.enc.witness", 0, e),
        }
        if only.is_none() { failing_decryptor_witnesses(&mut or); }
    }
    let mut lo = from;
    while lo < to {
        let hi = (lo + 20_000).min(to);
        let mut cases = vec![];
        for case in lo..hi {
            match gen_enc_case(seed, case) {
                Ok(e) => cases.push(e),
                Err(e) => broken(&mut or, "c03.enc", case, e),
            }
        }
        run_enc_cases(driver, &cases, &mut st, &mut or, render_st);
        lo = hi;
    }
    (st, or)
}

// ---------------------------------------------------------------------------------------------------
// the cursor after parse_with_lexer: `c03.parsec` (Model/ParserCursor.parseWithLexerC) and the oracle c03.restore

pub struct CursorOut {
    /// `ok <value> <cursor> <cursor>` (the position a successful parse reports IS the lexer's cursor) / `err <cursor>` / `panic`
    pub text: String,
    /// `ok` | `err` | `panic`
    pub outcome: &'static str,
    pub cursor: usize,
}

/// `parse_with_lexer` started at `pos`, then `Lexer::get_pos`
pub fn imp_parsec(buf: &[u8], pos: usize, flags: u16, off: usize, lens: &LenMap) -> CursorOut {
    catch_unwind(AssertUnwindSafe(|| {
        let res = TestResolve::new(lens, false);
        let mut lx = lexer_at(buf, pos, off);
        let r = parse_with_lexer(&mut lx, &res, ParseFlags::from_bits_truncate(flags));
        let cursor = lx.get_pos();
        match r {
            Ok(p) => CursorOut { text: format!("ok {} {} {}", show_canon(&prim_to_val(&p, &res)), cursor, cursor), outcome: "ok", cursor },
            Err(_) => CursorOut { text: format!("err {}", cursor), outcome: "err", cursor },
        }
    }))
    .unwrap_or_else(|_| CursorOut { text: "panic".into(), outcome: "panic", cursor: 0 })
}

/// the model's answer to `c03.parsec` in the form of `imp_parsec`
pub fn canon_parsec_answer(ans: &str) -> String {
    let f: Vec<&str> = ans.split(' ').collect();
    match (f.first().copied(), f.len()) {
        (Some("ok"), 4) => match read_val(f[1]) {
            Some(v) => format!("ok {} {} {}", show_canon(&v), f[2], f[3]),
            None => format!("ok unreadable:{} {} {}", f[1], f[2], f[3]),
        },
        (Some("ok"), _) => format!("malformed:{}", ans),
        _ => ans.to_string(),
    }
}

pub fn parsec_request(buf: &[u8], pos: usize, flags: u16, off: usize, lens: &LenMap) -> String {
    format!("c03.parsec {} {} {} {} {}", hex(buf), pos, flags, off, show_lens(lens))
}

/// the property's own clause about the cursor: `None` = holds
fn check_restore(out: &CursorOut, start: usize, len: usize) -> Option<(&'static str, String)> {
    match out.outcome {
        "err" if out.cursor != start => Some(("cursor-not-restored", format!("parse_with_lexer returned Err but the lexer stands at {} instead of the start position {}", out.cursor, start))),
        "ok" if !(out.cursor > start && out.cursor <= len) => Some(("cursor-out-of-range", format!("parse_with_lexer returned Ok but the lexer stands at {} (start {}, buffer length {})", out.cursor, start, len))),
        "panic" => Some(("panic", "parse_with_lexer panicked".into())),
        _ => None,
    }
}

struct CCase {
    /// the stream that produced the case (for the replay): c03.cursor | c03.cursor.any | c03.cursor.witness
    origin: &'static str,
    seed: u64,
    case: u64,
    in_domain: bool,
    kind: String,
    buf: Vec<u8>,
    pos: usize,
    flags: u16,
    off: usize,
    lens: LenMap,
}

const CURSOR_WITNESSES: [(&str, &[u8], u16); 10] = [
    ("unterminated string inside an array", b"[1 2 (a", 1023),
    ("dictionary value cut off", b"<< /A 1 0", 1023),
    ("dictionary key without a value", b"<< /A >>", 1023),
    ("unterminated array", b"[1 2 3", 1023),
    ("name with a cut-off escape", b"/#4", 1023),
    ("integer where only a name is allowed", b"5", 16),
    ("unterminated string", b"(abc", 1023),
    ("hexadecimal string with a bad digit", b"<4g>", 1023),
    ("unknown keyword", b"xyz", 1023),
    ("empty buffer", b"", 1023),
];

/// every witness at start 0 and behind a 3-byte prefix
fn cursor_witnesses() -> Vec<CCase> {
    let mut out = vec![];
    for (idx, (name, text, flags)) in CURSOR_WITNESSES.iter().enumerate() {
        for (k, prefix) in [&b""[..], &b"7 ["[..]].iter().enumerate() {
            let mut buf = prefix.to_vec();
            buf.extend_from_slice(text);
            // only the disallowed-flags witness is a conformant spelling
            out.push(CCase { origin: "c03.cursor.witness", seed: 0, case: (idx * 2 + k) as u64, in_domain: *flags != 1023, kind: format!("witness: {}", name), buf, pos: prefix.len(), flags: *flags, off: 0, lens: vec![] });
        }
    }
    out
}

/// the conformant renderings of `c03.parse` that are parsed in mode plain (same case numbers)
fn gen_cursor_case(seed: u64, case: u64) -> Option<CCase> {
    let p = gen_pcase_opt(seed, case, true)?;
    let deep = nest(&p.c.value) > 20;
    let kind = format!("{}{}", if deep { "too-deep " } else { "" }, if p.flags == 1023 { "flags=any" } else if p.allowed { "flags=restricted-allowed" } else { "flags=restricted-disallowed" });
    Some(CCase { origin: "c03.cursor", seed, case, in_domain: !deep, kind, buf: p.buf, pos: p.pos, flags: p.flags, off: p.off, lens: p.c.lens })
}

const PSOUP: [&[u8]; 44] = [
    b" ", b"\n", b"\r\n", b"\x00", b"% c\n", b"%x", b"<<", b">>", b"<", b">", b"[", b"]", b"(", b")", b"(a)", b"(a\\", b"<41>", b"<4", b"<4g>", b"/", b"/A", b"/#4", b"/#gg", b"/#41",
    b"1", b"0", b"-3", b"4.5", b"+.", b"1.2.3", b"2147483648", b"1 0 R", b"0 0", b"R", b"true", b"false", b"null", b"nul", b"stream\n", b"endstream", b"obj", b"endobj", b"\xff", b"{",
];

/// mutated renderings, token soup, noise; any start position inside the buffer, any flags
fn gen_cursor_any_case(seed: u64, case: u64) -> CCase {
    let mut rng = Rng::derive(seed, "c03.cursor.any", case);
    let cfg = GenCfg { bad_name_pct: 2, wild_names: false };
    let mut lens = vec![];
    let mut start = 0;
    let (kind, buf): (&str, Vec<u8>) = match rng.below(10) {
        0..=4 => {
            let tail: &[u8] = *rng.pick(&TAILS);
            let c = match rng.below(5) {
                0..=2 => { let v = gen_val(&mut rng, 0, &cfg); render_random(&mut rng, "val", v, tail, (1, 0), vec![]) }
                3 => { let v = gen_val(&mut rng, 0, &cfg); render_random(&mut rng, "ind", v, tail, (7, 0), vec![]) }
                _ => { let (v, l) = gen_stream(&mut rng, &cfg, true); render_random(&mut rng, "val", v, tail, (7, 0), l) }
            };
            lens = c.lens.clone();
            start = rng.usize(4);
            let mut buf = rng.bytes(start);
            let mut text = c.text;
            let intact = rng.chance(1, 8);
            if !intact { mutate(&mut rng, &mut text); }
            buf.extend_from_slice(&text);
            (if intact { "rendering (val / ind / stream text) read as a plain value" } else { "mutated-rendering" }, buf)
        }
        5..=7 => {
            let mut b = vec![];
            for _ in 0..rng.usize(16) {
                b.extend_from_slice(if rng.chance(1, 4) { *rng.pick(&SOUP) } else { *rng.pick(&PSOUP) });
                if rng.chance(1, 2) { b.push(b' '); }
            }
            ("token-soup", b)
        }
        8 => { let n = rng.usize(25); ("random-bytes", rng.bytes(n)) }
        _ => { let n = rng.usize(13); ("alphabet-bytes", (0..n).map(|_| *rng.pick(&ALPHABET24)).collect()) }
    };
    let pos = match rng.below(6) { 0..=2 => start.min(buf.len()), 3 | 4 => rng.usize(buf.len() + 1), _ => buf.len() - rng.usize(buf.len().min(2) + 1) };
    let flags = if rng.chance(1, 2) { 1023 } else { rng.below(1024) as u16 };
    let off = if rng.chance(1, 4) { 1 + rng.usize(1000) } else { 0 };
    CCase { origin: "c03.cursor.any", seed, case, in_domain: false, kind: kind.into(), buf, pos, flags, off, lens }
}

/// runs the cases: implementation against the oracle `c03.restore`, and against the model (`c03.parsec`) in the
/// stream the case belongs to
fn run_cursor_cases(driver: &Driver, cases: &[CCase], st: &mut Stream, any: &mut Stream, or: &mut Oracle) {
    for chunk in cases.chunks(50_000) {
        let mut reqs = vec![];
        let mut imps = vec![];
        for c in chunk {
            let got = imp_parsec(&c.buf, c.pos, c.flags, c.off, &c.lens);
            let start = c.pos.min(c.buf.len());
            or.count(&format!("outcome={}", got.outcome));
            or.count(&format!("origin={}", c.origin));
            or.count(&format!("input={}", c.kind));
            or.count(if start == 0 { "start=0" } else if start == c.buf.len() { "start=end-of-buffer" } else { "start=inside" });
            if got.outcome == "ok" && got.cursor == c.buf.len() { or.count("ok-cursor=end-of-buffer"); }
            let rq = parsec_request(&c.buf, c.pos, c.flags, c.off, &c.lens);
            or.case(&rq, true, || json!({"input": c.kind, "text": String::from_utf8_lossy(&c.buf), "pos": c.pos, "flags": c.flags, "got": got.text}));
            if let Some((sig, what)) = check_restore(&got, start, c.buf.len()) {
                or.count(&format!("failure={}", sig));
                or.fail(sig, &format!("{} ({})", what, c.kind), json!({"stream": c.origin, "seed": c.seed, "case": c.case, "input": c.kind, "buffer": hex(&c.buf), "pos": c.pos, "flags": c.flags,
                    "file_offset": c.off, "lens": show_lens(&c.lens), "got": got.text, "text": String::from_utf8_lossy(&c.buf)}));
            }
            reqs.push(rq);
            imps.push(got.text);
        }
        let resp = driver.ask(&reqs);
        for (((rq, m), i), c) in reqs.iter().zip(resp.iter()).zip(imps.iter()).zip(chunk.iter()) {
            let m = canon_parsec_answer(m);
            let s = if c.in_domain { &mut *st } else { &mut *any };
            s.count(&format!("outcome={}", m.split(' ').next().unwrap_or("")));
            s.count(&format!("input={}", c.kind));
            if c.off != 0 { s.count("file-offset=nonzero"); }
            s.case(rq, &m, i, true);
        }
    }
}

/// a stored case of the cursor streams / of `c03.restore`: the input itself if the replay carries it, else regenerated
fn cursor_replay_case(r: &Value, seed: u64, case: u64, stream: &str) -> Option<CCase> {
    if let Some(buf) = r["buffer"].as_str().and_then(unhex) {
        let num = |k: &str| r[k].as_u64().unwrap_or(0);
        return Some(CCase { origin: "c03.cursor.any", seed, case, in_domain: false, kind: r["input"].as_str().unwrap_or("replayed input").to_string(), buf, pos: num("pos") as usize,
            flags: r["flags"].as_u64().unwrap_or(1023) as u16, off: num("file_offset") as usize, lens: r["lens"].as_str().and_then(read_lens).unwrap_or_default() });
    }
    match stream {
        "c03.cursor" => gen_cursor_case(seed, case),
        "c03.cursor.witness" => cursor_witnesses().into_iter().find(|c| c.case == case),
        _ => Some(gen_cursor_any_case(seed, case)),
    }
}

fn cursor_streams(driver: &Driver, seed: u64, n_conformant: u64, n_any: u64) -> (Vec<Stream>, Oracle) {
    let mut st = Stream::new("c03.cursor", true);
    let mut any = Stream::new("c03.cursor.any", false);
    let mut or = Oracle::new("c03.restore");
    // deterministic witnesses first
    run_cursor_cases(driver, &cursor_witnesses(), &mut st, &mut any, &mut or);
    let mut lo = 0;
    while lo < n_conformant {
        let hi = (lo + 50_000).min(n_conformant);
        let cases: Vec<CCase> = (lo..hi).filter_map(|case| gen_cursor_case(seed, case)).collect();
        run_cursor_cases(driver, &cases, &mut st, &mut any, &mut or);
        lo = hi;
    }
    let mut lo = 0;
    while lo < n_any {
        let hi = (lo + 50_000).min(n_any);
        let cases: Vec<CCase> = (lo..hi).map(|case| gen_cursor_any_case(seed, case)).collect();
        run_cursor_cases(driver, &cases, &mut st, &mut any, &mut or);
        lo = hi;
    }
    (vec![st, any], or)
}

// ---------------------------------------------------------------------------------------------------
// the tails are the proven ones

fn sorted_list(s: &str) -> String {
    let mut v: Vec<&str> = s.split(',').collect();
    v.sort();
    v.join(",")
}

/// the harness's tails in the notation of `c03.tails`, sorted
pub fn own_tails() -> String {
    sorted_list(&TAILS.iter().map(|t| hex(t)).collect::<Vec<_>>().join(","))
}

/// the tails appended to renderings are exactly `Spec/Render.tails` (for which `Lemmas/RenderTail` is proved)
fn tails_stream(driver: &Driver) -> Stream {
    let mut st = Stream::new("c03.tails", true);
    st.exhaustive = true;
    let rq = "c03.tails".to_string();
    let resp = driver.ask(&[rq.clone()]);
    let (m, i) = both_sides(&rq, &resp[0]);
    *st.histogram.entry("tails".into()).or_insert(0) += TAILS.len() as u64;
    st.case(&rq, &m, &i, true);
    st
}

fn gen_str_case(seed: u64, case: u64) -> (Vec<u8>, bool, Vec<u8>, usize, usize) {
    let mut rng = Rng::derive(seed, "c03.str", case);
    let mut s = if rng.chance(1, 6) { gen_fragile_string(&mut rng) } else { gen_string(&mut rng) };
    if rng.chance(1, 8) { for _ in 0..3 { s.extend(gen_string(&mut rng)); } }
    let is_hex = rng.chance(1, 3);
    let mut tape = Tape::lazy(Rng::new(rng.next()));
    let tok = if is_hex { hex_str_tok(&s, &mut tape) } else { lit_str_tok(&s, &mut tape) };
    let npre = rng.usize(4);
    let mut buf = rng.bytes(npre);
    buf.extend_from_slice(&tok);
    let end = buf.len();
    let ntail = rng.usize(7);
    buf.extend((0..ntail).map(|_| *rng.pick(b")(>< \n\\07a\xff")));
    (s, is_hex, buf, npre + 1, end)
}

fn str_streams(driver: &Driver, seed: u64, from: u64, to: u64, njunk: u64, or: &mut Oracle) -> Vec<Stream> {
    let mut st = Stream::new("c03.str", true);
    let mut junk = Stream::new("c03.str.junk", false);
    let mut reqs = vec![];
    for case in from..to {
        let (s, is_hex, buf, pos, end) = gen_str_case(seed, case);
        st.count(if is_hex { "form=hex" } else { "form=literal" });
        let rq = format!("{} {} {}", if is_hex { "c03.hexstr" } else { "c03.litstr" }, hex(&buf), pos);
        let got = if is_hex { imp_hexstr(&buf, pos) } else { imp_litstr(&buf, pos) };
        let exp = format!("ok {} {}", hex(&s), end);
        or.count(if is_hex { "string-lexer=hex" } else { "string-lexer=literal" });
        or.case(&rq, true, || json!({"string": hex(&s), "text": String::from_utf8_lossy(&buf), "got": got}));
        if got != exp {
            or.fail(if got == "panic" { "panic" } else if is_hex { "string-hex" } else { "string-literal" }, "the string lexer does not give back the bytes that were spelled (or stops elsewhere)",
                json!({"stream": "c03.str", "seed": seed, "case": case, "value": show_val(&Val::Str(s.clone())), "buffer": hex(&buf), "pos": pos, "expected": exp, "got": got}));
        }
        reqs.push(rq);
        if reqs.len() >= 100_000 { compare(driver, &mut st, &reqs); reqs.clear(); }
    }
    compare(driver, &mut st, &reqs);
    let mut reqs = vec![];
    for case in 0..njunk {
        let mut rng = Rng::derive(seed, "c03.str.junk", case);
        let is_hex = rng.chance(1, 3);
        let mut buf = vec![];
        if rng.chance(1, 2) {
            let (_, h, b, _, _) = gen_str_case(seed ^ 0x5555, case);
            if h == is_hex { buf = b; mutate(&mut rng, &mut buf); }
        }
        if buf.is_empty() {
            for _ in 0..rng.usize(12) {
                if is_hex { buf.push(*rng.pick(b"0123456789abcdefABCDEF> \n\r\t\x0c\x00gG<x")); } else { buf.extend_from_slice(*rng.pick(&[&b"\\"[..], b"(", b")", b"\r", b"\n", b"\\\r", b"\\\n", b"7", b"8", b"0", b"a", b"\\12", b"\\777", b"\xff", b"n"])); }
            }
        }
        let pos = rng.usize(buf.len().min(3) + 1);
        junk.count(if is_hex { "form=hex" } else { "form=literal" });
        reqs.push(format!("{} {} {}", if is_hex { "c03.hexstr" } else { "c03.litstr" }, hex(&buf), pos));
    }
    compare(driver, &mut junk, &reqs);
    vec![st, junk]
}

// ---------------------------------------------------------------------------------------------------
// deterministic witnesses (run first on every run, independent of the seed)

struct Wit {
    name: &'static str,
    buf: &'static [u8],
    /// `plain` | `ind0` | `seq`
    mode: &'static str,
    exp: Vec<Val>,
    /// cursor after every object
    ends: Vec<usize>,
}

fn n(s: &str) -> Val { Val::Name(s.as_bytes().to_vec()) }
fn s(b: &[u8]) -> Val { Val::Str(b.to_vec()) }

fn denotes_witnesses() -> Vec<Wit> {
    let w = |name, buf: &'static [u8], exp: Val| Wit { name, buf, mode: "plain", exp: vec![exp], ends: vec![buf.len()] };
    // the value's text ends at `end`, something follows
    let we = |name, buf: &'static [u8], exp: Val, end: usize| Wit { name, buf, mode: "plain", exp: vec![exp], ends: vec![end] };
    vec![
        // (a) the open finding
        w("open: name that is not UTF-8", b"/#ff", Val::Name(vec![0xff])),
        w("open: key that is not UTF-8", b"<< /#ff 1 >>", Val::Dict(vec![(vec![0xff], Val::Int(1))])),
        // (b) regression witnesses of repaired defects
        w("+17", b"+17", Val::Int(17)),
        w("+.5", b"+.5", Val::Real("0.5".into())),
        w("comment ended by CR", b"% c\r5", Val::Int(5)),
        w("backslash before a plain character", b"(\\q)", s(b"q")),
        w("raw CR in a string", b"(a\rb)", s(b"a\nb")),
        w("raw CR LF in a string", b"(a\r\nb)", s(b"a\nb")),
        w("continuation then raw CR", b"(a\\\n\rb)", s(b"a\nb")),
        w("NUL inside a hex string", b"<4\x001>", s(b"\x41")),
        Wit { name: "comment between dictionary and stream keyword", buf: b"1 0 obj << /Length 3 >> % c\nstream\nabc\nendstream endobj", mode: "ind0",
              exp: vec![Val::StreamPending(vec![(b"Length".to_vec(), Val::Int(3))], b"abc".to_vec())], ends: vec![55] },
        w("#20 in a key", b"<< /A#20B 1 >>", Val::Dict(vec![(b"A B".to_vec(), Val::Int(1))])),
        w("integer at the end of the buffer", b"5", Val::Int(5)),
        w("integers before a reference", b"[1 2 3 0 R]", Val::Arr(vec![Val::Int(1), Val::Int(2), Val::Ref(3, 0)])),
        w("no white-space at all", b"[/A/B(x)<41>[1]<</K/V>>]", Val::Arr(vec![n("A"), n("B"), s(b"x"), s(b"A"), Val::Arr(vec![Val::Int(1)]), Val::Dict(vec![(b"K".to_vec(), n("V"))])])),
        // (c) layout freedoms that proved fragile in other readers (hand-written texts; `freedom.comment.*`, `freedom.name.hash-count`,
        //     `freedom.lit.paren-depth`, `freedom.lit.octal.before-*` count how often the renderings exercise them)
        we("comment glued to an integer, end of buffer", b"12%c\n", Val::Int(12), 2),
        we("comment glued to an integer, then a name", b"12%c\n/X", Val::Int(12), 2),
        we("comment glued to an integer, then an integer", b"12%c\n 1 0 obj", Val::Int(12), 2),
        w("comment glued to an integer inside an array", b"[12%c\n13]", Val::Arr(vec![Val::Int(12), Val::Int(13)])),
        w("three comments without a byte between them", b"[1%a\n%b\r%c\r\n2]", Val::Arr(vec![Val::Int(1), Val::Int(2)])),
        w("two comments with white-space between them", b"[ 1 % a\n % b\n 2]", Val::Arr(vec![Val::Int(1), Val::Int(2)])),
        w("name with three #xx", b"/A#20B#23C#2f", n("A B#C/")),
        w("name made of #xx only", b"/#41#42#43", n("ABC")),
        w("parentheses nested four deep", b"(a(b(c(d)c)b)a)", s(b"a(b(c(d)c)b)a")),
        w("parentheses only", b"((()))", s(b"(())")),
        w("one octal digit before 8", b"(\\18)", s(b"\x018")),
        w("two octal digits before 9", b"(\\129)", s(b"\x0a9")),
        w("three octal digits before an octal digit", b"(\\0053)", s(b"\x053")),
        w("short octal escapes before 8, 9 and the end", b"(\\18\\19\\7)", s(b"\x018\x019\x07")),
        w("comment glued to an integer inside a dictionary", b"<< /K 12%c\n/L(x)>>", Val::Dict(vec![(b"K".to_vec(), Val::Int(12)), (b"L".to_vec(), s(b"x"))])),
    ]
}

fn sequence_witnesses() -> Vec<Wit> {
    vec![
        Wit { name: "open: name that is not UTF-8 in a sequence", buf: b"/#ff 1", mode: "seq", exp: vec![Val::Name(vec![0xff]), Val::Int(1)], ends: vec![4, 6] },
        Wit { name: "form feed between integers", buf: b"1\x0c2", mode: "seq", exp: vec![Val::Int(1), Val::Int(2)], ends: vec![1, 3] },
        Wit { name: "integers before a reference", buf: b"1 2 3 0 R", mode: "seq", exp: vec![Val::Int(1), Val::Int(2), Val::Ref(3, 0)], ends: vec![1, 3, 9] },
        Wit { name: "no white-space at all", buf: b"/A/B(x)<41>[1]<</K/V>>", mode: "seq",
              exp: vec![n("A"), n("B"), s(b"x"), s(b"A"), Val::Arr(vec![Val::Int(1)]), Val::Dict(vec![(b"K".to_vec(), n("V"))])], ends: vec![2, 4, 7, 11, 14, 22] },
        Wit { name: "integer then end of buffer", buf: b"7 5", mode: "seq", exp: vec![Val::Int(7), Val::Int(5)], ends: vec![1, 3] },
    ]
}

fn run_witnesses(or: &mut Oracle, wits: &[Wit], stream: &str, only: Option<u64>) {
    for (idx, w) in wits.iter().enumerate() {
        if only.map(|c| c != idx as u64).unwrap_or(false) { continue; }
        or.count("witness");
        // a top-level string witness: the form is the first byte of its text
        let forms: Vec<(Vec<u8>, bool)> = match w.exp.first() { Some(Val::Str(b)) if w.exp.len() == 1 => vec![(b.clone(), w.buf.first() == Some(&b'<'))], _ => vec![] };
        let got_text;
        let res = match w.mode {
            "seq" => {
                let spans: Vec<(usize, usize)> = w.ends.iter().map(|e| (0, *e)).collect();
                let (mut rq, mut im) = (vec![], vec![]);
                let r = run_sequence(w.buf, 0, &w.exp, &spans, &forms, &mut rq, &mut im);
                got_text = im.join(" | ");
                r
            }
            m => {
                let got = imp_parse(m, w.buf, 0, 1023, 0, &vec![], None);
                got_text = got.text.clone();
                let id = if m == "plain" { None } else { Some((1, 0)) };
                check_denotes(&w.exp[0], id, Some(w.ends[0]), &got, w.buf, 0, &forms)
            }
        };
        or.case(&format!("witness {}", w.name), true, || json!({"witness": w.name, "text": String::from_utf8_lossy(w.buf), "got": got_text}));
        if let Some((sig, what)) = res {
            or.fail(&sig, &format!("witness '{}': {}", w.name, what), json!({"stream": stream, "seed": 0, "case": idx, "witness": w.name, "buffer": hex(w.buf),
                "expected": format!("{} ends {:?}", w.exp.iter().map(show_canon).collect::<Vec<_>>().join(" "), w.ends), "got": got_text, "text": String::from_utf8_lossy(w.buf)}));
        }
    }
}

// ---------------------------------------------------------------------------------------------------

pub fn run(driver: &Driver, seed: u64, thorough: bool, replay: Option<&Value>) -> Report {
    let mut rep = Report::new("C03");
    // debugging aid: PDFVERIF_DEBUG=1 prints panics raised by the harness's own code (main silences all)
    if std::env::var("PDFVERIF_DEBUG").is_ok() { std::panic::set_hook(Box::new(|i| { if let Some(l) = i.location() { if l.file().starts_with("src/") { eprintln!("PANIC {}", i); } } })); }
    let mut render_st = Stream::new("c03.render", true);
    if let Some(r) = replay {
        let seed = r["seed"].as_u64().unwrap_or(seed);
        let case = r["case"].as_u64().unwrap_or(0);
        let stream = r["stream"].as_str().unwrap_or("");
        if let Some(req) = r["disagreement"]["request"].as_str() {
            // a stored disagreement: the same request to both sides
            let mut st = Stream::new(stream, true);
            let resp = driver.ask(&[driver_line(req)]);
            let (m, i) = both_sides(req, &resp[0]);
            st.case(req, &m, &i, true);
            rep.streams.push(st);
            return rep;
        }
        match stream {
            "c03.witness.denotes" => { let mut or = Oracle::new("c03.denotes"); run_witnesses(&mut or, &denotes_witnesses(), stream, Some(case)); rep.oracles.push(or); }
            "c03.witness.sequence" => { let mut or = Oracle::new("c03.sequence"); run_witnesses(&mut or, &sequence_witnesses(), stream, Some(case)); rep.oracles.push(or); }
            "c03.seq" => { let (st, or) = seq_streams(driver, seed, case, case + 1, &mut render_st); rep.streams.push(st); rep.oracles.push(or); rep.streams.push(render_st); }
            "c03.cursor" | "c03.cursor.any" | "c03.cursor.witness" | "c03.restore" => {
                let mut st = Stream::new("c03.cursor", true);
                let mut any = Stream::new("c03.cursor.any", false);
                let mut or = Oracle::new("c03.restore");
                if let Some(c) = cursor_replay_case(r, seed, case, stream) { run_cursor_cases(driver, &[c], &mut st, &mut any, &mut or); }
                rep.streams.push(st); rep.streams.push(any); rep.oracles.push(or);
            }
            "c03.enc" | "c03.decrypts" => { let (st, or) = enc_streams(driver, seed, None, case, case + 1, &mut render_st); rep.streams.push(st); rep.oracles.push(or); rep.streams.push(render_st); }
            "c03.enc.witness" => { let (st, or) = enc_streams(driver, seed, Some(Some(case)), 0, 0, &mut render_st); rep.streams.push(st); rep.oracles.push(or); rep.streams.push(render_st); }
            "c03.enc.failing-decryptor" => { let mut or = Oracle::new("c03.decrypts"); failing_decryptor_witnesses(&mut or); rep.oracles.push(or); }
            "c03.tails" => rep.streams.push(tails_stream(driver)),
            "c03.str" => { let mut or = Oracle::new("c03.denotes"); let sts = str_streams(driver, seed, case, case + 1, 0, &mut or); rep.streams.extend(sts); rep.oracles.push(or); }
            _ => { let (sts, or) = parse_streams(driver, seed, case, case + 1, &mut render_st); rep.streams.extend(sts); rep.oracles.push(or); rep.streams.push(render_st); }
        }
        return rep;
    }
    let k: u64 = if thorough { 60 } else { 1 };
    // oracles: witnesses first
    let mut den = Oracle::new("c03.denotes");
    run_witnesses(&mut den, &denotes_witnesses(), "c03.witness.denotes", None);
    let mut sq = Oracle::new("c03.sequence");
    run_witnesses(&mut sq, &sequence_witnesses(), "c03.witness.sequence", None);

    rep.streams.extend(class_streams(driver));
    rep.streams.extend(word_streams(driver, thorough));
    rep.streams.push(lexops_stream(driver, seed, 20000 * k));
    rep.streams.extend(tok_streams(driver, seed, 10000 * k));
    rep.streams.push(utf8_stream(driver, seed, 20000 * k));
    rep.streams.push(floattext_stream(driver, if thorough { 6 } else { 4 }));
    rep.notes.push("c03.floattext validates an ASSUMPTION of the model, not a theorem: `Env.parseReal` (= str::parse::<f32>, std code outside the model) accepts exactly the texts `validFloatText` accepts among all texts over `+-.0123456789` up to the stated length".into());
    rep.streams.extend(str_streams(driver, seed, 0, 30000 * k, 10000 * k, &mut den));
    let (sts, or) = parse_streams(driver, seed, 0, 50000 * k, &mut render_st);
    rep.streams.extend(sts);
    merge_oracle(&mut den, or);
    let (st, or) = seq_streams(driver, seed, 0, 15000 * k, &mut render_st);
    rep.streams.push(st);
    merge_oracle(&mut sq, or);
    // witnesses of c03.decrypts first, then the random cases
    let (enc_st, decrypts) = enc_streams(driver, seed, Some(None), 0, 6000 * k, &mut render_st);
    rep.streams.push(enc_st);
    rep.notes.push("c03.enc / c03.decrypts: the decoder is the real `Decoder::from_password` / `Decoder::default` on a dictionary whose /O and /U the harness's own implementation of the standard security handler computed (V 1 / R 2 with 5 key bytes, V 2 / R 3 with 16); the model (`c03.parsedec`) receives the per-object key only (MD5(file key, 3 bytes of the number, 2 bytes of the generation), computed by the harness), so the key derivation itself is C06's subject, not this stream's".into());
    let never: Vec<&str> = FREEDOM_KEYS.iter().copied().filter(|k| render_st.histogram.get(*k).copied().unwrap_or(0) == 0).collect();
    rep.notes.push(format!("layout freedoms of the printer never exercised by the renderings of this run (c03.render histogram `freedom.*`, {} keys): {}", FREEDOM_KEYS.len(), if never.is_empty() { "none".to_string() } else { never.join(", ") }));
    rep.streams.push(render_st);
    rep.streams.push(mutated_stream(driver, seed, 20000 * k));
    let (sts, restore) = cursor_streams(driver, seed, 50000 * k, 20000 * k);
    rep.streams.extend(sts);
    rep.streams.push(tails_stream(driver));
    rep.notes.push("the cursor of `parse_stream` (mode stm) cannot be observed through the public API: value only".into());
    rep.oracles.push(den);
    rep.oracles.push(sq);
    rep.oracles.push(decrypts);
    rep.oracles.push(restore);
    rep
}

/// records a failure; the signature of the open finding is recorded a few times only (it would fill the
/// list and hide other failures), the rest is counted
pub fn fail_limited(or: &mut Oracle, sig: &str, what: &str, replay: Value) {
    or.count(&format!("failure={}", sig));
    if sig == "name-not-utf8" && or.failures.iter().filter(|f| f["signature"] == "name-not-utf8").count() >= 4 {
        return;
    }
    or.fail(sig, what, replay);
}

/// folds the counters of `b` into `a` (same oracle computed in parts)
pub fn merge_oracle(a: &mut Oracle, b: Oracle) {
    a.cases += b.cases;
    a.distinct_nontrivial += b.distinct_nontrivial;
    for f in b.failures {
        let known = f["signature"] == "name-not-utf8" && a.failures.iter().filter(|g| g["signature"] == "name-not-utf8").count() >= 4;
        if a.failures.len() < 50 && !known { a.failures.push(f); }
    }
    for s in b.samples { if a.samples.len() < 6 { a.samples.push(s); } }
    for (k, v) in b.histogram { *a.histogram.entry(k).or_insert(0) += v; }
}
