//! C03 — the lexer/parser reads every specification-conformant spelling of a value as that value and
//! rests exactly behind it.
//!
//! Correspondence streams (model = lean/PdfModel/Model/{Lexer,StrLexer,Parser}.lean, printer =
//! Spec/Render.lean with its Rust twin c03_render.rs):
//!   c03.class (+ .drift)        all 256 bytes: white-space, delimiter, hex white-space, octal, nibble, hex digit
//!   c03.word.exhaustive / .eof  every buffer of length ≤ 2 (thorough: 3 over an alphabet) × every position: Lexer::next
//!   c03.lexops                  token soup: peek, back, next_expect, next_stream, read_n, set_pos, offset_pos
//!   c03.tok / c03.tok.junk      Substr::is_integer, real_number, to::<i32>, to::<u64>, name decoding
//!   c03.utf8                    str::from_utf8 against the model's `utf8Valid`
//!   c03.floattext               f32::from_str against `validFloatText` (an ASSUMPTION of the model)
//!   c03.str / c03.str.junk      StringLexer / HexStringLexer loops
//!   c03.render                  twin printer against the Lean printer
//!   c03.parse / .deep / .mutated  parse_with_lexer, parse_indirect_object, parse_stream on renderings
//!   c03.seq                     sequences parsed one after the other
//! Oracles (the real library against the printer's input value, independent of the model):
//!   c03.denotes                 the value read equals the value printed, the cursor rests behind its text
//!   c03.sequence                the i-th parse of a sequence gives the i-th value and rests behind the i-th text

#[path = "c03_render.rs"]
pub mod render;

use self::render::*;
use crate::driver::{hex, unhex, Driver};
use crate::report::*;
use crate::rng::Rng;
use pdf::error::PdfError;
use pdf::object::{Object, ParseOptions, PlainRef, RcRef, Ref, Resolve};
use pdf::enc::StreamFilter;
use pdf::parser::{parse_indirect_object, parse_stream, parse_with_lexer, Context, HexStringLexer, Lexer, ParseFlags, StringLexer, Substr};
use pdf::primitive::Primitive;
use serde_json::{json, Value};
use std::cell::RefCell;
use std::ops::Range;
use std::panic::{catch_unwind, AssertUnwindSafe};
use std::sync::Arc;

// ---------------------------------------------------------------------------------------------------
// the resolver handed to the parser

pub type LenMap = Vec<((u64, u64), u64)>;

pub struct TestResolve {
    pub lens: LenMap,
    pub opts: ParseOptions,
    /// every `stream_data(id, range)` call (how the harness reads the private `StreamInner::InFile`)
    pub seen: RefCell<Vec<(PlainRef, Range<usize>)>>,
}

impl TestResolve {
    pub fn new(lens: &LenMap, tolerant: bool) -> TestResolve {
        TestResolve { lens: lens.clone(), opts: if tolerant { ParseOptions::tolerant() } else { ParseOptions::strict() }, seen: RefCell::new(vec![]) }
    }
}

impl Resolve for TestResolve {
    fn resolve_flags(&self, r: PlainRef, _flags: ParseFlags, _depth: usize) -> pdf::error::Result<Primitive> {
        match self.lens.iter().find(|e| e.0 == (r.id, r.gen)) {
            Some(e) => Ok(Primitive::Integer(e.1 as i32)),
            None => Err(PdfError::Reference),
        }
    }
    fn get<T: Object>(&self, _r: Ref<T>) -> pdf::error::Result<RcRef<T>> {
        Err(PdfError::Reference)
    }
    fn options(&self) -> &ParseOptions {
        &self.opts
    }
    fn stream_data(&self, id: PlainRef, range: Range<usize>) -> pdf::error::Result<Arc<[u8]>> {
        self.seen.borrow_mut().push((id, range));
        Ok(Arc::from(&[][..]))
    }
    fn get_data_or_decode(&self, _: PlainRef, _: Range<usize>, _: &[StreamFilter]) -> pdf::error::Result<Arc<[u8]>> {
        Err(PdfError::Reference)
    }
}

pub fn show_lens(l: &LenMap) -> String {
    if l.is_empty() {
        "-".into()
    } else {
        l.iter().map(|((i, g), n)| format!("{}.{}={}", i, g, n)).collect::<Vec<_>>().join(";")
    }
}

pub fn read_lens(s: &str) -> Option<LenMap> {
    if s == "-" {
        return Some(vec![]);
    }
    s.split(';')
        .map(|e| {
            let (k, v) = e.split_once('=')?;
            let (i, g) = k.split_once('.')?;
            Some(((i.parse().ok()?, g.parse().ok()?), v.parse().ok()?))
        })
        .collect()
}

// ---------------------------------------------------------------------------------------------------
// Primitive <-> Val

fn dict_to_entries(d: &pdf::primitive::Dictionary, res: &TestResolve) -> Vec<(Vec<u8>, Val)> {
    d.iter().map(|(k, v)| (k.as_str().as_bytes().to_vec(), prim_to_val(v, res))).collect()
}

/// the implementation's value in the harness notation (reals as `#bits`)
pub fn prim_to_val(p: &Primitive, res: &TestResolve) -> Val {
    match p {
        Primitive::Null => Val::Null,
        Primitive::Integer(i) => Val::Int(*i as i64),
        Primitive::Number(f) => Val::Real(format!("#{:08x}", f.to_bits())),
        Primitive::Boolean(b) => Val::Bool(*b),
        Primitive::String(s) => Val::Str(s.as_bytes().to_vec()),
        Primitive::Name(s) => Val::Name(s.as_str().as_bytes().to_vec()),
        Primitive::Reference(r) => Val::Ref(r.id, r.gen),
        Primitive::Array(xs) => Val::Arr(xs.iter().map(|x| prim_to_val(x, res)).collect()),
        Primitive::Dictionary(d) => Val::Dict(dict_to_entries(d, res)),
        Primitive::Stream(s) => {
            let info = dict_to_entries(&s.info, res);
            let before = res.seen.borrow().len();
            let data = s.raw_data(res);
            let after = res.seen.borrow().len();
            if after > before {
                let (id, range) = res.seen.borrow()[after - 1].clone();
                Val::StreamInFile(info, id.id, id.gen, range.start, range.end)
            } else {
                Val::StreamPending(info, data.map(|d| d.to_vec()).unwrap_or_default())
            }
        }
    }
}

/// a value of the harness as a `Primitive` (names must be UTF-8; `InFile` streams cannot be built: `None`)
pub fn val_to_prim(v: &Val) -> Option<Primitive> {
    Some(match v {
        Val::Null => Primitive::Null,
        Val::Int(i) => Primitive::Integer(i32::try_from(*i).ok()?),
        Val::Real(t) => Primitive::Number(f32::from_bits(real_bits(t)?)),
        Val::Bool(b) => Primitive::Boolean(*b),
        Val::Str(s) => Primitive::String(pdf::primitive::PdfString::new(s.as_slice().into())),
        Val::Name(s) => Primitive::Name(std::str::from_utf8(s).ok()?.into()),
        Val::Ref(i, g) => Primitive::Reference(PlainRef { id: *i, gen: *g }),
        Val::Arr(xs) => Primitive::Array(xs.iter().map(val_to_prim).collect::<Option<Vec<_>>>()?),
        Val::Dict(kvs) => Primitive::Dictionary(entries_to_dict(kvs)?),
        Val::StreamPending(info, data) => {
            let mut ps = pdf::object::Stream::<pdf::primitive::Dictionary>::new(pdf::primitive::Dictionary::new(), data.clone()).to_pdf_stream(&mut pdf::object::NoUpdate).ok()?;
            ps.info = entries_to_dict(info)?;
            Primitive::Stream(ps)
        }
        Val::StreamInFile(..) => return None,
    })
}

pub fn entries_to_dict(kvs: &[(Vec<u8>, Val)]) -> Option<pdf::primitive::Dictionary> {
    let mut d = pdf::primitive::Dictionary::new();
    for (k, v) in kvs {
        d.insert(std::str::from_utf8(k).ok()?, val_to_prim(v)?);
    }
    Some(d)
}

// ---------------------------------------------------------------------------------------------------
// value inspection

pub fn kind_name(v: &Val) -> &'static str {
    match v {
        Val::Null => "null",
        Val::Int(_) => "int",
        Val::Real(_) => "real",
        Val::Bool(_) => "bool",
        Val::Str(_) => "string",
        Val::Name(_) => "name",
        Val::Ref(..) => "ref",
        Val::Arr(_) => "array",
        Val::Dict(_) => "dict",
        Val::StreamPending(..) | Val::StreamInFile(..) => "stream",
    }
}

pub fn flag_of(v: &Val) -> u16 {
    match v {
        Val::Int(_) => 1,
        Val::StreamPending(..) | Val::StreamInFile(..) | Val::Dict(_) => 4,
        Val::Real(_) => 8,
        Val::Name(_) => 16,
        Val::Arr(_) => 32,
        Val::Str(_) => 64,
        Val::Bool(_) => 128,
        Val::Null => 256,
        Val::Ref(..) => 512,
    }
}

/// nesting of containers (0 for a scalar); parsing succeeds up to MAX_DEPTH = 20
pub fn nest(v: &Val) -> usize {
    match v {
        Val::Arr(xs) => 1 + xs.iter().map(nest).max().unwrap_or(0),
        Val::Dict(kvs) | Val::StreamPending(kvs, _) | Val::StreamInFile(kvs, ..) => 1 + kvs.iter().map(|(_, v)| nest(v)).max().unwrap_or(0),
        _ => 0,
    }
}

pub fn has_non_utf8_name(v: &Val) -> bool {
    let bad = |b: &Vec<u8>| std::str::from_utf8(b).is_err();
    match v {
        Val::Name(n) => bad(n),
        Val::Arr(xs) => xs.iter().any(has_non_utf8_name),
        Val::Dict(kvs) | Val::StreamPending(kvs, _) | Val::StreamInFile(kvs, ..) => kvs.iter().any(|(k, v)| bad(k) || has_non_utf8_name(v)),
        _ => false,
    }
}

pub fn count_kinds(v: &Val, f: &mut dyn FnMut(&str)) {
    f(kind_name(v));
    match v {
        Val::Arr(xs) => xs.iter().for_each(|x| count_kinds(x, f)),
        Val::Dict(kvs) | Val::StreamPending(kvs, _) | Val::StreamInFile(kvs, ..) => kvs.iter().for_each(|(_, v)| count_kinds(v, f)),
        _ => {}
    }
}

pub struct DiffCtx<'a> {
    /// `Integer` and `Number` of equal numeric value are the same (C04 round trip)
    pub identify_numbers: bool,
    /// where `InFile` ranges point (buffer, lexer file offset) and the id they must carry
    pub buf: &'a [u8],
    pub file_off: usize,
    pub id: Option<(u64, u64)>,
    /// string forms written by the printer (bytes, hex?) to name the construct
    pub forms: &'a [(Vec<u8>, bool)],
}

fn str_kind(s: &[u8], cx: &DiffCtx) -> String {
    let mut hexf = None;
    for (b, h) in cx.forms {
        if b == s {
            match hexf {
                None => hexf = Some(*h),
                Some(x) if x != *h => return "string".into(),
                _ => {}
            }
        }
    }
    match hexf {
        Some(true) => "string-hex".into(),
        Some(false) => "string-literal".into(),
        None => "string".into(),
    }
}

fn diff_entries(a: &[(Vec<u8>, Val)], b: &[(Vec<u8>, Val)], cx: &DiffCtx, what: &str) -> Option<String> {
    if a.len() != b.len() || a.iter().zip(b).any(|(x, y)| x.0 != y.0) {
        // a key that differs because a name was read differently is a name problem
        return Some(what.into());
    }
    for (x, y) in a.iter().zip(b) {
        if let Some(d) = diff_kind(&x.1, &y.1, cx) {
            return Some(d);
        }
    }
    None
}

/// kind of construct at the first difference between the expected and the obtained value
pub fn diff_kind(exp: &Val, got: &Val, cx: &DiffCtx) -> Option<String> {
    match (exp, got) {
        (Val::Null, Val::Null) => None,
        (Val::Int(a), Val::Int(b)) => if a == b { None } else { Some("int".into()) },
        (Val::Real(a), Val::Real(b)) => if real_bits(a).is_some() && real_bits(a) == real_bits(b) { None } else { Some("real".into()) },
        (Val::Int(a), Val::Real(b)) | (Val::Real(b), Val::Int(a)) if cx.identify_numbers => {
            match real_bits(b) {
                Some(bits) if f32::from_bits(bits) as f64 == *a as f64 => None,
                _ => Some(kind_name(exp).into()),
            }
        }
        (Val::Bool(a), Val::Bool(b)) => if a == b { None } else { Some("bool".into()) },
        (Val::Str(a), Val::Str(b)) => if a == b { None } else { Some(str_kind(a, cx)) },
        (Val::Name(a), Val::Name(b)) => if a == b { None } else { Some("name".into()) },
        (Val::Ref(a, b), Val::Ref(c, d)) => if a == c && b == d { None } else { Some("ref".into()) },
        (Val::Arr(a), Val::Arr(b)) => {
            if a.len() != b.len() {
                return Some("array".into());
            }
            a.iter().zip(b).find_map(|(x, y)| diff_kind(x, y, cx))
        }
        (Val::Dict(a), Val::Dict(b)) => diff_entries(a, b, cx, "dict"),
        (Val::StreamPending(ia, da), Val::StreamInFile(ib, id, gen, lo, hi)) => {
            if let Some(d) = diff_entries(ia, ib, cx, "stream") {
                return Some(d);
            }
            let ok_id = cx.id.map(|x| x == (*id, *gen)).unwrap_or(true);
            let ok_data = *lo >= cx.file_off && lo <= hi && hi - cx.file_off <= cx.buf.len() && &cx.buf[lo - cx.file_off..hi - cx.file_off] == da.as_slice();
            if ok_id && ok_data { None } else { Some("stream".into()) }
        }
        (Val::StreamPending(ia, da), Val::StreamPending(ib, db)) => {
            if let Some(d) = diff_entries(ia, ib, cx, "stream") {
                return Some(d);
            }
            if da == db { None } else { Some("stream".into()) }
        }
        (Val::Str(a), _) => Some(str_kind(a, cx)),
        _ => Some(kind_name(exp).into()),
    }
}

// ---------------------------------------------------------------------------------------------------
// the implementation side of every request kind

fn guard(f: impl FnOnce() -> String) -> String {
    catch_unwind(AssertUnwindSafe(f)).unwrap_or_else(|_| "panic".into())
}

fn lexer_at(buf: &[u8], pos: usize, off: usize) -> Lexer<'_> {
    let mut lx = if off == 0 { Lexer::new(buf) } else { Lexer::with_offset(buf, off) };
    lx.set_pos(pos);
    lx
}

fn range_of(s: &Substr) -> (usize, usize) {
    let r = s.file_range();
    (r.start, r.end)
}

pub fn imp_word(buf: &[u8], pos: usize) -> String {
    guard(|| {
        let mut lx = lexer_at(buf, pos, 0);
        match lx.next() {
            Ok(s) => {
                let (a, b) = range_of(&s);
                if lx.get_pos() == b { format!("ok {} {}", a, b) } else { format!("ok {} {} cursor={}", a, b, lx.get_pos()) }
            }
            Err(_) => "err".into(),
        }
    })
}

pub fn imp_lexop(op: &str, buf: &[u8], pos: usize, arg: &str) -> String {
    guard(|| {
        let mut lx = lexer_at(buf, pos, 0);
        match op {
            "c03.peek" => match lx.peek() {
                Ok(s) => {
                    let (a, b) = range_of(&s);
                    if lx.get_pos() == pos { format!("ok {} {}", a, b) } else { format!("ok {} {} cursor-moved", a, b) }
                }
                Err(_) => "err".into(),
            },
            "c03.back" => match lx.back() {
                Ok(s) => {
                    let (a, b) = range_of(&s);
                    if lx.get_pos() == a { format!("ok {} {}", a, b) } else { format!("ok {} {} cursor={}", a, b, lx.get_pos()) }
                }
                Err(_) => "err".into(),
            },
            "c03.expect" => {
                let w = unhex(arg).unwrap_or_default();
                let word: &'static str = match w.as_slice() {
                    b"obj" => "obj",
                    b"endobj" => "endobj",
                    b"endstream" => "endstream",
                    b"R" => "R",
                    b"stream" => "stream",
                    _ => return "unsupported-word".into(),
                };
                match lx.next_expect(word) {
                    Ok(()) => format!("ok {}", lx.get_pos()),
                    Err(_) => "err".into(),
                }
            }
            "c03.nextstream" => match lx.next_stream() {
                Ok(()) => format!("ok {}", lx.get_pos()),
                Err(_) => "err".into(),
            },
            "c03.readn" => {
                let n: usize = arg.parse().unwrap();
                let s = lx.read_n(n);
                let (a, b) = range_of(&s);
                format!("ok {} {} {}", a, b, lx.get_pos())
            }
            "c03.setpos" => {
                let n: usize = arg.parse().unwrap();
                lx.set_pos(n);
                format!("ok {}", lx.get_pos())
            }
            "c03.offsetpos" => {
                let n: usize = arg.parse().unwrap();
                lx.offset_pos(n);
                format!("ok {}", lx.get_pos())
            }
            _ => "unsupported".into(),
        }
    })
}

/// the five observations of one byte
pub fn imp_class(x: u8) -> String {
    guard(|| {
        // white-space / delimiter through the public lexer: `a x b`
        let probe = [b'a', x, b'b'];
        let mut lx = Lexer::new(&probe);
        let first = lx.next().ok().map(|s| range_of(&s));
        let second = lx.next().ok().map(|s| range_of(&s));
        let ws = first == Some((0, 1)) && second == Some((2, 3));
        let delim = first == Some((0, 1)) && !ws;
        // hex white-space: `4 x 1 >` reads as the one byte 0x41
        let hp = [b'4', x, b'1', b'>'];
        let mut hl = HexStringLexer::new(&hp);
        let hb: Result<Vec<u8>, _> = hl.iter().collect();
        let hexws = matches!(hb, Ok(ref v) if v.as_slice() == [0x41]);
        // octal digit: `\ x )` reads as the byte x - '0'
        let op = [b'\\', x, b')'];
        let mut sl = StringLexer::new(&op);
        let ob: Result<Vec<u8>, _> = sl.iter().collect();
        let octal = x >= 48 && matches!(ob, Ok(ref v) if v.as_slice() == [x - 48]);
        let nib = match pdf::enc::decode_nibble(x) {
            Some(v) => v.to_string(),
            None => "-".into(),
        };
        // hex digit: `x 1 >` reads as one byte with low nibble 1 (white-space x would give 0x10)
        let dp = [x, b'1', b'>'];
        let mut dl = HexStringLexer::new(&dp);
        let db: Result<Vec<u8>, _> = dl.iter().collect();
        let hd = match db {
            Ok(ref v) if v.len() == 1 && v[0] & 15 == 1 => (v[0] >> 4).to_string(),
            _ => "-".into(),
        };
        let b = |x: bool| if x { '1' } else { '0' };
        format!("{}{}{}{} {} {}", b(ws), b(delim), b(hexws), b(octal), nib, hd)
    })
}

pub fn tok_is_plain(tok: &[u8]) -> bool {
    tok.iter().all(|&b| is_regular(b))
}

/// `<isint> <real|none> <i32|none> <u64|none> [<name|err>]` (the name only for tokens without
/// white-space / delimiters, which is what a name token can contain)
pub fn imp_tok(tok: &[u8]) -> String {
    guard(|| {
        let s = Substr::new(tok, 0);
        let isint = if s.is_integer() { "1" } else { "0" };
        let real = match s.real_number() {
            Some(r) => hex(r.as_slice()),
            None => "none".into(),
        };
        let i = s.to::<i32>().map(|x| x.to_string()).unwrap_or_else(|_| "none".into());
        let u = s.to::<u64>().map(|x| x.to_string()).unwrap_or_else(|_| "none".into());
        let mut out = format!("{} {} {} {}", isint, real, i, u);
        if tok_is_plain(tok) {
            let mut nb = vec![b'/'];
            nb.extend_from_slice(tok);
            let res = TestResolve::new(&vec![], false);
            match pdf::parser::parse(&nb, &res, ParseFlags::NAME) {
                Ok(Primitive::Name(n)) => out.push_str(&format!(" {}", hex(n.as_str().as_bytes()))),
                Ok(_) => out.push_str(" not-a-name"),
                Err(_) => out.push_str(" err"),
            }
        }
        out
    })
}

pub fn imp_litstr(buf: &[u8], pos: usize) -> String {
    guard(|| {
        let mut sl = StringLexer::new(&buf[pos..]);
        let mut out = vec![];
        for c in sl.iter() {
            match c {
                Ok(b) => out.push(b),
                Err(_) => return "err".into(),
            }
        }
        format!("ok {} {}", hex(&out), pos + sl.get_offset())
    })
}

pub fn imp_hexstr(buf: &[u8], pos: usize) -> String {
    guard(|| {
        let mut sl = HexStringLexer::new(&buf[pos..]);
        let mut out = vec![];
        for c in sl.iter() {
            match c {
                Ok(b) => out.push(b),
                Err(_) => return "err".into(),
            }
        }
        format!("ok {} {}", hex(&out), pos + sl.get_offset())
    })
}

pub struct Parsed {
    /// canonical outcome: `ok [<id>.<gen>] <value> <pos>` (`stm`: no position) / `err` / `panic`
    pub text: String,
    pub id: Option<(u64, u64)>,
    pub val: Option<Val>,
    pub pos: usize,
}

/// runs the real parser the way `c03.parse <mode> …` describes
pub fn imp_parse(mode: &str, buf: &[u8], pos: usize, flags: u16, off: usize, lens: &LenMap, ctx_id: Option<(u64, u64)>) -> Parsed {
    let r = catch_unwind(AssertUnwindSafe(|| {
        let fl = ParseFlags::from_bits_truncate(flags);
        match mode {
            "plain" => {
                let res = TestResolve::new(lens, false);
                let mut lx = lexer_at(buf, pos, off);
                match parse_with_lexer(&mut lx, &res, fl) {
                    Ok(p) => {
                        let v = prim_to_val(&p, &res);
                        Parsed { text: format!("ok {} {}", show_canon(&v), lx.get_pos()), id: None, val: Some(v), pos: lx.get_pos() }
                    }
                    Err(_) => Parsed { text: "err".into(), id: None, val: None, pos: lx.get_pos() },
                }
            }
            "ind0" | "ind1" => {
                let res = TestResolve::new(lens, mode == "ind1");
                let mut lx = lexer_at(buf, pos, off);
                match parse_indirect_object(&mut lx, &res, None, fl) {
                    Ok((id, p)) => {
                        let v = prim_to_val(&p, &res);
                        Parsed { text: format!("ok {}.{} {} {}", id.id, id.gen, show_canon(&v), lx.get_pos()), id: Some((id.id, id.gen)), val: Some(v), pos: lx.get_pos() }
                    }
                    Err(_) => Parsed { text: "err".into(), id: None, val: None, pos: lx.get_pos() },
                }
            }
            "stm" => {
                let res = TestResolve::new(lens, false);
                let id = ctx_id.unwrap_or((0, 0));
                let ctx = Context { decoder: None, id: PlainRef { id: id.0, gen: id.1 } };
                match parse_stream(&buf[pos..], &res, &ctx) {
                    Ok(ps) => {
                        let v = prim_to_val(&Primitive::Stream(ps), &res);
                        Parsed { text: format!("ok {}", show_canon(&v)), id: Some(id), val: Some(v), pos: 0 }
                    }
                    Err(_) => Parsed { text: "err".into(), id: None, val: None, pos: 0 },
                }
            }
            _ => Parsed { text: "unsupported-mode".into(), id: None, val: None, pos: 0 },
        }
    }));
    r.unwrap_or_else(|_| Parsed { text: "panic".into(), id: None, val: None, pos: 0 })
}

/// the model's answer to `c03.parse` in the canonical form of `imp_parse`
pub fn canon_parse_answer(mode: &str, ans: &str) -> String {
    let f: Vec<&str> = ans.split(' ').collect();
    if f.first() != Some(&"ok") {
        return ans.to_string();
    }
    let canon = |s: &str| match read_val(s) {
        Some(v) => show_canon(&v),
        None => format!("unreadable:{}", s),
    };
    match (mode, f.len()) {
        ("plain", 3) => format!("ok {} {}", canon(f[1]), f[2]),
        // the cursor of `parse_stream` cannot be observed through the public API
        ("stm", 3) => format!("ok {}", canon(f[1])),
        ("ind0", 4) | ("ind1", 4) => format!("ok {} {} {}", f[1], canon(f[2]), f[3]),
        _ => format!("malformed:{}", ans),
    }
}

pub fn parse_request(mode: &str, buf: &[u8], pos: usize, flags: u16, off: usize, lens: &LenMap, ctx_id: Option<(u64, u64)>) -> String {
    let mut s = format!("c03.parse {} {} {} {} {} {}", mode, hex(buf), pos, flags, off, show_lens(lens));
    if let Some((i, g)) = ctx_id {
        s.push_str(&format!(" {}.{}", i, g));
    }
    s
}

/// twin printer for a `c03.render …` request
pub fn imp_render(f: &[&str]) -> String {
    guard(|| {
        let go = || -> Option<String> {
            let v = read_val(f.get(2)?)?;
            let mut t = Tape::fixed(read_tape(f.get(3)?)?);
            let tail = unhex(f.get(4)?)?;
            Some(match *f.get(1)? {
                "val" => hex(&render_with_tail(&v, &tail, &mut t).0),
                "ind" => hex(&render_indirect(f.get(5)?.parse().ok()?, f.get(6)?.parse().ok()?, &v, &tail, &mut t).bytes),
                "seq" => match v {
                    Val::Arr(vs) => hex(&render_seq(&vs, &tail, &mut t).0),
                    _ => return None,
                },
                _ => return None,
            })
        };
        go().unwrap_or_else(|| "bad-request".into())
    })
}

/// (model answer in comparable form, implementation answer) for a request line — used by the streams
/// and by the replay of a stored disagreement
pub fn both_sides(req: &str, model: &str) -> (String, String) {
    let f: Vec<&str> = req.split(' ').collect();
    let bytes = |i: usize| f.get(i).and_then(|s| unhex(s)).unwrap_or_default();
    let num = |i: usize| f.get(i).and_then(|s| s.parse::<usize>().ok()).unwrap_or(0);
    match f[0] {
        "c03.word" => (model.to_string(), imp_word(&bytes(1), num(2))),
        "c03.peek" | "c03.back" | "c03.nextstream" => (model.to_string(), imp_lexop(f[0], &bytes(1), num(2), "")),
        "c03.expect" | "c03.readn" | "c03.setpos" | "c03.offsetpos" => (model.to_string(), imp_lexop(f[0], &bytes(1), num(2), f.get(3).unwrap_or(&""))),
        "c03.class" => (model.to_string(), imp_class(num(1) as u8)),
        "c03.tok" => {
            let tok = bytes(1);
            let m = if tok_is_plain(&tok) { model.to_string() } else { model.rsplitn(2, ' ').last().unwrap_or("").to_string() };
            (m, imp_tok(&tok))
        }
        "c03.utf8" => (model.to_string(), if std::str::from_utf8(&bytes(1)).is_ok() { "1".into() } else { "0".into() }),
        "c03.floattext" => {
            let b = bytes(1);
            let ok = std::str::from_utf8(&b).map(|s| s.parse::<f32>().is_ok()).unwrap_or(false);
            (model.to_string(), if ok { "1".into() } else { "0".into() })
        }
        "c03.litstr" => (model.to_string(), imp_litstr(&bytes(1), num(2))),
        "c03.hexstr" => (model.to_string(), imp_hexstr(&bytes(1), num(2))),
        "c03.render" => (model.to_string(), imp_render(&f)),
        "c03.parse" => {
            let mode = f.get(1).copied().unwrap_or("");
            let lens = f.get(6).and_then(|s| read_lens(s)).unwrap_or_default();
            let ctx = f.get(7).and_then(|s| s.split_once('.')).and_then(|(a, b)| Some((a.parse().ok()?, b.parse().ok()?)));
            let p = imp_parse(mode, &bytes(2), num(3), num(4) as u16, num(5), &lens, ctx);
            (canon_parse_answer(mode, model), p.text)
        }
        _ => (model.to_string(), "unsupported-request".into()),
    }
}

// ---------------------------------------------------------------------------------------------------
// value generator (shared with C04)

#[derive(Clone, Copy)]
pub struct GenCfg {
    /// per cent of names that are not UTF-8 (C03: 2, C04: 0 — a `Name` is a `str`)
    pub bad_name_pct: u64,
    /// names drawn from every Unicode plane, with U+0000 (C04 totality)
    pub wild_names: bool,
}

pub const TAILS: [&[u8]; 13] = [b"", b" ", b"\n", b"]", b">>", b"/X", b"(x)", b"<41>", b"[", b"endobj", b"% c\n", b" 1 0 obj", b"true"];

pub fn gen_f32(rng: &mut Rng) -> f32 {
    loop {
        let f = match rng.below(16) {
            0..=4 => f32::from_bits(rng.next() as u32),
            5 | 6 => (rng.range(-100000, 100000) as f32) / ((1u32 << rng.below(12)) as f32),
            7 | 8 => rng.range(-100000, 100000) as f32,
            9 => *rng.pick(&[0.0f32, -0.0, 1.0, -1.0, 0.5, 0.1, 5.0, 1e-7]),
            10 => f32::from_bits(rng.below(0x0080_0000) as u32 | if rng.chance(1, 2) { 0x8000_0000 } else { 0 }),
            11 => *rng.pick(&[2147483648.0f32, -2147483648.0, 4294967296.0, 1e10, -1e10, 16777216.0, 16777217.0]),
            12 => *rng.pick(&[f32::MAX, f32::MIN, f32::MIN_POSITIVE, 1e-38, -1e-38, 1e-45, f32::EPSILON]),
            13 => (rng.range(-999, 999) as f32) / 100.0,
            14 => (rng.range(-2147483648, 2147483647) as f32) * 3.0,
            _ => f32::from_bits(0x3f80_0000u32.wrapping_add(rng.below(64) as u32).wrapping_sub(32)),
        };
        if f.is_finite() {
            return f;
        }
    }
}

pub fn real_val(f: f32) -> Val {
    Val::Real(format!("{}", f))
}

pub fn gen_int(rng: &mut Rng) -> i64 {
    match rng.below(10) {
        0 => 0,
        1 => *rng.pick(&[1i64, -1]),
        2 => *rng.pick(&[i32::MAX as i64, i32::MIN as i64, i32::MAX as i64 - 1, i32::MIN as i64 + 1]),
        3..=5 => rng.range(-1000, 1000),
        _ => rng.range(i32::MIN as i64, i32::MAX as i64),
    }
}

pub fn gen_string(rng: &mut Rng) -> Vec<u8> {
    let n = rng.usize(13);
    (0..n)
        .map(|_| match rng.below(10) {
            0..=2 => *rng.pick(b"()\\\r\n"),
            3 => *rng.pick(b"0123456789"),
            4 => 0x80 | rng.byte(),
            5 => *rng.pick(b"nrtbf \t\x08\x0c\x00"),
            6 | 7 => b'a' + rng.below(26) as u8,
            _ => rng.byte(),
        })
        .collect()
}

pub fn gen_name(rng: &mut Rng, cfg: &GenCfg) -> Vec<u8> {
    let n = rng.usize(9);
    if rng.below(100) < cfg.bad_name_pct {
        // not UTF-8: a lone lead / continuation byte somewhere
        let mut v: Vec<u8> = (0..n).map(|_| b'A' + rng.below(26) as u8).collect();
        let at = rng.usize(v.len() + 1);
        v.insert(at, *rng.pick(&[0xffu8, 0x80, 0xc3, 0xe2, 0xc0, 0xf5, 0xbf]));
        if std::str::from_utf8(&v).is_err() {
            return v;
        }
    }
    let mut s = String::new();
    for _ in 0..n {
        match rng.below(if cfg.wild_names { 14 } else { 12 }) {
            0..=6 => s.push((b'A' + rng.below(58) as u8) as char), // letters and [ \ ] ^ _ `
            7 => s.push(*rng.pick(&['(', ')', '<', '>', '[', ']', '{', '}', '/', '%'])),
            8 => s.push(*rng.pick(&[' ', '\t', '\n', '\r', '\x0c', '#', '#'])),
            9 => s.push(*rng.pick(&['é', 'ß', '€', '中', '\u{1F600}', '\u{7f}', '\u{80}', '\u{7ff}', '\u{800}', '\u{ffff}', '\u{10000}', '\u{10ffff}'])),
            10 => s.push((b'0' + rng.below(10) as u8) as char),
            11 => s.push(*rng.pick(&['!', '~', '.', '-', '+', '*', '"', '\''])),
            12 => s.push(char::from_u32(rng.below(0x110000) as u32).unwrap_or('\u{0}')),
            _ => s.push(*rng.pick(&['\u{0}', '\u{1}', '\u{1f}', '\u{d7ff}', '\u{e000}', '\u{fffd}', '\u{1ffff}', '\u{e0001}', '\u{100000}'])),
        }
    }
    s.into_bytes()
}

pub fn gen_scalar(rng: &mut Rng, cfg: &GenCfg) -> Val {
    match rng.below(16) {
        0 => Val::Null,
        1 => Val::Bool(rng.chance(1, 2)),
        2..=4 => Val::Int(gen_int(rng)),
        5..=7 => real_val(gen_f32(rng)),
        8..=10 => Val::Str(gen_string(rng)),
        11..=13 => Val::Name(gen_name(rng, cfg)),
        _ => {
            let id = if rng.chance(1, 12) { *rng.pick(&[u64::MAX, u64::MAX - 1, u32::MAX as u64 + 1, i64::MAX as u64]) } else { rng.below(100000) };
            let gen = if rng.chance(1, 20) { *rng.pick(&[65535u64, 65536, u64::MAX]) } else { rng.below(3) };
            Val::Ref(id, gen)
        }
    }
}

pub fn gen_entries(rng: &mut Rng, depth: usize, cfg: &GenCfg, n: usize) -> Vec<(Vec<u8>, Val)> {
    let mut kvs: Vec<(Vec<u8>, Val)> = vec![];
    for _ in 0..n {
        let k = gen_name(rng, cfg);
        if kvs.iter().any(|e| e.0 == k) {
            continue;
        }
        kvs.push((k, gen_val(rng, depth + 1, cfg)));
    }
    kvs
}

/// a value; containers get rarer with the depth, none below depth 4
pub fn gen_val(rng: &mut Rng, depth: usize, cfg: &GenCfg) -> Val {
    let p = [45u64, 30, 20, 10, 0];
    if depth < 4 && rng.below(100) < p[depth] {
        let n = rng.usize(6);
        if rng.chance(1, 2) {
            Val::Arr((0..n).map(|_| gen_val(rng, depth + 1, cfg)).collect())
        } else {
            Val::Dict(gen_entries(rng, depth, cfg, n))
        }
    } else {
        gen_scalar(rng, cfg)
    }
}

/// `levels` containers inside each other around a scalar (some with siblings)
pub fn gen_deep(rng: &mut Rng, levels: usize, cfg: &GenCfg) -> Val {
    let mut v = gen_scalar(rng, cfg);
    for _ in 0..levels {
        let sib = rng.chance(1, 3);
        v = if rng.chance(1, 2) {
            let mut xs = vec![];
            if sib { xs.push(gen_scalar(rng, cfg)); }
            xs.push(v);
            if sib && rng.chance(1, 2) { xs.push(gen_scalar(rng, cfg)); }
            Val::Arr(xs)
        } else {
            let mut kvs = vec![];
            if sib { kvs.push((b"S".to_vec(), gen_scalar(rng, cfg))); }
            kvs.push((b"K".to_vec(), v));
            Val::Dict(kvs)
        };
    }
    v
}

pub fn gen_stream_data(rng: &mut Rng) -> Vec<u8> {
    match rng.below(6) {
        0 => vec![],
        1 => b"endstream".to_vec(),
        2 => { let mut d = rng.bytes(5); d.extend_from_slice(b"\nendstream\nendobj\n"); d.extend(rng.bytes(3)); d }
        3 => b"abc".to_vec(),
        _ => { let n = rng.usize(40); rng.bytes(n) }
    }
}

/// a `Pending` stream whose `/Length` is right: direct, or a reference answered by the returned map
pub fn gen_stream(rng: &mut Rng, cfg: &GenCfg, allow_indirect_len: bool) -> (Val, LenMap) {
    let data = gen_stream_data(rng);
    let mut lens = vec![];
    let lv = if allow_indirect_len && rng.chance(1, 3) {
        let id = (1 + rng.below(500), rng.below(2));
        lens.push((id, data.len() as u64));
        if rng.chance(1, 2) { lens.insert(0, ((id.0 + 1, 0), 7)); }
        Val::Ref(id.0, id.1)
    } else {
        Val::Int(data.len() as i64)
    };
    let n = rng.usize(4);
    let mut kvs: Vec<(Vec<u8>, Val)> = gen_entries(rng, 1, cfg, n).into_iter().filter(|e| e.0 != b"Length").collect();
    let at = rng.usize(kvs.len() + 1);
    kvs.insert(at, (b"Length".to_vec(), lv));
    (Val::StreamPending(kvs, data), lens)
}

// ---------------------------------------------------------------------------------------------------
// simple streams

/// asks the model, runs the implementation, records every case
fn compare(driver: &Driver, st: &mut Stream, reqs: &[String]) {
    for chunk in reqs.chunks(200_000) {
        let resp = driver.ask(chunk);
        for (rq, m) in chunk.iter().zip(resp.iter()) {
            let (m, i) = both_sides(rq, m);
            st.count(&format!("outcome={}", m.split(' ').next().unwrap_or("")));
            st.case(rq, &m, &i, true);
        }
    }
}

fn class_streams(driver: &Driver) -> Vec<Stream> {
    let mut st = Stream::new("c03.class", true);
    st.exhaustive = true;
    let mut drift = Stream::new("c03.class.drift", false);
    drift.exhaustive = true;
    let reqs: Vec<String> = (0..256).map(|x| format!("c03.class {}", x)).collect();
    let resp = driver.ask(&reqs);
    for (x, (rq, m)) in reqs.iter().zip(resp.iter()).enumerate() {
        let i = imp_class(x as u8);
        if b"ghGH".contains(&(x as u8)) {
            // `decode_nibble` of g, h, G, H (values 16, 17) belongs to another package: drift only
            drift.case(rq, m, &i, true);
            let strip = |s: &str| { let f: Vec<&str> = s.split(' ').collect(); if f.len() == 3 { format!("{} * {}", f[0], f[2]) } else { s.to_string() } };
            st.case(rq, &strip(m), &strip(&i), true);
        } else {
            st.case(rq, m, &i, true);
        }
        st.count(&format!("class={}", m.split(' ').next().unwrap_or("")));
    }
    vec![st, drift]
}

const ALPHABET24: [u8; 24] = [0, 9, 10, 12, 13, 32, b'(', b')', b'<', b'>', b'[', b']', b'{', b'}', b'/', b'%', b'a', b'1', b'-', b'+', b'.', b'#', b'\\', 0x80];

fn word_streams(driver: &Driver, thorough: bool) -> Vec<Stream> {
    let mut ex = Stream::new("c03.word.exhaustive", true);
    ex.exhaustive = true;
    let mut eof = Stream::new("c03.word.eof", false);
    eof.exhaustive = true;
    let mut bufs: Vec<Vec<u8>> = vec![vec![]];
    for a in 0..=255u8 {
        bufs.push(vec![a]);
    }
    for a in 0..=255u8 {
        for b in 0..=255u8 {
            bufs.push(vec![a, b]);
        }
    }
    if thorough {
        for &a in &ALPHABET24 {
            for &b in &ALPHABET24 {
                for &c in &ALPHABET24 {
                    bufs.push(vec![a, b, c]);
                }
            }
        }
    }
    let mut reqs = vec![];
    for b in &bufs {
        for p in 0..=b.len() {
            reqs.push(format!("c03.word {} {}", hex(b), p));
        }
    }
    for chunk in reqs.chunks(200_000) {
        let resp = driver.ask(chunk);
        for (rq, m) in chunk.iter().zip(resp.iter()) {
            let (m, i) = both_sides(rq, m);
            let st = if m.starts_with("ok") { &mut ex } else { &mut eof };
            st.count(&format!("outcome={}", m.split(' ').next().unwrap_or("")));
            st.case(rq, &m, &i, true);
        }
    }
    vec![ex, eof]
}

const SOUP: [&[u8]; 40] = [
    b" ", b"\n", b"\r", b"\r\n", b"\t", b"\x0c", b"\x00", b"% c\n", b"%\r", b"%x", b"obj", b"endobj", b"stream", b"stream\n", b"stream\r\n",
    b"stream\r", b"endstream", b"R", b"<<", b">>", b"<", b">", b"[", b"]", b"(", b")", b"{", b"}", b"/", b"/Name", b"12", b"-3", b"4.5", b"+",
    b"true", b"null", b"abc", b"\xff", b"#", b"\\",
];

pub fn gen_soup(rng: &mut Rng, max: usize) -> Vec<u8> {
    let mut b = vec![];
    let n = rng.usize(10);
    for _ in 0..n {
        let p = *rng.pick(&SOUP);
        if b.len() + p.len() > max {
            break;
        }
        b.extend_from_slice(p);
    }
    b
}

fn lexops_stream(driver: &Driver, seed: u64, n: u64) -> Stream {
    let mut st = Stream::new("c03.lexops", false);
    let mut reqs = vec![];
    for case in 0..n {
        let mut rng = Rng::derive(seed, "c03.lexops", case);
        let buf = gen_soup(&mut rng, 40);
        let pos = rng.usize(buf.len() + 1);
        let h = hex(&buf);
        let rem = buf.len() - pos;
        let rq = match rng.below(8) {
            0 => format!("c03.peek {} {}", h, pos),
            1 => format!("c03.back {} {}", h, pos),
            2 | 3 => format!("c03.expect {} {} {}", h, pos, hex(*rng.pick(&[&b"obj"[..], b"endobj", b"endstream", b"R"]))),
            4 => format!("c03.nextstream {} {}", h, pos),
            5 => {
                let n = match rng.below(6) { 0 => rem, 1 => rem + 1, 2 => rem.saturating_sub(1), 3 => rng.usize(4), 4 => *rng.pick(&[usize::MAX, usize::MAX - pos, usize::MAX - pos + 1, 50]), _ => rng.usize(60) };
                format!("c03.readn {} {} {}", h, pos, n)
            }
            6 => {
                let w = match rng.below(4) { 0 => buf.len(), 1 => buf.len() + 1 + rng.usize(5), 2 => *rng.pick(&[usize::MAX, 0]), _ => rng.usize(buf.len() + 1) };
                format!("c03.setpos {} {} {}", h, pos, w)
            }
            _ => {
                let o = match rng.below(5) { 0 => rem, 1 => rem + 1 + rng.usize(5), 2 => *rng.pick(&[usize::MAX, usize::MAX - pos, usize::MAX - pos + 1]), 3 => 0, _ => rng.usize(rem + 1) };
                format!("c03.offsetpos {} {} {}", h, pos, o)
            }
        };
        st.count(&format!("op={}", rq.split(' ').next().unwrap_or("")));
        reqs.push(rq);
    }
    compare(driver, &mut st, &reqs);
    st
}

/// `[+-]?(d+ | d+.d* | .d+)`
pub fn conformant_number(t: &[u8]) -> bool {
    let b = match t.first() { Some(b'+') | Some(b'-') => &t[1..], _ => t };
    let (ip, fp) = match b.iter().position(|&c| c == b'.') { Some(i) => (&b[..i], Some(&b[i + 1..])), None => (b, None) };
    let dig = |s: &[u8]| s.iter().all(|c| c.is_ascii_digit());
    dig(ip) && fp.map(dig).unwrap_or(true) && !(ip.is_empty() && fp.map(|f| f.is_empty()).unwrap_or(true))
}

/// regular characters only, every `#` followed by two hexadecimal digits
pub fn conformant_name_body(t: &[u8]) -> bool {
    let mut i = 0;
    while i < t.len() {
        if !is_regular(t[i]) { return false; }
        if t[i] == b'#' {
            if i + 2 >= t.len() + 0 && i + 2 > t.len() - 1 { return false; }
            if !(t[i + 1].is_ascii_hexdigit() && t[i + 2].is_ascii_hexdigit()) { return false; }
            i += 3;
        } else {
            i += 1;
        }
    }
    true
}

fn tok_streams(driver: &Driver, seed: u64, n: u64) -> Vec<Stream> {
    let mut good = Stream::new("c03.tok", true);
    let mut junk = Stream::new("c03.tok.junk", false);
    let mut toks: Vec<Vec<u8>> = vec![];
    let sym = b"+-.0159#aAfFgG/";
    for &a in sym { toks.push(vec![a]); for &b in sym { toks.push(vec![a, b]); } }
    for t in ["2147483647", "2147483648", "-2147483648", "-2147483649", "+2147483647", "+2147483648", "18446744073709551615", "18446744073709551616",
              "+18446744073709551615", "-0", "+0", "00", "007", "-007", "+17", "+.5", "-.5", ".5", "5.", "+5.", "-5.", "1.2.3", "1..2", "..", "+-1", "-+1", "--1", "++1", "1-", "1+", "1e5", "1E5", "0x10",
              "A#20B", "#41", "#4", "#", "A#", "A#4", "#gh", "#GH", "#g0", "#0g", "#4x", "#ff", "#FF", "#c3#a9", "#e2#82#ac", "#c3", "#00", "##", "#23", "A#2fB", "Name", "1.0", "0.0", ".0", "0.", "-", "+", ".",
              "340282350000000000000000000000000000000.", "0.000000000000000000000000000000000000000000001", "99999999999999999999999999999999999999999"] {
        toks.push(t.as_bytes().to_vec());
    }
    for case in 0..n {
        let mut rng = Rng::derive(seed, "c03.tok", case);
        let mut t = vec![];
        match rng.below(4) {
            0 | 1 => {
                // number-like: signs, zeros, dots in every position
                if rng.chance(1, 2) { t.push(*rng.pick(b"+-")); }
                if rng.chance(1, 12) { t.push(*rng.pick(b"+-")); }
                let n1 = rng.usize(4);
                for _ in 0..rng.usize(3) { t.push(b'0'); }
                for _ in 0..n1 { t.push(b'0' + rng.below(10) as u8); }
                if rng.chance(2, 3) { t.push(b'.'); }
                for _ in 0..rng.usize(4) { t.push(b'0' + rng.below(10) as u8); }
                if rng.chance(1, 8) { t.push(*rng.pick(b".+-eEx#")); for _ in 0..rng.usize(3) { t.push(b'0' + rng.below(10) as u8); } }
            }
            2 => {
                // name-like with escapes
                for _ in 0..rng.usize(6) {
                    match rng.below(6) {
                        0 => { t.push(b'#'); t.push(*rng.pick(b"0123456789abcdefABCDEF")); t.push(*rng.pick(b"0123456789abcdefABCDEF")); }
                        1 => { t.push(b'#'); for _ in 0..rng.usize(3) { t.push(*rng.pick(b"0189afAFgGhHxz#")); } }
                        _ => t.push(b'A' + rng.below(26) as u8),
                    }
                }
            }
            _ => { for _ in 0..rng.usize(6) { t.push(*rng.pick(b"+-.0159#aAfFgG/ ()\x80\xff")); } }
        }
        toks.push(t);
    }
    let reqs: Vec<String> = toks.iter().map(|t| format!("c03.tok {}", hex(t))).collect();
    let resp = driver.ask(&reqs);
    for ((rq, m), t) in reqs.iter().zip(resp.iter()).zip(toks.iter()) {
        let (m, i) = both_sides(rq, m);
        let num = conformant_number(t);
        let st = if num || conformant_name_body(t) { &mut good } else { &mut junk };
        st.count(if num { "kind=number" } else if tok_is_plain(t) { "kind=name-like" } else { "kind=other" });
        st.case(rq, &m, &i, true);
    }
    vec![good, junk]
}

fn utf8_stream(driver: &Driver, seed: u64, n: u64) -> Stream {
    let mut st = Stream::new("c03.utf8", true);
    let mut ss: Vec<Vec<u8>> = vec![vec![]];
    for a in 0..=255u8 { ss.push(vec![a]); }
    for a in 0..=255u8 { for b in 0..=255u8 { ss.push(vec![a, b]); } }
    for b in [&[0xc0u8, 0x80][..], &[0xc1, 0xbf], &[0xc2, 0x80], &[0xdf, 0xbf], &[0xe0, 0x9f, 0xbf], &[0xe0, 0xa0, 0x80], &[0xed, 0x9f, 0xbf], &[0xed, 0xa0, 0x80], &[0xed, 0xbf, 0xbf],
              &[0xee, 0x80, 0x80], &[0xef, 0xbf, 0xbf], &[0xf0, 0x8f, 0xbf, 0xbf], &[0xf0, 0x90, 0x80, 0x80], &[0xf4, 0x8f, 0xbf, 0xbf], &[0xf4, 0x90, 0x80, 0x80], &[0xf5, 0x80, 0x80, 0x80],
              &[0xf8, 0x88, 0x80, 0x80, 0x80], &[0xe2, 0x82], &[0xf0, 0x9f, 0x98], &[0xe2, 0x82, 0xac, 0x80], &[0x41, 0xe2, 0x82, 0xac, 0x42], &[0xe2, 0x28, 0xa1], &[0xf0, 0x28, 0x8c, 0xbc], &[0xf0, 0x90, 0x28, 0xbc]] {
        ss.push(b.to_vec());
    }
    let leads: [u8; 16] = [0x7f, 0x80, 0xbf, 0xc0, 0xc1, 0xc2, 0xdf, 0xe0, 0xe1, 0xec, 0xed, 0xee, 0xef, 0xf0, 0xf4, 0xf5];
    let conts: [u8; 8] = [0x7f, 0x80, 0x8f, 0x90, 0x9f, 0xa0, 0xbf, 0xc0];
    for case in 0..n {
        let mut rng = Rng::derive(seed, "c03.utf8", case);
        if rng.chance(1, 4) {
            let k = 1 + rng.usize(5);
            let s: String = (0..k).map(|_| char::from_u32(match rng.below(4) { 0 => rng.below(0x80), 1 => 0x80 + rng.below(0x780), 2 => 0x800 + rng.below(0xf800), _ => 0x10000 + rng.below(0x100000) } as u32).unwrap_or('x')).collect();
            ss.push(s.into_bytes());
        } else {
            let k = 3 + rng.usize(2);
            let mut v = vec![];
            for j in 0..k {
                v.push(if rng.chance(1, 8) { rng.byte() } else if j == 0 || rng.chance(1, 6) { *rng.pick(&leads) } else if rng.chance(1, 2) { *rng.pick(&conts) } else { 0x80 + rng.below(0x40) as u8 });
            }
            ss.push(v);
        }
    }
    let reqs: Vec<String> = ss.iter().map(|t| format!("c03.utf8 {}", hex(t))).collect();
    compare(driver, &mut st, &reqs);
    st
}

fn floattext_stream(driver: &Driver, maxlen: usize) -> Stream {
    let mut st = Stream::new("c03.floattext", true);
    st.exhaustive = true;
    let sym = b"+-.0123456789";
    let mut reqs = vec!["c03.floattext -".to_string()];
    let mut level: Vec<Vec<u8>> = vec![vec![]];
    for _ in 0..maxlen {
        let mut next = Vec::with_capacity(level.len() * 13);
        for t in &level {
            for &c in sym {
                let mut u = t.clone();
                u.push(c);
                reqs.push(format!("c03.floattext {}", hex(&u)));
                next.push(u);
            }
        }
        level = next;
        if reqs.len() > 400_000 {
            compare(driver, &mut st, &reqs);
            reqs.clear();
        }
    }
    compare(driver, &mut st, &reqs);
    st
}
