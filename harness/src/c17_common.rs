//! Helpers shared by the C17 and C11 harness modules (declared from c17.rs with `#[path]`, so that no
//! shared framework file has to change): canonical text of a resolved primitive (streams by their
//! dictionary and *raw data*, never by their position in the file), error classes without positions,
//! generated value texts of every kind.

use crate::rng::Rng;
use pdf::error::PdfError;
use pdf::object::Resolve;
use pdf::primitive::{Dictionary, Primitive};

pub fn hex(bs: &[u8]) -> String {
    crate::driver::hex(bs)
}

fn fnv_bytes(bs: &[u8]) -> u64 {
    let mut h: u64 = 0xcbf29ce484222325;
    for b in bs {
        h ^= *b as u64;
        h = h.wrapping_mul(0x100000001b3);
    }
    h
}

/// error kind without any payload (payloads carry positions, which legitimately move with a prefix)
pub fn err_kind(e: &PdfError) -> String {
    let root = crate::util::err_root(e);
    let d = format!("{:?}", root);
    let k: String = d.chars().take_while(|c| c.is_alphanumeric()).collect();
    format!("E:{}", k)
}

pub fn canon_dict(d: &Dictionary, r: &impl Resolve, out: &mut String) {
    out.push_str("<<");
    for (k, v) in d.iter() {
        out.push('/');
        out.push_str(&hex(k.as_str().as_bytes()));
        out.push(' ');
        canon_into(v, r, out);
        out.push(' ');
    }
    out.push_str(">>");
}

pub fn canon_into(p: &Primitive, r: &impl Resolve, out: &mut String) {
    match p {
        Primitive::Null => out.push_str("null"),
        Primitive::Integer(i) => out.push_str(&format!("i{}", i)),
        Primitive::Number(f) => out.push_str(&format!("r{:08x}", f.to_bits())),
        Primitive::Boolean(b) => out.push_str(if *b { "true" } else { "false" }),
        Primitive::String(s) => out.push_str(&format!("s({})", hex(s.as_bytes()))),
        Primitive::Name(n) => out.push_str(&format!("/{}", hex(n.as_str().as_bytes()))),
        Primitive::Reference(x) => out.push_str(&format!("{}.{}R", x.id, x.gen)),
        Primitive::Array(a) => {
            out.push('[');
            for x in a {
                canon_into(x, r, out);
                out.push(' ');
            }
            out.push(']');
        }
        Primitive::Dictionary(d) => canon_dict(d, r, out),
        Primitive::Stream(s) => {
            out.push_str("stream");
            canon_dict(&s.info, r, out);
            match s.raw_data(r) {
                Ok(d) => out.push_str(&format!("data[{}:{:016x}]", d.len(), fnv_bytes(&d))),
                Err(e) => out.push_str(&format!("data[{}]", err_kind(&e))),
            }
        }
    }
}

pub fn canon(p: &Primitive, r: &impl Resolve) -> String {
    let mut s = String::new();
    canon_into(p, r, &mut s);
    s
}

pub fn canon_result(x: &Result<Primitive, PdfError>, r: &impl Resolve) -> String {
    match x {
        Ok(p) => canon(p, r),
        Err(e) => err_kind(e),
    }
}

pub const HEADER: &[u8] = b"%PDF-";

pub fn contains(hay: &[u8], needle: &[u8]) -> bool {
    hay.windows(needle.len()).any(|w| w == needle)
}

// ---------------------------------------------------------------------------------------------------
// value texts (spec-conformant spellings that stay clear of the lexer defects owned by other packages:
// names of regular ASCII characters, reals with a fraction, no form feed, literal strings without
// escapes other than \\ \( \) and balanced parentheses, hex strings with an even digit count)

#[derive(Clone, Debug)]
pub struct ValText {
    pub kind: &'static str,
    pub text: Vec<u8>,
}

fn name_text(rng: &mut Rng) -> Vec<u8> {
    const CH: &[u8] = b"ABCDEFGHIJKLMNOPQRSTUVWXYZabcdefghijklmnopqrstuvwxyz0123456789_.-+*!$&'^~|@:;,=?`\"";
    let n = rng.usize(8);
    let mut v = vec![b'/'];
    // an empty name is legal, but keep at least one character mostly
    let n = if n == 0 && rng.chance(9, 10) { 1 } else { n };
    for _ in 0..n {
        v.push(CH[rng.usize(CH.len())]);
    }
    v
}

fn int_text(rng: &mut Rng) -> Vec<u8> {
    let v: i64 = match rng.below(6) {
        0 => 0,
        1 => rng.range(-9, 9),
        2 => rng.range(-100000, 100000),
        3 => i32::MAX as i64,
        4 => i32::MIN as i64 + 1,
        _ => rng.range(0, 65535),
    };
    format!("{}", v).into_bytes()
}

fn real_text(rng: &mut Rng) -> Vec<u8> {
    let a = rng.range(-9999, 9999);
    let frac = rng.below(1000);
    match rng.below(4) {
        0 => format!("{}.{}", a, frac).into_bytes(),
        1 => format!("{}.{:03}", a, frac).into_bytes(),
        2 => format!("{}.5", a).into_bytes(),
        _ => format!("0.{}", frac + 1).into_bytes(),
    }
}

fn string_text(rng: &mut Rng) -> Vec<u8> {
    if rng.chance(1, 2) {
        let n = rng.usize(10);
        let mut v = vec![b'('];
        for _ in 0..n {
            match rng.below(12) {
                0 => v.extend_from_slice(b"\\("),
                1 => v.extend_from_slice(b"\\)"),
                2 => v.extend_from_slice(b"\\\\"),
                3 => v.extend_from_slice(b"(x)"),
                4 => v.push(b' '),
                5 => v.push(b'%'),
                6 => v.push(b'/'),
                _ => v.push(b"abcXYZ019<>[]{}"[rng.usize(15)]),
            }
        }
        v.push(b')');
        v
    } else {
        let n = rng.usize(8);
        let mut v = vec![b'<'];
        for _ in 0..n {
            v.extend_from_slice(format!("{:02X}", rng.byte()).as_bytes());
        }
        v.push(b'>');
        v
    }
}

/// a random value text; `depth` bounds the nesting of containers
pub fn value_text(rng: &mut Rng, depth: usize) -> ValText {
    let k = rng.below(if depth == 0 { 8 } else { 11 });
    match k {
        0 => ValText { kind: "integer", text: int_text(rng) },
        1 => ValText { kind: "real", text: real_text(rng) },
        2 => ValText { kind: "name", text: name_text(rng) },
        3 => ValText { kind: "string", text: string_text(rng) },
        4 => ValText { kind: "null", text: b"null".to_vec() },
        5 => ValText { kind: "bool", text: if rng.chance(1, 2) { b"true".to_vec() } else { b"false".to_vec() } },
        6 => ValText { kind: "reference", text: format!("{} 0 R", 1 + rng.below(40)).into_bytes() },
        7 => ValText { kind: "integer", text: int_text(rng) },
        8 | 9 => {
            // array
            let n = rng.usize(5);
            let mut v = vec![b'['];
            let tight = rng.chance(1, 3);
            for i in 0..n {
                if i > 0 || !tight {
                    v.push(b' ');
                }
                v.extend_from_slice(&value_text(rng, depth - 1).text);
            }
            if !tight {
                v.push(b' ');
            }
            v.push(b']');
            ValText { kind: "array", text: v }
        }
        _ => {
            let n = rng.usize(4);
            let mut v = b"<<".to_vec();
            for i in 0..n {
                v.extend_from_slice(format!(" /K{}", i).as_bytes());
                v.push(b' ');
                v.extend_from_slice(&value_text(rng, depth - 1).text);
            }
            v.extend_from_slice(b" >>");
            ValText { kind: "dict", text: v }
        }
    }
}
