//! C13 — concurrent readers get the answers sequential readers would.
//!
//! Model: lean/PdfModel/Model/Concurrent.lean (transition system split at the synchronisation points of
//! `StorageResolver::get` and `SyncCache::get`). The theorems are the proof; what runs here is a TEST of
//! the tie between that model and the real code, plus a search on real threads:
//!
//!   c13.exhaustive   real threads driven by a baton scheduler along EVERY interleaving (at the hook points
//!                    of `get` + the yield points of `HCache`, a mirror of `SyncCache`) of 2 threads × 1 load;
//!                    each executed schedule is replayed on the model: same position of the thread after
//!                    every step, same answers, same final state
//!   c13.reduced      2–3 threads × 1–3 loads, every interleaving of the steps that touch shared state
//!                    (cache lookup / claim / store / wake-up); thread-local steps are run eagerly
//!   c13.random       random schedules, more threads / loads, page look-ups, object streams
//!   c13.os           threads scheduled by the OS (a token is handed over at every yield point): the recorded
//!                    schedule is replayed on the model
//!   c13.lazy.*       once-initialised fields of shared typed objects (c13_lazy.rs)
//!   c13.callbacks*   the callbacks into user code (`Log::log_get`, `Log::load_object`, the `Cache` trait) as scheduling
//!                    points, with a time limit per step; c13.blocking-log: user code that really blocks (c13_cb.rs)
//! Oracles (real code against the property's own oracle = the sequential uncached run of each thread's calls):
//!   c13.witness      deterministic schedules: D29 (two loads overlap on a shared resolver: regression),
//!                    D30 (mutually referring objects loaded in opposite order: open)
//!   c13.sequential   every scheduled run above: answers = sequential answers, no panic, no deadlock
//!   c13.stress       free-running real threads (real `SyncCache`, `NoCache`, shared / own resolver)
//! Everything runs in a child process of the harness with a watchdog: a hang (deadlock on a real lock)
//! or an abort is reported with the case that was running.

#[path = "c13_lazy.rs"]
mod lazy;
#[path = "c13_cb.rs"]
mod cb;

use crate::c12::doc::*;
use crate::c12::{calls_text, cfg_text, do_call, run_config, Call, Mode, T_CAT, T_DICT, T_I32, T_OBJSTM, T_PAGES, T_PRIM, T_STREAM};
use crate::driver::Driver;
use crate::report::{Oracle, Report, Stream as RStream};
use crate::rng::Rng;
use pdf::any::AnySync;
use pdf::error::PdfError;
use pdf::file::verif_hook::{self, Point};
use pdf::file::{Cache, File, FileOptions, NoCache, NoLog, ObjectCache, StreamCache, SyncCache};
use pdf::object::{ParseOptions, PlainRef, Resolve};
use serde_json::{json, Value};
use std::cell::{Cell, RefCell};
use std::collections::HashMap;
use std::panic::{catch_unwind, resume_unwind, AssertUnwindSafe};
use std::sync::{Arc, Condvar, Mutex};
use std::time::{Duration, Instant};

// ---------------------------------------------------------------------------------------------------
// where a thread stands (the `Ctl` of the model)

#[derive(Clone, Debug, PartialEq)]
pub enum Pos {
    Start,
    Enter(u64),
    Pushed(u64),
    Waiting(u64),
    Storing(u64),
    Popping(u64),
    /// inside `Log::log_get(r)` (user code)
    LogGet(u64),
    /// inside `Log::load_object(r)` (user code)
    LoadObj(u64),
    /// entry of `Lazy::load` on cell c
    LEnter(u64),
    /// the initialiser of cell c returned; the once-cell stores next
    LStore(u64),
    /// the step did not come back: the thread blocks inside the library at a place without a yield point
    Blocked,
    Done,
    Panicked,
    Aborted,
}

impl Pos {
    pub fn text(&self) -> String {
        match self {
            Pos::Start => "t".into(),
            Pos::Enter(r) => format!("e{}", r),
            Pos::Pushed(r) => format!("p{}", r),
            Pos::Waiting(r) => format!("w{}", r),
            Pos::Storing(r) => format!("s{}", r),
            Pos::Popping(r) => format!("o{}", r),
            Pos::LogGet(r) => format!("lg{}", r),
            Pos::LoadObj(r) => format!("lo{}", r),
            Pos::LEnter(c) => format!("le{}", c),
            Pos::LStore(c) => format!("ls{}", c),
            Pos::Blocked => "b".into(),
            Pos::Done => "d".into(),
            Pos::Panicked => "x".into(),
            Pos::Aborted => "a".into(),
        }
    }
    pub(crate) fn is_final(&self) -> bool {
        matches!(self, Pos::Done | Pos::Panicked | Pos::Aborted)
    }
    /// does the step from here touch state shared with other threads (own guard stacks)?
    fn visible(&self) -> bool {
        matches!(self, Pos::Pushed(_) | Pos::Waiting(_) | Pos::Storing(_))
    }
}

pub(crate) struct AbortMarker;

/// what the hook talks to: the scheduler of the current run
pub(crate) trait Yielder: Send + Sync {
    fn yield_at(&self, me: usize, pos: Pos, log: bool);
    /// a non-yielding notification (`LazyInit`, `LazyExit`)
    fn note(&self, _me: usize, _point: Point, _cell: u64) {}
    /// cell number of the once-cell at this address
    fn cell_of(&self, _addr: u64) -> u64 { u64::MAX }
}

#[derive(Clone, Copy, PartialEq)]
enum SchedMode {
    /// a controller hands the baton to one thread at a time
    Baton,
    /// the threads pass a token among themselves; the OS decides who takes it
    Token,
}

struct Inner {
    turn: Option<usize>,
    pos: Vec<Pos>,
    abort: bool,
    log: Vec<(usize, Pos)>,
}

pub struct Sched {
    mode: SchedMode,
    m: Mutex<Inner>,
    cv: Condvar,
}

thread_local! {
    pub(crate) static ME: RefCell<Option<(usize, Arc<dyn Yielder>)>> = RefCell::new(None);
}

impl Yielder for Sched {
    fn yield_at(&self, me: usize, pos: Pos, log: bool) {
        Sched::yield_at(self, me, pos, log)
    }
}

impl Sched {
    fn new(mode: SchedMode, n: usize) -> Arc<Sched> {
        Arc::new(Sched { mode, m: Mutex::new(Inner { turn: None, pos: vec![Pos::Start; n], abort: false, log: vec![] }), cv: Condvar::new() })
    }

    /// worker: I am at `pos`; give the baton back and wait for my next turn
    fn yield_at(&self, me: usize, pos: Pos, log: bool) {
        if std::thread::panicking() {
            return; // unwinding (abort of the run, or a panic of the library): never block in a destructor
        }
        let mut g = self.m.lock().unwrap();
        g.pos[me] = pos.clone();
        if log {
            g.log.push((me, pos));
        }
        g.turn = None;
        self.cv.notify_all();
        match self.mode {
            SchedMode::Baton => {
                while g.turn != Some(me) {
                    g = self.cv.wait(g).unwrap();
                }
            }
            SchedMode::Token => {
                drop(g);
                std::thread::yield_now();
                g = self.m.lock().unwrap();
                while g.turn.is_some() && !g.abort {
                    g = self.cv.wait(g).unwrap();
                }
                g.turn = Some(me);
            }
        }
        if g.abort {
            drop(g);
            resume_unwind(Box::new(AbortMarker));
        }
    }

    /// worker: wait for the first turn
    fn wait_first(&self, me: usize) {
        let mut g = self.m.lock().unwrap();
        match self.mode {
            SchedMode::Baton => {
                while g.turn != Some(me) {
                    g = self.cv.wait(g).unwrap();
                }
            }
            SchedMode::Token => {
                while g.turn.is_some() && !g.abort {
                    g = self.cv.wait(g).unwrap();
                }
                g.turn = Some(me);
            }
        }
        if g.abort {
            drop(g);
            resume_unwind(Box::new(AbortMarker));
        }
    }

    /// worker: my thread is over
    fn finish(&self, me: usize, pos: Pos) {
        let mut g = self.m.lock().unwrap();
        g.pos[me] = pos.clone();
        g.log.push((me, pos));
        g.turn = None;
        self.cv.notify_all();
    }

    /// controller: let thread `i` run one step; its position afterwards, `None` if it does not come back
    fn run_step(&self, i: usize, timeout: Duration) -> Option<Pos> {
        let mut g = self.m.lock().unwrap();
        g.turn = Some(i);
        self.cv.notify_all();
        let t0 = Instant::now();
        while g.turn.is_some() {
            let left = timeout.checked_sub(t0.elapsed())?;
            let (g2, _) = self.cv.wait_timeout(g, left).unwrap();
            g = g2;
        }
        Some(g.pos[i].clone())
    }

    /// controller: unwind the threads that are still parked, one at a time
    fn abort_all(&self, timeout: Duration) -> bool {
        let n = self.m.lock().unwrap().pos.len();
        for i in 0..n {
            let mut g = self.m.lock().unwrap();
            if g.pos[i].is_final() {
                continue;
            }
            g.abort = true;
            g.turn = Some(i);
            self.cv.notify_all();
            let t0 = Instant::now();
            while !g.pos[i].is_final() {
                let left = match timeout.checked_sub(t0.elapsed()) { Some(l) => l, None => return false };
                let (g2, _) = self.cv.wait_timeout(g, left).unwrap();
                g = g2;
            }
        }
        true
    }
}

pub(crate) fn yield_here(pos: Pos) {
    yield_log(pos, true)
}

/// `log = false`: a waiting thread that looked again and found the slot still in process (this is not
/// a step of the model: only the OS-scheduled mode lets a thread look before the slot is stored)
fn yield_log(pos: Pos, log: bool) {
    let me = ME.with(|m| m.borrow().clone());
    if let Some((i, s)) = me {
        s.yield_at(i, pos, log);
    } else if matches!(pos, Pos::Waiting(_)) {
        std::thread::yield_now(); // free-running thread waiting for a slot of `HCache`
    }
}

thread_local! {
    /// 0: the `Log` callbacks are no scheduling points | 1: `log_get` and the first `load_object(key)` of a compute / reload
    /// run of `get(key)` are (what the model has) | 2: every `load_object` is
    pub(crate) static CB_MODE: Cell<u8> = Cell::new(0);
    /// the key whose next `load_object` is the first of a compute / reload run
    static EXPECT_LOAD: Cell<u64> = Cell::new(u64::MAX);
}

/// the user's `Log` of the scheduled runs: its methods are yield points
pub struct ParkLog;
impl pdf::file::Log for ParkLog {
    fn log_get(&self, r: PlainRef) {
        if CB_MODE.with(|m| m.get()) != 0 { yield_here(Pos::LogGet(r.id)); }
    }
    fn load_object(&self, r: PlainRef) {
        match CB_MODE.with(|m| m.get()) {
            0 => {}
            1 => if EXPECT_LOAD.with(|e| e.get()) == r.id {
                EXPECT_LOAD.with(|e| e.set(u64::MAX));
                yield_here(Pos::LoadObj(r.id));
            },
            _ => yield_here(Pos::LoadObj(r.id)),
        }
    }
}

fn hook(point: Point, key: PlainRef) {
    match point {
        Point::Enter => yield_here(Pos::Enter(key.id)),
        Point::AfterPush => { EXPECT_LOAD.with(|e| e.set(key.id)); yield_here(Pos::Pushed(key.id)) }
        Point::AfterCache => {}
        Point::BeforePop => { EXPECT_LOAD.with(|e| e.set(u64::MAX)); yield_here(Pos::Popping(key.id)) }
        Point::LazyEnter | Point::LazyInit | Point::LazyStore | Point::LazyExit => {
            let me = ME.with(|m| m.borrow().clone());
            if let Some((i, s)) = me {
                let c = s.cell_of(key.id);
                match point {
                    Point::LazyEnter => s.yield_at(i, Pos::LEnter(c), true),
                    Point::LazyStore => s.yield_at(i, Pos::LStore(c), true),
                    p => s.note(i, p, c),
                }
            }
        }
    }
}

fn install_hook() {
    verif_hook::install(Some(Arc::new(hook)));
}

// ---------------------------------------------------------------------------------------------------
// HCache: `globalcache::sync::SyncCache::get` with yield points (same protocol: look the key up under the
// lock; computed → clone; in process → wait; vacant → mark in process, unlock, compute, lock, store, notify)

enum HSlot<V> {
    InProcess,
    Computed(V),
}

pub struct HCache<V> {
    slots: Mutex<HashMap<PlainRef, HSlot<V>>>,
}

/// shared handle (the library's `Cache` is implemented on the handle, like on `Arc<SyncCache>`)
pub struct HHandle<V>(pub Arc<HCache<V>>);
impl<V> Clone for HHandle<V> {
    fn clone(&self) -> Self { HHandle(self.0.clone()) }
}

impl<V: Clone> HCache<V> {
    pub fn new() -> HHandle<V> {
        HHandle(Arc::new(HCache { slots: Mutex::new(HashMap::new()) }))
    }
}
impl<V: Clone> HHandle<V> {
    fn is_computed(&self, id: u64) -> bool {
        matches!(self.0.slots.lock().unwrap().get(&PlainRef { id, gen: 0 }), Some(HSlot::Computed(_)))
    }
}

impl<V: Clone> Cache<V> for HHandle<V> {
    fn get_or_compute(&self, key: PlainRef, compute: impl FnOnce() -> V) -> V {
        let mut compute = Some(compute);
        let mut first = true;
        loop {
            let mut g = self.0.slots.lock().unwrap();
            match g.get(&key) {
                Some(HSlot::Computed(v)) => return v.clone(),
                Some(HSlot::InProcess) => {
                    drop(g);
                    yield_log(Pos::Waiting(key.id), first); // `poll`: condvar.wait, re-check
                    first = false;
                }
                None => {
                    g.insert(key, HSlot::InProcess);
                    drop(g);
                    let v = (compute.take().unwrap())();
                    yield_here(Pos::Storing(key.id));
                    self.0.slots.lock().unwrap().insert(key, HSlot::Computed(v.clone()));
                    return v;
                }
            }
        }
    }
    fn clear(&self) {
        self.0.slots.lock().unwrap().clear()
    }
}

type HObjCache = HHandle<Result<AnySync, Arc<PdfError>>>;

// ---------------------------------------------------------------------------------------------------
// one scheduled run

#[derive(Clone, Debug, PartialEq)]
pub enum Outcome {
    Done,
    Deadlock,
    Panic,
    Truncated,
    Hang,
}

impl Outcome {
    fn text(&self) -> &'static str {
        match self {
            Outcome::Done => "done",
            Outcome::Deadlock => "deadlock",
            Outcome::Panic => "panic",
            Outcome::Truncated => "running",
            Outcome::Hang => "hang",
        }
    }
}

#[derive(Clone, Debug)]
pub struct RunOut {
    pub trace: Vec<(usize, Pos)>,
    pub enabled: Vec<Vec<usize>>,
    pub results: Vec<Vec<String>>,
    pub outcome: Outcome,
}

impl RunOut {
    fn sched_text(&self) -> String {
        if self.trace.is_empty() { "-".into() } else { self.trace.iter().map(|t| t.0.to_string()).collect::<Vec<_>>().join(".") }
    }
    /// in the notation of the model driver's answer; the enabled sets only when a controller saw them
    fn text(&self) -> String {
        let trace: Vec<String> = self.trace.iter().map(|t| t.1.text()).collect();
        let results: Vec<String> = self.results.iter().map(|r| r.join(";")).collect();
        let base = format!("{}|{}|{}", trace.join("."), results.join("/"), self.outcome.text());
        if self.enabled.len() == self.trace.len() && !self.trace.is_empty() {
            let en: Vec<String> = self.enabled.iter().map(|e| e.iter().map(|i| i.to_string()).collect::<String>()).collect();
            format!("{}|{}", base, en.join("."))
        } else {
            base
        }
    }
}

pub struct Setup<'a> {
    pub bytes: &'a [u8],
    pub tolerant: bool,
    /// bit 1 object cache (HCache), bit 0 stream cache (real SyncCache: its compute closure has no yield point)
    pub cfg: u8,
    pub shared_resolver: bool,
    pub threads: &'a [Vec<Call>],
}

const STEP_TIMEOUT: Duration = Duration::from_secs(10);
const MAX_STEPS: usize = 4000;

fn worker<OC, SC>(me: usize, sched: &Arc<Sched>, file: &File<Vec<u8>, OC, SC, NoLog>, shared: Option<&(impl Resolve + Sync)>, calls: &[Call], out: &Mutex<Vec<Vec<String>>>)
where
    OC: Cache<Result<AnySync, Arc<PdfError>>>,
    SC: Cache<Result<Arc<[u8]>, Arc<PdfError>>>,
{
    ME.with(|m| *m.borrow_mut() = Some((me, sched.clone() as Arc<dyn Yielder>)));
    let r = catch_unwind(AssertUnwindSafe(|| {
        sched.wait_first(me);
        let own = file.resolver();
        for c in calls {
            let a = match shared {
                Some(r) => do_call(file, r, c, Mode::Canon),
                None => do_call(file, &own, c, Mode::Canon),
            };
            out.lock().unwrap()[me].push(a);
            sched.yield_at(me, Pos::Start, true);
        }
    }));
    ME.with(|m| *m.borrow_mut() = None);
    match r {
        Ok(()) => sched.finish(me, Pos::Done),
        Err(p) => {
            if p.downcast_ref::<AbortMarker>().is_some() { sched.finish(me, Pos::Aborted) } else { sched.finish(me, Pos::Panicked) }
        }
    }
}

fn run_with<OC, SC>(file: File<Vec<u8>, OC, SC, NoLog>, computed: &dyn Fn(u64) -> bool, su: &Setup, mode: SchedMode,
                    chooser: &mut dyn FnMut(usize, &[usize], &[Pos]) -> Option<usize>) -> RunOut
where
    OC: Cache<Result<AnySync, Arc<PdfError>>> + Sync,
    SC: Cache<Result<Arc<[u8]>, Arc<PdfError>>> + Sync,
{
    let n = su.threads.len();
    let sched = Sched::new(mode, n);
    let out: Mutex<Vec<Vec<String>>> = Mutex::new(vec![vec![]; n]);
    let shared_res = file.resolver();
    let mut trace: Vec<(usize, Pos)> = vec![];
    let mut enabled_sets: Vec<Vec<usize>> = vec![];
    let mut outcome = Outcome::Done;
    std::thread::scope(|s| {
        for i in 0..n {
            let sched = &sched;
            let file = &file;
            let out = &out;
            let calls = &su.threads[i];
            let shared = if su.shared_resolver { Some(&shared_res) } else { None };
            s.spawn(move || worker(i, sched, file, shared, calls, out));
        }
        match mode {
            SchedMode::Baton => {
                let mut pos = vec![Pos::Start; n];
                loop {
                    let enabled: Vec<usize> = (0..n).filter(|&i| match &pos[i] {
                        p if p.is_final() => false,
                        Pos::Waiting(k) => computed(*k),
                        _ => true,
                    }).collect();
                    if enabled.is_empty() {
                        outcome = if pos.iter().any(|p| *p == Pos::Panicked) { Outcome::Panic } else if pos.iter().all(|p| p.is_final()) { Outcome::Done } else { Outcome::Deadlock };
                        break;
                    }
                    if trace.len() >= MAX_STEPS {
                        outcome = Outcome::Truncated;
                        break;
                    }
                    let i = match chooser(trace.len(), &enabled, &pos) { Some(i) => i, None => { outcome = Outcome::Truncated; break; } };
                    match sched.run_step(i, STEP_TIMEOUT) {
                        Some(p) => {
                            pos[i] = p.clone();
                            trace.push((i, p));
                            enabled_sets.push(enabled);
                        }
                        None => { outcome = Outcome::Hang; break; }
                    }
                }
                if outcome == Outcome::Hang || !sched.abort_all(STEP_TIMEOUT) {
                    // a thread is stuck inside the library on a real lock: nothing can be joined any more
                    report_hang_and_die();
                }
            }
            SchedMode::Token => {
                // the threads run by themselves; a watchdog only
                let t0 = Instant::now();
                loop {
                    {
                        let g = sched.m.lock().unwrap();
                        if g.pos.iter().all(|p| p.is_final()) { break; }
                    }
                    if t0.elapsed() > Duration::from_secs(20) {
                        report_hang_and_die();
                    }
                    std::thread::sleep(Duration::from_micros(200));
                }
                let g = sched.m.lock().unwrap();
                trace = g.log.clone();
                outcome = if g.pos.iter().any(|p| *p == Pos::Panicked) { Outcome::Panic } else { Outcome::Done };
            }
        }
    });
    let results = out.into_inner().unwrap();
    RunOut { trace, enabled: enabled_sets, results, outcome }
}

fn report_hang_and_die() -> ! {
    eprintln!("c13: a thread did not come back from the library (deadlock on a real lock?)");
    std::process::exit(97);
}

pub fn run_schedule(su: &Setup, mode: SchedMode, chooser: &mut dyn FnMut(usize, &[usize], &[Pos]) -> Option<usize>) -> Result<RunOut, String> {
    beat();
    let po = if su.tolerant { ParseOptions::tolerant() } else { ParseOptions::strict() };
    macro_rules! go {
        ($oc:expr, $sc:expr, $computed:expr) => {{
            let file = FileOptions::uncached().cache($oc, $sc).parse_options(po).load(su.bytes.to_vec()).map_err(|e| format!("open: {}", e))?;
            Ok(run_with(file, $computed, su, mode, chooser))
        }};
    }
    match su.cfg {
        0 => go!(NoCache, NoCache, &|_| false),
        1 => { let sc: StreamCache = SyncCache::new(); go!(NoCache, sc, &|_| false) }
        2 => { let oc: HObjCache = HCache::new(); let o2 = oc.clone(); go!(oc, NoCache, &move |k| o2.is_computed(k)) }
        _ => { let oc: HObjCache = HCache::new(); let o2 = oc.clone(); let sc: StreamCache = SyncCache::new(); go!(oc, sc, &move |k| o2.is_computed(k)) }
    }
}

/// depth-first enumeration of the schedules. `reduced`: a thread whose next step is thread-local (entry,
/// guard push / pop on its own stack, between calls) is run at once without branching.
pub fn explore(su: &Setup, reduced: bool, max_runs: usize, mut each: impl FnMut(&RunOut)) -> Result<(usize, bool), String> {
    let mut prefix: Vec<usize> = vec![];
    let mut runs = 0;
    loop {
        let pre = prefix.clone();
        let out = run_schedule(su, SchedMode::Baton, &mut |k, enabled, pos| {
            if k < pre.len() { return Some(pre[k]); }
            if reduced {
                if let Some(&i) = enabled.iter().find(|&&i| !pos[i].visible()) { return Some(i); }
            }
            Some(enabled[0])
        })?;
        runs += 1;
        each(&out);
        // backtrack: the deepest step with an untried alternative
        let choices: Vec<usize> = out.trace.iter().map(|t| t.0).collect();
        let mut k = choices.len();
        let mut next: Option<Vec<usize>> = None;
        while k > 0 {
            k -= 1;
            let en = &out.enabled[k];
            // in reduced mode a forced local step is not a branching point
            if reduced {
                // positions before step k: recompute which threads were local-enabled
                let mut pos = vec![Pos::Start; su.threads.len()];
                for (i, p) in &out.trace[..k] { pos[*i] = p.clone(); }
                if en.iter().any(|&i| !pos[i].visible()) { continue; }
            }
            if let Some(&alt) = en.iter().find(|&&e| e > choices[k]) {
                let mut p = choices[..k].to_vec();
                p.push(alt);
                next = Some(p);
                break;
            }
        }
        match next {
            Some(p) => prefix = p,
            None => return Ok((runs, true)),
        }
        if runs >= max_runs {
            return Ok((runs, false));
        }
    }
}

// ---------------------------------------------------------------------------------------------------
// cases

fn threads_text(ts: &[Vec<Call>]) -> String {
    ts.iter().map(|t| calls_text(t)).collect::<Vec<_>>().join("/")
}

fn request(d: &GDoc, guard_shared: bool, cfg: u8, ts: &[Vec<Call>], sched: &str) -> String {
    format!("c13.replay {} {} {} {} {} {}", if guard_shared { 1 } else { 0 }, cfg_text(cfg), if d.tolerant { 1 } else { 0 }, d.desc(), threads_text(ts), sched)
}

struct Batch {
    requests: Vec<String>,
    impls: Vec<String>,
}

fn sequential(d: &GDoc, bytes: &[u8], ts: &[Vec<Call>]) -> Vec<Vec<String>> {
    ts.iter().map(|calls| run_config(0, bytes, d.tolerant, calls, Mode::Canon, true, Some(d.root)).calls).collect()
}

/// oracle on one executed schedule
fn judge(or: &mut Oracle, d: &GDoc, cfg: u8, shared: bool, ts: &[Vec<Call>], seq: &[Vec<String>], out: &RunOut, replay: &Value) {
    let key = format!("{} {} {} {}", d.desc(), cfg, threads_text(ts), out.sched_text());
    or.case(&key, out.trace.len() > 6, || json!({"doc": d.desc(), "threads": threads_text(ts), "schedule": out.sched_text(), "run": out.text()}));
    or.count(&format!("outcome={}", out.outcome.text()));
    or.count(&format!("threads={}", ts.len()));
    if out.trace.iter().any(|t| matches!(t.1, Pos::Waiting(_))) {
        or.count("some-thread-waited-for-a-slot");
    }
    let mut r = replay.clone();
    r["cfg"] = json!(cfg_text(cfg));
    r["shared_resolver"] = json!(shared);
    r["schedule"] = json!(out.sched_text());
    r["observed"] = json!(out.text());
    r["sequential"] = json!(seq.iter().map(|s| s.join(";")).collect::<Vec<_>>().join("/"));
    let cyclic = !d.acyclic();
    match out.outcome {
        Outcome::Panic => { or.fail("panic", &format!("a thread panicked under schedule {} (threads {})", out.sched_text(), threads_text(ts)), r); return; }
        Outcome::Deadlock => {
            let sig = if cyclic { "cyclic-loads-wait-for-each-other" } else { "deadlock" };
            or.fail(sig, &format!("no thread can move under schedule {}: {} (threads {})", out.sched_text(), out.text(), threads_text(ts)), r);
            return;
        }
        Outcome::Truncated | Outcome::Hang => return,
        Outcome::Done => {}
    }
    if out.results != seq {
        // which call
        let mut what = String::new();
        for (i, (a, b)) in out.results.iter().zip(seq.iter()).enumerate() {
            for (j, (x, y)) in a.iter().zip(b.iter()).enumerate() {
                if x != y && what.is_empty() {
                    what = format!("thread {} call #{} `{}` answers {} under schedule {} but {} when run alone", i, j, ts[i][j].text(), x, out.sched_text(), y);
                }
            }
        }
        let sig = if cyclic && d.tolerant { "cyclic-typed-load-cached-under-guard" } else { "answer-differs-from-sequential" };
        or.fail(sig, &what, r);
    }
}

fn pick_load(rng: &mut Rng, d: &GDoc, nested_only: bool) -> Call {
    let tree: Vec<u64> = d.objs.iter().filter(|o| matches!(o.kind, GKind::Pages { .. } | GKind::Page { .. })).map(|o| o.id).collect();
    if nested_only || rng.chance(1, 2) {
        return Call::Get(T_PAGES, *rng.pick(&tree));
    }
    let o = rng.pick(&d.objs);
    match &o.kind {
        GKind::Int(_) => Call::Get(if rng.chance(3, 4) { T_I32 } else { T_DICT }, o.id),
        GKind::Dict => Call::Get(if rng.chance(3, 4) { T_DICT } else { T_PAGES }, o.id),
        GKind::Cat { .. } => Call::Get(T_CAT, o.id),
        GKind::ObjStm { .. } => Call::Get(if rng.chance(1, 2) { T_OBJSTM } else { T_STREAM }, o.id),
        GKind::Stream { .. } | GKind::Image { .. } => Call::Get(if rng.chance(3, 4) { T_STREAM } else { T_PRIM }, o.id),
        _ => Call::Get(T_PAGES, o.id),
    }
}

/// a load with few steps: no nested load that is not already cached by opening the file
fn pick_flat(rng: &mut Rng, d: &GDoc) -> Call {
    let flat: Vec<&GObj> = d.objs.iter().filter(|o| o.place == GPlace::Direct && matches!(o.kind, GKind::Int(_) | GKind::Dict | GKind::Stream { .. } | GKind::Image { .. })).collect();
    match rng.below(6) {
        0 => Call::Get(T_PAGES, 2),
        1 => Call::Get(T_CAT, 1),
        _ => {
            let o = rng.pick(&flat);
            match &o.kind {
                GKind::Int(_) => Call::Get(if rng.chance(3, 4) { T_I32 } else { T_DICT }, o.id),
                GKind::Dict => Call::Get(if rng.chance(3, 4) { T_DICT } else { T_I32 }, o.id),
                _ => Call::Get(if rng.chance(3, 4) { T_STREAM } else { T_PRIM }, o.id),
            }
        }
    }
}

fn small_doc(rng: &mut Rng, cyclic: bool) -> GDoc {
    loop {
        let mut d = gen_doc(rng, &GenOpts { cyclic, odd_parents: false, objstms: true });
        if cyclic { d.tolerant = true; }
        if cyclic == d.acyclic() { continue; }
        return d;
    }
}

/// every schedule of `ts` (full or reduced enumeration); model replay + oracle for each
fn enumerate(name: &str, st: &mut RStream, or: &mut Oracle, batch: &mut Batch, seed: u64, case: u64, d: &GDoc, bytes: &[u8], cfg: u8, shared: bool,
             ts: &[Vec<Call>], reduced: bool, max_runs: usize, progress: &dyn Fn(&Value)) {
    let seq = sequential(d, bytes, ts);
    let replay = json!({"stream": name, "seed": seed, "case": case, "doc": d.desc(), "tolerant": d.tolerant, "threads": threads_text(ts), "file_hex": crate::driver::hex(bytes)});
    progress(&replay);
    let su = Setup { bytes, tolerant: d.tolerant, cfg, shared_resolver: shared, threads: ts };
    let r = explore(&su, reduced, max_runs, |out| {
        judge(or, d, cfg, shared, ts, &seq, out, &replay);
        batch.requests.push(request(d, false, cfg, ts, &out.sched_text()));
        batch.impls.push(out.text());
        st.count(&format!("steps={}", out.trace.len() / 8 * 8));
    });
    match r {
        Ok((runs, complete)) => {
            st.count(&format!("enumeration-complete={}", complete));
            st.count(&format!("schedules-per-case={}", if runs < 10 { "1-9" } else if runs < 100 { "10-99" } else if runs < 1000 { "100-999" } else { "1000+" }));
            if !complete { st.exhaustive = false; }
        }
        Err(e) => st.count(&format!("unreadable={}", &e[..e.len().min(20)])),
    }
}

fn flush(driver: &Driver, st: &mut RStream, batch: &mut Batch) {
    let reqs = std::mem::take(&mut batch.requests);
    let imps = std::mem::take(&mut batch.impls);
    let resp = driver.ask(&reqs);
    for ((rq, m), i) in reqs.iter().zip(resp.iter()).zip(imps.iter()) {
        // OS-scheduled runs (and empty schedules) have no record of the enabled sets: compare the rest
        let m2 = if i.matches('|').count() == 2 { m.rsplitn(2, '|').nth(1).unwrap_or(m).to_string() } else { m.clone() };
        st.case(rq, &m2, i, true);
    }
}

fn stream_exhaustive(driver: &Driver, seed: u64, from: u64, to: u64, cap: usize, budget_s: u64, or: &mut Oracle, progress: &dyn Fn(&Value)) -> RStream {
    let mut st = RStream::new("c13.exhaustive", true);
    st.exhaustive = true;
    let mut batch = Batch { requests: vec![], impls: vec![] };
    let t0 = Instant::now();
    for case in from..to {
        if t0.elapsed().as_secs() > budget_s { st.count("skipped=time-budget"); st.exhaustive = false; continue; }
        let mut rng = Rng::derive(seed, "c13.exhaustive", case);
        let d = small_doc(&mut rng, false);
        let bytes = d.bytes();
        // two threads, one load each; the same object, or two objects one of which the other depends on
        let a = pick_flat(&mut rng, &d);
        let b = if rng.chance(1, 2) { a.clone() } else { pick_flat(&mut rng, &d) };
        let ts = vec![vec![a], vec![b]];
        let cfg = if case % 3 == 2 { 0 } else { 2 + (case % 2) as u8 };
        enumerate("c13.exhaustive", &mut st, or, &mut batch, seed, case, &d, &bytes, cfg, case % 2 == 0, &ts, false, cap, progress);
        if batch.requests.len() > 3000 { flush(driver, &mut st, &mut batch); }
    }
    flush(driver, &mut st, &mut batch);
    st
}

fn stream_reduced(driver: &Driver, seed: u64, from: u64, to: u64, cap: usize, budget_s: u64, or: &mut Oracle, progress: &dyn Fn(&Value)) -> RStream {
    let mut st = RStream::new("c13.reduced", true);
    st.exhaustive = true;
    let mut batch = Batch { requests: vec![], impls: vec![] };
    let t0 = Instant::now();
    for case in from..to {
        if t0.elapsed().as_secs() > budget_s { st.count("skipped=time-budget"); st.exhaustive = false; continue; }
        let mut rng = Rng::derive(seed, "c13.reduced", case);
        let d = small_doc(&mut rng, false);
        let bytes = d.bytes();
        let nthreads = 2 + rng.usize(2);
        let ts: Vec<Vec<Call>> = (0..nthreads).map(|_| {
            let nl = 1 + rng.usize(if nthreads == 2 { 3 } else { 2 });
            (0..nl).map(|_| pick_load(&mut rng, &d, false)).collect()
        }).collect();
        st.count(&format!("threads={}", nthreads));
        enumerate("c13.reduced", &mut st, or, &mut batch, seed, case, &d, &bytes, 2 + (case % 2) as u8, case % 2 == 0, &ts, true, cap, progress);
        if batch.requests.len() > 3000 { flush(driver, &mut st, &mut batch); }
    }
    flush(driver, &mut st, &mut batch);
    st
}

fn random_threads(rng: &mut Rng, d: &GDoc) -> Vec<Vec<Call>> {
    let n = 2 + rng.usize(3);
    let np = d.objs.iter().filter(|o| matches!(o.kind, GKind::Page { .. })).count() as u64;
    (0..n).map(|_| {
        let nl = 1 + rng.usize(4);
        (0..nl).map(|_| match rng.below(8) {
            0 => Call::Page(rng.below(np + 1) as u32),
            1 => Call::Resolve(rng.pick(&d.objs).id),
            _ => pick_load(rng, d, false),
        }).collect()
    }).collect()
}

fn stream_random(driver: &Driver, name: &str, mode: SchedMode, seed: u64, from: u64, to: u64, or: &mut Oracle, progress: &dyn Fn(&Value)) -> RStream {
    let mut st = RStream::new(name, true);
    let mut batch = Batch { requests: vec![], impls: vec![] };
    for case in from..to {
        let mut rng = Rng::derive(seed, name, case);
        let d = small_doc(&mut rng, false);
        let bytes = d.bytes();
        let ts = random_threads(&mut rng, &d);
        let cfg = rng.below(4) as u8;
        let shared = rng.chance(1, 2);
        let seq = sequential(&d, &bytes, &ts);
        let replay = json!({"stream": name, "seed": seed, "case": case, "doc": d.desc(), "tolerant": d.tolerant, "threads": threads_text(&ts), "file_hex": crate::driver::hex(&bytes)});
        progress(&replay);
        let su = Setup { bytes: &bytes, tolerant: d.tolerant, cfg, shared_resolver: shared, threads: &ts };
        let mut r2 = rng.clone();
        match run_schedule(&su, mode, &mut |_, enabled, _| Some(*r2.pick(enabled))) {
            Ok(out) => {
                judge(or, &d, cfg, shared, &ts, &seq, &out, &replay);
                batch.requests.push(request(&d, false, cfg, &ts, &out.sched_text()));
                batch.impls.push(out.text());
                st.count(&format!("threads={}", ts.len()));
                st.count(&format!("cfg={}", cfg_text(cfg)));
                st.count(&format!("steps={}", out.trace.len() / 16 * 16));
            }
            Err(e) => st.count(&format!("unreadable={}", &e[..e.len().min(20)])),
        }
    }
    flush(driver, &mut st, &mut batch);
    st
}

// ---------------------------------------------------------------------------------------------------
// deterministic witnesses

fn tree_doc(cyclic: bool) -> GDoc {
    // 1 catalog, 2 root, 4 inner node (parent 2), 3 and 5 pages of 4; cyclic: the root's /Parent is 4
    let objs = vec![
        GObj { id: 1, kind: GKind::Cat { pages: 2 }, place: GPlace::Direct },
        GObj { id: 2, kind: GKind::Pages { parent: if cyclic { 4 } else { 0 }, kids: vec![4], count: 2 }, place: GPlace::Direct },
        GObj { id: 3, kind: GKind::Page { parent: 4 }, place: GPlace::Direct },
        GObj { id: 4, kind: GKind::Pages { parent: 2, kids: vec![3, 5], count: 2 }, place: GPlace::Direct },
        GObj { id: 5, kind: GKind::Page { parent: 4 }, place: GPlace::Direct },
        GObj { id: 6, kind: GKind::Int(1006), place: GPlace::Direct },
        GObj { id: 7, kind: GKind::Int(1007), place: GPlace::Direct },
    ];
    GDoc { size: 9, root: 1, tolerant: cyclic, objs, xref_stream: false, annots: vec![] }
}

fn stream_witness(driver: &Driver, or: &mut Oracle, progress: &dyn Fn(&Value)) -> RStream {
    let mut st = RStream::new("c13.witness", true);
    let mut batch = Batch { requests: vec![], impls: vec![] };
    // D29: two threads share one resolver and load two unrelated objects; every interleaving
    let d = tree_doc(false);
    let bytes = d.bytes();
    let ts = vec![vec![Call::Get(T_I32, 6)], vec![Call::Get(T_I32, 7)]];
    for cfg in [0u8, 2] {
        enumerate("c13.witness", &mut st, or, &mut batch, 0, 29, &d, &bytes, cfg, true, &ts, false, 60_000, progress);
    }
    // the same object, and two pages with a common parent, on a shared resolver
    let ts = vec![vec![Call::Get(T_PAGES, 3)], vec![Call::Get(T_PAGES, 5)]];
    enumerate("c13.witness", &mut st, or, &mut batch, 0, 290, &d, &bytes, 2, true, &ts, true, 60_000, progress);
    // D30: 2 and 4 refer to each other through /Parent; thread 0 loads 4, thread 1 loads 2 (own resolvers).
    // (the root 2 is already cached by opening the file, so the cycle is entered through a page's parent)
    let d = GDoc { tolerant: true, ..{
        let mut d = tree_doc(false);
        // 4 -> 8 -> 4 : two inner nodes that are each other's parent, not reachable from the catalog's root
        d.objs.push(GObj { id: 8, kind: GKind::Pages { parent: 9, kids: vec![], count: 0 }, place: GPlace::Direct });
        d.objs.push(GObj { id: 9, kind: GKind::Pages { parent: 8, kids: vec![], count: 0 }, place: GPlace::Direct });
        d.size = 11;
        d
    } };
    let bytes = d.bytes();
    let ts = vec![vec![Call::Get(T_PAGES, 8)], vec![Call::Get(T_PAGES, 9)]];
    enumerate("c13.witness", &mut st, or, &mut batch, 0, 30, &d, &bytes, 2, false, &ts, true, 60_000, progress);
    flush(driver, &mut st, &mut batch);
    st
}

// ---------------------------------------------------------------------------------------------------
// free-running stress on real threads

fn stress_one<OC, SC>(file: File<Vec<u8>, OC, SC, NoLog>, shared: bool, ts: &[Vec<Call>]) -> (Vec<Vec<String>>, bool)
where
    OC: Cache<Result<AnySync, Arc<PdfError>>> + Sync,
    SC: Cache<Result<Arc<[u8]>, Arc<PdfError>>> + Sync,
{
    let n = ts.len();
    let out: Mutex<Vec<Vec<String>>> = Mutex::new(vec![vec![]; n]);
    let panicked = Mutex::new(false);
    let barrier = std::sync::Barrier::new(n);
    let shared_res = file.resolver();
    std::thread::scope(|s| {
        for i in 0..n {
            let (file, out, panicked, barrier, calls) = (&file, &out, &panicked, &barrier, &ts[i]);
            let sh = if shared { Some(&shared_res) } else { None };
            s.spawn(move || {
                barrier.wait();
                let own = file.resolver();
                for c in calls {
                    let r = catch_unwind(AssertUnwindSafe(|| match sh { Some(r) => do_call(file, r, c, Mode::Canon), None => do_call(file, &own, c, Mode::Canon) }));
                    match r {
                        Ok(a) => out.lock().unwrap()[i].push(a),
                        Err(_) => { *panicked.lock().unwrap() = true; out.lock().unwrap()[i].push("panic".into()); break; }
                    }
                }
            });
        }
    });
    (out.into_inner().unwrap(), panicked.into_inner().unwrap())
}

fn oracle_stress(seed: u64, from: u64, to: u64, reps: u64, progress: &dyn Fn(&Value)) -> Oracle {
    let mut or = Oracle::new("c13.stress");
    for case in (from..to).flat_map(|c| std::iter::repeat(c).take(reps as usize)) {
        let mut rng = Rng::derive(seed, "c13.stress", case);
        let d = small_doc(&mut rng, false);
        let bytes = d.bytes();
        let n_threads = 2 + rng.usize(5);
        let hot: Vec<Call> = (0..3).map(|_| pick_load(&mut rng, &d, false)).collect();
        let ts: Vec<Vec<Call>> = (0..n_threads).map(|_| (0..2 + rng.usize(6)).map(|_| if rng.chance(2, 3) { rng.pick(&hot).clone() } else { pick_load(&mut rng, &d, false) }).collect()).collect();
        let seq = sequential(&d, &bytes, &ts);
        let kind = rng.below(3);
        let shared = rng.chance(1, 2);
        let replay = json!({"stream": "c13.stress", "seed": seed, "case": case, "doc": d.desc(), "tolerant": d.tolerant, "threads": threads_text(&ts), "cache": kind, "shared_resolver": shared, "file_hex": crate::driver::hex(&bytes)});
        progress(&replay);
        let po = if d.tolerant { ParseOptions::tolerant() } else { ParseOptions::strict() };
        let res = match kind {
            0 => FileOptions::uncached().parse_options(po).load(bytes.clone()).map(|f| stress_one(f, shared, &ts)),
            1 => { let oc: ObjectCache = SyncCache::new(); let sc: StreamCache = SyncCache::new(); FileOptions::uncached().cache(oc, sc).parse_options(po).load(bytes.clone()).map(|f| stress_one(f, shared, &ts)) }
            _ => { let oc: HObjCache = HCache::new(); let sc: StreamCache = SyncCache::new(); FileOptions::uncached().cache(oc, sc).parse_options(po).load(bytes.clone()).map(|f| stress_one(f, shared, &ts)) }
        };
        or.count(&format!("cache={}", ["none", "SyncCache", "HCache"][kind as usize]));
        or.count(&format!("threads={}", n_threads));
        or.count(&format!("shared-resolver={}", shared));
        match res {
            Ok((out, panicked)) => {
                or.case(&format!("{} {}", d.desc(), threads_text(&ts)), true, || json!({"doc": d.desc(), "threads": threads_text(&ts)}));
                if panicked {
                    or.fail("panic", &format!("a thread panicked: threads {} (cache {}, shared resolver {})", threads_text(&ts), kind, shared), replay.clone());
                } else if out != seq {
                    let mut what = String::new();
                    for (i, (a, b)) in out.iter().zip(seq.iter()).enumerate() {
                        for (j, (x, y)) in a.iter().zip(b.iter()).enumerate() {
                            if x != y && what.is_empty() {
                                what = format!("thread {} call #{} `{}` answers {} concurrently but {} when run alone (cache {}, shared resolver {})", i, j, ts[i][j].text(), x, y, kind, shared);
                            }
                        }
                    }
                    or.fail("answer-differs-from-sequential", &what, replay.clone());
                }
            }
            Err(_) => or.count("unreadable"),
        }
    }
    or
}

// ---------------------------------------------------------------------------------------------------
// child process plumbing

fn report_from_json(v: &Value) -> Report {
    let mut rep = Report::new("C13");
    for s in v["streams"].as_array().cloned().unwrap_or_default() {
        let mut st = RStream::new(s["name"].as_str().unwrap_or(""), s["in_domain"].as_bool().unwrap_or(true));
        st.cases = s["cases"].as_u64().unwrap_or(0);
        st.exhaustive = s["exhaustive"].as_bool().unwrap_or(false);
        st.distinct_nontrivial = s["distinct_nontrivial"].as_u64().unwrap_or(0);
        st.disagreements = s["disagreements"].as_array().cloned().unwrap_or_default();
        st.samples = s["samples"].as_array().cloned().unwrap_or_default();
        if let Some(h) = s["histogram"].as_object() {
            for (k, n) in h { st.histogram.insert(k.clone(), n.as_u64().unwrap_or(0)); }
        }
        rep.streams.push(st);
    }
    for o in v["oracles"].as_array().cloned().unwrap_or_default() {
        let mut or = Oracle::new(o["name"].as_str().unwrap_or(""));
        or.cases = o["cases"].as_u64().unwrap_or(0);
        or.distinct_nontrivial = o["distinct_nontrivial"].as_u64().unwrap_or(0);
        or.failures = o["failures"].as_array().cloned().unwrap_or_default();
        or.samples = o["samples"].as_array().cloned().unwrap_or_default();
        if let Some(h) = o["histogram"].as_object() {
            for (k, n) in h { or.histogram.insert(k.clone(), n.as_u64().unwrap_or(0)); }
        }
        rep.oracles.push(or);
    }
    rep.notes = v["notes"].as_array().map(|a| a.iter().filter_map(|x| x.as_str().map(|s| s.to_string())).collect()).unwrap_or_default();
    rep
}

static HEARTBEAT: std::sync::atomic::AtomicU64 = std::sync::atomic::AtomicU64::new(0);
static BORN: std::sync::OnceLock<Instant> = std::sync::OnceLock::new();

/// tell the in-process watchdog that the work goes on
fn beat() {
    if let Some(b) = BORN.get() {
        HEARTBEAT.store(b.elapsed().as_millis() as u64, std::sync::atomic::Ordering::Relaxed);
    }
}

fn child_work(driver: &Driver, seed: u64, thorough: bool, progress_path: &str, only: Option<&Value>) -> Report {
    use std::sync::atomic::Ordering;
    install_hook();
    let born = *BORN.get_or_init(Instant::now);
    // in-process watchdog: every case reports progress; none for a minute = some threads never finish
    std::thread::spawn(move || loop {
        std::thread::sleep(Duration::from_millis(500));
        let now = born.elapsed().as_millis() as u64;
        if now.saturating_sub(HEARTBEAT.load(Ordering::Relaxed)) > 60_000 {
            eprintln!("c13: no progress for 60 s (threads blocked for ever?)");
            std::process::exit(97);
        }
    });
    let progress = |v: &Value| {
        HEARTBEAT.store(born.elapsed().as_millis() as u64, Ordering::Relaxed);
        let _ = std::fs::write(progress_path, serde_json::to_string(v).unwrap_or_default());
    };
    let mut rep = Report::new("C13");
    if let Some(r) = only {
        // replay of one stored case: the stream it came from, that case only
        let seed = r["seed"].as_u64().unwrap_or(seed);
        let case = r["case"].as_u64().unwrap_or(0);
        let mut or = Oracle::new("c13.sequential");
        match r["stream"].as_str().unwrap_or("") {
            "c13.exhaustive" => rep.streams.push(stream_exhaustive(driver, seed, case, case + 1, 200_000, u64::MAX, &mut or, &progress)),
            "c13.reduced" => rep.streams.push(stream_reduced(driver, seed, case, case + 1, 20_000, u64::MAX, &mut or, &progress)),
            "c13.random" => rep.streams.push(stream_random(driver, "c13.random", SchedMode::Baton, seed, case, case + 1, &mut or, &progress)),
            "c13.os" => {
                // the OS picks the schedule: repeat the case
                for _ in 0..30 { rep.streams.push(stream_random(driver, "c13.os", SchedMode::Token, seed, case, case + 1, &mut or, &progress)); }
            }
            "c13.stress" => rep.oracles.push(oracle_stress(seed, case, case + 1, 50, &progress)),
            "c13.callbacks" => rep.streams.push(cb::stream_callbacks(driver, false, &mut or, &progress)),
            "c13.callbacks.random" => rep.streams.push(cb::stream_callbacks_random(driver, seed, case, case + 1, &mut or, &progress)),
            "c13.blocking-log" => rep.oracles.push(cb::oracle_blocking_log(&progress)),
            "c13.lazy.random" => rep.streams.push(lazy::stream_lazy_random(driver, seed, case, case + 1, &mut or, &progress)),
            "c13.lazy.stress" => rep.oracles.push(lazy::oracle_lazy_stress(seed, case, case + 1, 50, &progress)),
            "c13.lazy.witness" => rep.streams.push(lazy::stream_lazy_witness(driver, true, &mut or, &progress)),
            "c13.registries" => rep.oracles.push(lazy::oracle_registries()),
            _ => rep.streams.push(stream_witness(driver, &mut or, &progress)),
        }
        rep.oracles.push(or);
        return rep;
    }
    let mut wor = Oracle::new("c13.witness");
    rep.streams.push(stream_witness(driver, &mut wor, &progress));
    rep.oracles.push(wor);
    let t0 = Instant::now();
    let mut lor = Oracle::new("c13.lazy");
    rep.streams.push(lazy::stream_lazy_witness(driver, thorough, &mut lor, &progress));
    rep.streams.push(lazy::stream_lazy_random(driver, seed, 0, if thorough { 20_000 } else { 600 }, &mut lor, &progress));
    rep.oracles.push(lor);
    rep.oracles.push(lazy::oracle_lazy_stress(seed, 0, if thorough { 20_000 } else { 400 }, 1, &progress));
    rep.oracles.push(lazy::oracle_registries());
    rep.extra.insert("seconds_lazy".into(), json!(t0.elapsed().as_secs_f64()));
    let mut cor = Oracle::new("c13.callbacks");
    rep.streams.push(cb::stream_callbacks(driver, thorough, &mut cor, &progress));
    rep.streams.push(cb::stream_callbacks_random(driver, seed, 0, if thorough { 10_000 } else { 250 }, &mut cor, &progress));
    rep.oracles.push(cor);
    rep.oracles.push(cb::oracle_blocking_log(&progress));
    let mut or = Oracle::new("c13.sequential");
    let t0 = Instant::now();
    rep.streams.push(stream_exhaustive(driver, seed, 0, if thorough { 40 } else { 5 }, if thorough { 20_000 } else { 1200 }, if thorough { u64::MAX } else { 10 }, &mut or, &progress));
    rep.extra.insert("seconds_exhaustive".into(), json!(t0.elapsed().as_secs_f64()));
    let t0 = Instant::now();
    rep.streams.push(stream_reduced(driver, seed, 0, if thorough { 200 } else { 20 }, if thorough { 1500 } else { 150 }, if thorough { u64::MAX } else { 10 }, &mut or, &progress));
    rep.extra.insert("seconds_reduced".into(), json!(t0.elapsed().as_secs_f64()));
    rep.streams.push(stream_random(driver, "c13.random", SchedMode::Baton, seed, 0, if thorough { 20_000 } else { 1000 }, &mut or, &progress));
    rep.streams.push(stream_random(driver, "c13.os", SchedMode::Token, seed, 0, if thorough { 10_000 } else { 400 }, &mut or, &progress));
    rep.oracles.push(or);
    rep.oracles.push(oracle_stress(seed, 0, if thorough { 20_000 } else { 1000 }, 1, &progress));
    rep
}

pub fn run(driver: &Driver, seed: u64, thorough: bool, replay: Option<&Value>) -> Report {
    // child mode: do the work
    if let Some(r) = replay {
        if r.get("child").is_some() {
            let path = r["progress"].as_str().unwrap_or("/tmp/c13.progress").to_string();
            let only = r.get("only").filter(|v| v.is_object());
            return child_work(driver, seed, thorough, &path, only);
        }
    }
    // parent: run the work in a child with a watchdog
    let dir = std::env::temp_dir();
    let tag = format!("c13-{}-{}", std::process::id(), seed);
    let spec = dir.join(format!("{}.spec.json", tag));
    let out = dir.join(format!("{}.out.json", tag));
    let prog = dir.join(format!("{}.progress.json", tag));
    let _ = std::fs::remove_file(&out);
    let _ = std::fs::remove_file(&prog);
    let mut specv = json!({"child": true, "progress": prog.to_string_lossy()});
    if let Some(r) = replay { specv["only"] = r.clone(); }
    std::fs::write(&spec, serde_json::to_string(&specv).unwrap()).expect("write spec");
    let exe = std::env::current_exe().expect("current_exe");
    let mut child = std::process::Command::new(exe)
        .args(["C13", "--tier", if thorough { "thorough" } else { "quick" }, "--seed", &seed.to_string(), "--driver", &driver.path, "--out", &out.to_string_lossy(), "--replay", &spec.to_string_lossy()])
        .spawn().expect("spawn child");
    let limit = Duration::from_secs(if thorough { 5 * 3600 } else { 900 });
    let t0 = Instant::now();
    let status = loop {
        match child.try_wait() {
            Ok(Some(s)) => break Some(s),
            Ok(None) => {
                if t0.elapsed() > limit { let _ = child.kill(); let _ = child.wait(); break None; }
                std::thread::sleep(Duration::from_millis(20));
            }
            Err(_) => break None,
        }
    };
    let report = std::fs::read_to_string(&out).ok().and_then(|t| serde_json::from_str::<Value>(&t).ok());
    let mut rep = match (&status, &report) {
        (Some(s), Some(v)) if s.success() => report_from_json(v),
        _ => {
            // the child hung (watchdog), aborted or was killed: report the case it was running
            let mut rep = Report::new("C13");
            let mut or = Oracle::new("c13.watchdog");
            let running = std::fs::read_to_string(&prog).ok().and_then(|t| serde_json::from_str::<Value>(&t).ok()).unwrap_or(json!({}));
            or.cases = 1;
            let what = match status {
                None => "time limit: the threads did not finish (deadlock or live-lock)".to_string(),
                Some(s) => format!("the child process ended with {:?} (97 = a thread never came back from the library, otherwise abort / double panic)", s.code()),
            };
            or.fail("hang-or-abort", &format!("{}; running: threads {} on {}", what, running["threads"].as_str().unwrap_or("?"), running["stream"].as_str().unwrap_or("?")), running);
            rep.oracles.push(or);
            rep
        }
    };
    rep.notes.push("c13: schedule enumeration and stress are tests of the tie between Model/Concurrent.lean and the code; the safety theorems are the proof".into());
    for p in [&spec, &out, &prog] { let _ = std::fs::remove_file(p); }
    rep
}
