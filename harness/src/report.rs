//! What a run reports back to `./check`: per correspondence stream the number of cases, the distinct
//! non-trivial ones, disagreements between model and implementation; per oracle the failures of the
//! implementation against the property's own oracle. Model disagreements and implementation failures
//! are kept apart.

use serde_json::{json, Value};
use std::collections::{BTreeMap, HashSet};

#[derive(Default)]
pub struct Stream {
    pub name: String,
    /// inputs the property quantifies over: a disagreement breaks the tie for the property
    pub in_domain: bool,
    pub cases: u64,
    pub exhaustive: bool,
    seen: HashSet<u64>,
    pub distinct_nontrivial: u64,
    pub disagreements: Vec<Value>,
    pub samples: Vec<Value>,
    pub histogram: BTreeMap<String, u64>,
}

fn fnv(s: &str) -> u64 {
    let mut h: u64 = 0xcbf29ce484222325;
    for b in s.bytes() {
        h ^= b as u64;
        h = h.wrapping_mul(0x100000001b3);
    }
    h
}

impl Stream {
    pub fn new(name: &str, in_domain: bool) -> Stream {
        Stream { name: name.into(), in_domain, ..Default::default() }
    }
    /// record one compared case; `nontrivial` by the stream's own stated rule
    pub fn case(&mut self, request: &str, model: &str, imp: &str, nontrivial: bool) {
        self.cases += 1;
        if nontrivial && self.seen.insert(fnv(request)) {
            self.distinct_nontrivial += 1;
        }
        if self.samples.len() < 3 {
            self.samples.push(json!({"request": trunc(request), "model": trunc(model), "impl": trunc(imp)}));
        }
        if model != imp && self.disagreements.len() < 20 {
            self.disagreements.push(json!({"stream": self.name, "request": request, "model": model, "impl": imp}));
        }
    }
    pub fn count(&mut self, key: &str) {
        *self.histogram.entry(key.to_string()).or_insert(0) += 1;
    }
    pub fn to_json(&self) -> Value {
        json!({
            "name": self.name, "in_domain": self.in_domain, "cases": self.cases, "exhaustive": self.exhaustive,
            "distinct_nontrivial": self.distinct_nontrivial,
            "disagreements": self.disagreements, "samples": self.samples, "histogram": self.histogram,
        })
    }
}

pub fn trunc(s: &str) -> String {
    if s.len() > 400 { format!("{}…[{} chars]", &s[..400], s.len()) } else { s.to_string() }
}

#[derive(Default)]
pub struct Oracle {
    pub name: String,
    pub cases: u64,
    seen: HashSet<u64>,
    pub distinct_nontrivial: u64,
    /// failures of the implementation against the oracle; `signature` is matched against known findings
    pub failures: Vec<Value>,
    pub samples: Vec<Value>,
    pub histogram: BTreeMap<String, u64>,
}

impl Oracle {
    pub fn new(name: &str) -> Oracle {
        Oracle { name: name.into(), ..Default::default() }
    }
    pub fn case(&mut self, key: &str, nontrivial: bool, sample: impl FnOnce() -> Value) {
        self.cases += 1;
        if nontrivial && self.seen.insert(fnv(key)) {
            self.distinct_nontrivial += 1;
        }
        if self.samples.len() < 3 {
            self.samples.push(sample());
        }
    }
    pub fn count(&mut self, key: &str) {
        *self.histogram.entry(key.to_string()).or_insert(0) += 1;
    }
    /// `signature`: short stable classification of *what* failed (construct / call site), used to match
    /// a committed known finding; `replay`: everything needed to re-run the case.
    pub fn fail(&mut self, signature: &str, what: &str, replay: Value) {
        if self.failures.len() < 50 {
            self.failures.push(json!({"oracle": self.name, "signature": signature, "what": what, "replay": replay}));
        }
    }
    pub fn to_json(&self) -> Value {
        json!({
            "name": self.name, "cases": self.cases, "distinct_nontrivial": self.distinct_nontrivial,
            "failures": self.failures, "samples": self.samples, "histogram": self.histogram,
        })
    }
}

#[derive(Default)]
pub struct Report {
    pub property: String,
    pub streams: Vec<Stream>,
    pub oracles: Vec<Oracle>,
    pub notes: Vec<String>,
    pub extra: BTreeMap<String, Value>,
}

impl Report {
    pub fn new(p: &str) -> Report {
        Report { property: p.into(), ..Default::default() }
    }
    pub fn to_json(&self) -> Value {
        json!({
            "property": self.property,
            "streams": self.streams.iter().map(|s| s.to_json()).collect::<Vec<_>>(),
            "oracles": self.oracles.iter().map(|s| s.to_json()).collect::<Vec<_>>(),
            "notes": self.notes,
            "extra": self.extra,
        })
    }
}
