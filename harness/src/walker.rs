//! The walker: opens a document with the real library and touches everything that is reachable through
//! the public read interface, in a *child process* so that stack exhaustion, aborts, allocation
//! failures and hangs are observable by the parent. Shared by C14 (planted object graphs) and C01
//! (arbitrary bytes).
//!
//! What is walked (every call is counted as `<entry point>:<ok|err>` in the statistics):
//!   storage level  `Storage::with_cache` → `load_storage_and_trailer` → for every object number up to
//!                  /Size (capped): `resolve`, then `get::<T>` for every root type T of the typed layer
//!                  (page-tree nodes, fonts, name / number trees, outline items, colour spaces, functions,
//!                  XObjects, patterns, object streams, plain streams, catalogs, form fields, annotations,
//!                  encodings, resources, contents) and for each loaded value the deeper read calls
//!                  (`walk`, `widths`, `to_unicode`, `embedded_data`, `raw_image_data`, `image_data`,
//!                  `operations`, `data`, `apply`, `get_object_slice`, `page`).
//!   file level     `FileOptions::{cached,uncached}().parse_options(..).load` → trailer → catalog →
//!                  `get_page(n)` (until the first error, capped), inherited attributes (`media_box`,
//!                  `crop_box`, `resources`), resources (fonts with widths / to_unicode / embedded data,
//!                  XObjects: images and forms, colour spaces, patterns, graphics states), contents →
//!                  `operations`, annotations, name dictionary trees → `walk`, page labels → `walk`,
//!                  outlines (First/Next followed by the walker with its own visited set), AcroForm
//!                  fields, `scan`, `version`.
//!
//! Child-process protocol (reusable: any property module may call `run_batch`):
//!   parent  writes `<dir>/job.json` = {"walker_child": true, "progress": path, "docs": [{"hex": .., "tolerant": b,
//!           "cached": b}], "max_objects": n, "time_limit_ms": t, "mem_limit_mb": m}` and starts
//!           `current_exe() <PROP> --replay job.json --out /dev/null` (the property's `run` must begin with
//!           `if let Some(r) = replay { walker::maybe_child(r); }`).
//!   child   sets RLIMIT_AS, installs a panic hook that records message + location, starts a watchdog
//!           thread, then per document appends to the progress file `S <i>` (start), runs the walk on a
//!           thread with an 8 MiB stack under `catch_unwind`, appends `D <i> <json>` (done). The watchdog
//!           appends `T <i>` and exits the process with status 3 when one document exceeds the time limit.
//!   parent  reads the progress file; a document with `S` but neither `D` nor `T` was running when the
//!           process died (SIGSEGV / SIGABRT: stack overflow, allocation failure, abort): it is recorded
//!           as `crash` with the signal and the tail of stderr; the parent then restarts a child for the
//!           remaining documents.

use pdf::any::AnySync;
use pdf::content::{Content, FormXObject, Op};
use pdf::encoding::Encoding;
use pdf::error::PdfError;
use pdf::file::{Cache, File, FileOptions, NoCache, NoLog, ScanItem, Storage};
use pdf::font::Font;
use pdf::object::*;
use pdf::primitive::{Dictionary, PdfString, Primitive};
use serde_json::{json, Value};
use std::collections::{BTreeMap, HashSet};
use std::io::Write;
use std::sync::atomic::{AtomicI64, AtomicU64, Ordering};
use std::sync::{Arc, Mutex};
use std::time::{Duration, Instant};

// ---------------------------------------------------------------------------------------------------
// statistics

#[derive(Default, Clone)]
pub struct Stats {
    pub calls: BTreeMap<String, u64>,
    /// bytes of stream data the library handed out (`Stream::data`, image data, font programs): what a
    /// document may legitimately cost beyond its own length
    pub decoded: u64,
}
impl Stats {
    fn hit(&mut self, what: &str, ok: bool) {
        *self.calls.entry(format!("{}:{}", what, if ok { "ok" } else { "err" })).or_insert(0) += 1;
    }
    fn res<T>(&mut self, what: &str, r: Result<T, PdfError>) -> Option<T> {
        self.hit(what, r.is_ok());
        r.ok()
    }
}

#[derive(Clone, Copy, Debug)]
pub struct WalkOpts {
    pub tolerant: bool,
    pub cached: bool,
    /// object numbers 0..=min(/Size, max_objects) are resolved and loaded as every type
    pub max_objects: u64,
}

fn parse_options(tolerant: bool) -> ParseOptions {
    if tolerant { ParseOptions::tolerant() } else { ParseOptions::strict() }
}

// ---------------------------------------------------------------------------------------------------
// value-level walks (generic in the resolver)

const CAP: usize = 4096;

fn walk_stream_data<I: Object>(s: &Stream<I>, r: &impl Resolve, st: &mut Stats) {
    if let Some(d) = st.res("stream.data", s.data(r)) {
        st.decoded += d.len() as u64;
    }
}

fn walk_function(f: &Function, st: &mut Stats) {
    // `input_dim` / `output_dim` panic by design on the variants they do not know: only ask the others
    let (n_in, n_out) = match f {
        Function::PostScript { .. } | Function::Sampled(_) => (f.input_dim(), f.output_dim()),
        Function::Interpolated(parts) => (1, parts.len()),
        _ => (1, 1),
    };
    let n_in = n_in.min(8);
    let n_out = n_out.min(64);
    let probes: [f32; 9] = [0.0, 0.5, 1.0, -1.0, 2.0, 1.0e9, -1.0e9, f32::INFINITY, f32::NAN];
    for &x in probes.iter() {
        let input = vec![x; n_in.max(1)];
        let mut out = vec![0.0f32; n_out];
        st.res("function.apply", f.apply(&input, &mut out));
        // a caller that does not know the dimensions
        let mut out1 = vec![0.0f32; 1];
        st.res("function.apply", f.apply(&input[..1], &mut out1));
    }
}

fn walk_colorspace(cs: &ColorSpace, r: &impl Resolve, st: &mut Stats, depth: usize) {
    if depth == 0 {
        return;
    }
    match cs {
        ColorSpace::DeviceN { alt, tint, .. } => {
            walk_function(tint, st);
            walk_colorspace(alt, r, st, depth - 1);
        }
        ColorSpace::Indexed(base, _, _) => walk_colorspace(base, r, st, depth - 1),
        ColorSpace::Separation(_, alt, tint) => {
            walk_function(tint, st);
            walk_colorspace(alt, r, st, depth - 1);
        }
        ColorSpace::Icc(s) => {
            walk_stream_data(&**s, r, st);
            if let Some(ref alt) = s.info.info.alternate {
                walk_colorspace(alt, r, st, depth - 1);
            }
            if let Some(ref m) = s.info.info.metadata {
                walk_stream_data(m, r, st);
            }
        }
        _ => {}
    }
}

fn walk_font(font: &Font, r: &impl Resolve, st: &mut Stats) {
    match font.widths(r) {
        Ok(Some(w)) => {
            st.hit("font.widths", true);
            for cid in [0usize, 1, 32, 255, 256, 65535, usize::MAX] {
                let _ = w.get(cid);
            }
        }
        Ok(None) => st.hit("font.widths", true),
        Err(_) => st.hit("font.widths", false),
    }
    if let Some(res) = font.to_unicode(r) {
        if let Some(map) = st.res("font.to_unicode", res) {
            let _ = map.len();
            let _ = map.get(0);
        }
    }
    if let Some(res) = font.embedded_data(r) {
        if let Some(d) = st.res("font.embedded_data", res) {
            st.decoded += d.len() as u64;
        }
    }
    let _ = font.is_cid();
    let _ = font.cid_to_gid_map();
    let _ = font.encoding();
    let _ = font.info();
}

fn walk_image(img: &ImageXObject, r: &impl Resolve, st: &mut Stats) {
    st.res("image.raw_image_data", img.raw_image_data(r).map(|_| ()));
    if let Some(d) = st.res("image.image_data", img.image_data(r)) {
        st.decoded += d.len() as u64;
    }
    if let Some(ref cs) = img.color_space {
        walk_colorspace(cs, r, st, 8);
    }
    if let Some(sm) = img.smask {
        if let Some(s) = st.res("get<SMask>", r.get(sm)) {
            walk_stream_data(&*s, r, st);
        }
    }
}

fn walk_ops(ops: &[Op], st: &mut Stats) {
    for op in ops.iter().take(CAP) {
        if let Op::InlineImage { image } = op {
            // the inline image carries generated data: decoding is in-process
            st.res("inline_image.data", image.inner.data(&NoResolve));
        }
    }
}

fn walk_form(form: &FormXObject, r: &impl Resolve, st: &mut Stats, depth: usize) {
    if let Some(ops) = st.res("form.operations", form.operations(r)) {
        walk_ops(&ops, st);
    }
    if let Some(ref res) = form.dict().resources {
        walk_resources(res, r, st, depth);
    }
}

fn walk_xobject(x: &XObject, r: &impl Resolve, st: &mut Stats, depth: usize) {
    match x {
        XObject::Image(img) => walk_image(img, r, st),
        XObject::Form(f) => walk_form(f, r, st, depth),
        XObject::Postscript(s) => walk_stream_data(s, r, st),
    }
}

fn walk_pattern(p: &Pattern, r: &impl Resolve, st: &mut Stats, depth: usize) {
    let d = p.dict();
    if let Some(res) = st.res("get<Resources>", r.get(d.resources)) {
        walk_resources(&res, r, st, depth);
    }
}

fn walk_resources(res: &Resources, r: &impl Resolve, st: &mut Stats, depth: usize) {
    if depth == 0 {
        return;
    }
    for (_, f) in res.fonts.iter().take(CAP) {
        if let Some(font) = st.res("lazy<Font>.load", f.load(r)) {
            walk_font(&font, r, st);
        }
    }
    for (_, xr) in res.xobjects.iter().take(CAP) {
        if let Some(x) = st.res("get<XObject>", r.get(*xr)) {
            walk_xobject(&x, r, st, depth - 1);
        }
    }
    for (_, cs) in res.color_spaces.iter().take(CAP) {
        walk_colorspace(cs, r, st, 8);
    }
    for (_, pr) in res.pattern.iter().take(CAP) {
        if let Some(p) = st.res("get<Pattern>", r.get(*pr)) {
            walk_pattern(&p, r, st, depth - 1);
        }
    }
    for (_, gs) in res.graphics_states.iter().take(CAP) {
        if let Some((fr, _)) = gs.font {
            if let Some(font) = st.res("get<Font>", r.get(fr)) {
                walk_font(&font, r, st);
            }
        }
    }
}

fn walk_page(page: &Page, r: &impl Resolve, st: &mut Stats) {
    st.res("page.media_box", page.media_box());
    st.res("page.crop_box", page.crop_box());
    if let Some(res) = st.res("page.resources", page.resources().map(|m| m.clone())) {
        walk_resources(&res, r, st, 4);
    }
    if let Some(ref c) = page.contents {
        walk_content(c, r, st);
    }
    if let Some(annots) = st.res("page.annotations.load", page.annotations.load(r)) {
        for a in annots.iter().take(CAP) {
            walk_annot(a, r, st);
        }
    }
}

fn walk_content(c: &Content, r: &impl Resolve, st: &mut Stats) {
    if let Some(ops) = st.res("content.operations", c.operations(r)) {
        walk_ops(&ops, st);
    }
}

fn walk_appearance_entry(e: &AppearanceStreamEntry, r: &impl Resolve, st: &mut Stats, depth: usize) {
    if depth == 0 {
        return;
    }
    match e {
        AppearanceStreamEntry::Single(f) => walk_form(f, r, st, 2),
        AppearanceStreamEntry::Dict(d) => {
            for (_, e) in d.iter().take(CAP) {
                walk_appearance_entry(e, r, st, depth - 1);
            }
        }
    }
}

fn walk_annot(a: &Annot, r: &impl Resolve, st: &mut Stats) {
    if let Some(ref ap) = a.appearance_streams {
        for e in [Some(ap.normal), ap.rollover, ap.down].iter().flatten() {
            if let Some(entry) = st.res("get<AppearanceStreamEntry>", r.get(*e)) {
                walk_appearance_entry(&entry, r, st, 4);
            }
        }
    }
}

fn walk_pagetree_node(node: &PagesNode, r: &impl Resolve, st: &mut Stats) {
    match node {
        PagesNode::Leaf(p) => walk_page(p, r, st),
        PagesNode::Tree(t) => {
            // ask for a few page numbers, including ones beyond any possible count
            for n in [0u32, 1, 2, t.count.wrapping_sub(1), t.count, u32::MAX] {
                if let Some(p) = st.res("pagetree.page", t.page(r, n)) {
                    let _ = p.get_ref();
                }
            }
        }
    }
}

fn walk_outline_items(first: Option<Ref<OutlineItem>>, r: &impl Resolve, st: &mut Stats) {
    // the library only hands out references; the loop (and its bound) is the caller's
    let mut seen: HashSet<u64> = HashSet::new();
    let mut todo: Vec<Ref<OutlineItem>> = first.into_iter().collect();
    while let Some(rf) = todo.pop() {
        if !seen.insert(rf.get_inner().id) || seen.len() > CAP {
            continue;
        }
        if let Some(item) = st.res("get<OutlineItem>", r.get(rf)) {
            for n in [item.first, item.next, item.last, item.prev].iter().flatten() {
                todo.push(*n);
            }
            if let Some(ref t) = item.title {
                let _ = t.to_string_lossy();
            }
        }
    }
}

fn walk_fields(fields: &[RcRef<FieldDictionary>], r: &impl Resolve, st: &mut Stats) {
    let mut seen: HashSet<u64> = HashSet::new();
    let mut todo: Vec<Ref<FieldDictionary>> = vec![];
    for f in fields.iter().take(CAP) {
        todo.extend(f.kids.iter().cloned());
        todo.extend(f.parent.iter().cloned());
    }
    while let Some(rf) = todo.pop() {
        if !seen.insert(rf.get_inner().id) || seen.len() > CAP {
            continue;
        }
        if let Some(f) = st.res("get<FieldDictionary>", r.get(rf)) {
            todo.extend(f.kids.iter().cloned());
            todo.extend(f.parent.iter().cloned());
        }
    }
}

// (macros instead of generic functions: the bound `DataSize` of `walk` cannot be named from outside the crate)
macro_rules! walk_name_tree {
    ($what:expr, $t:expr, $r:expr, $st:expr) => {{
        let mut n = 0u64;
        let res = $t.walk($r, &mut |k: &PdfString, _v| {
            n += 1;
            let _ = k.as_bytes().len();
        });
        $st.res($what, res);
    }};
}
macro_rules! walk_number_tree {
    ($what:expr, $t:expr, $r:expr, $st:expr) => {{
        let mut n = 0u64;
        let res = $t.walk($r, &mut |_k: i32, _v| {
            n += 1;
        });
        $st.res($what, res);
    }};
}

fn walk_catalog(cat: &Catalog, r: &impl Resolve, st: &mut Stats) {
    if let Some(ref labels) = cat.page_labels {
        walk_number_tree!("numbertree.walk", labels, r, st);
    }
    if let Some(ref names) = cat.names {
        if let Some(ref t) = names.pages { walk_name_tree!("nametree.walk", t, r, st); }
        if let Some(ref t) = names.dests { walk_name_tree!("nametree.walk", t, r, st); }
        if let Some(ref t) = names.ap { walk_name_tree!("nametree.walk", t, r, st); }
        if let Some(ref t) = names.javascript { walk_name_tree!("nametree.walk", t, r, st); }
        if let Some(ref t) = names.templates { walk_name_tree!("nametree.walk", t, r, st); }
        if let Some(ref t) = names.ids { walk_name_tree!("nametree.walk", t, r, st); }
        if let Some(ref t) = names.urls { walk_name_tree!("nametree.walk", t, r, st); }
        if let Some(ref t) = names.embedded_files { walk_name_tree!("nametree.walk", t, r, st); }
    }
    if let Some(ref o) = cat.outlines {
        walk_outline_items(o.first, r, st);
        walk_outline_items(o.last, r, st);
    }
    if let Some(ref forms) = cat.forms {
        walk_fields(&forms.fields, r, st);
        if let Some(ref dr) = forms.dr {
            walk_resources(dr, r, st, 3);
        }
    }
    if let Some(m) = cat.metadata {
        if let Some(s) = st.res("get<Stream>", r.get(m)) {
            walk_stream_data(&*s, r, st);
        }
    }
    // page tree through the catalog's root node
    for n in [0u32, 1, 2, 3, cat.pages.count.wrapping_sub(1), cat.pages.count, u32::MAX] {
        if let Some(p) = st.res("pagetree.page", cat.pages.page(r, n)) {
            walk_page(&p, r, st);
        }
    }
}

/// `get::<T>(id)` for every root type of the typed layer, and the deeper reads of what loads
fn walk_object_as_everything(id: u64, r: &impl Resolve, st: &mut Stats) {
    let pr = PlainRef { id, gen: 0 };
    let prim = st.res("resolve", r.resolve(pr));
    if let Some(Primitive::Stream(ref s)) = prim {
        st.res("pdfstream.raw_data", s.raw_data(r));
    }
    if let Some(n) = st.res("get<PagesNode>", r.get::<PagesNode>(Ref::new(pr))) {
        walk_pagetree_node(&n, r, st);
    }
    if let Some(f) = st.res("get<Font>", r.get::<Font>(Ref::new(pr))) {
        walk_font(&f, r, st);
    }
    if let Some(t) = st.res("get<NameTree>", r.get::<NameTree<Primitive>>(Ref::new(pr))) {
        walk_name_tree!("nametree.walk", &*t, r, st);
    }
    if let Some(t) = st.res("get<NameTree<Dest>>", r.get::<NameTree<Option<Dest>>>(Ref::new(pr))) {
        walk_name_tree!("nametree.walk", &*t, r, st);
    }
    if let Some(t) = st.res("get<NumberTree>", r.get::<NumberTree<Primitive>>(Ref::new(pr))) {
        walk_number_tree!("numbertree.walk", &*t, r, st);
    }
    if let Some(t) = st.res("get<NumberTree<PageLabel>>", r.get::<NumberTree<PageLabel>>(Ref::new(pr))) {
        walk_number_tree!("numbertree.walk", &*t, r, st);
    }
    if st.res("get<OutlineItem>", r.get::<OutlineItem>(Ref::new(pr))).is_some() {
        walk_outline_items(Some(Ref::new(pr)), r, st);
    }
    if let Some(cs) = st.res("get<ColorSpace>", r.get::<ColorSpace>(Ref::new(pr))) {
        walk_colorspace(&cs, r, st, 8);
    }
    if let Some(f) = st.res("get<Function>", r.get::<Function>(Ref::new(pr))) {
        walk_function(&f, st);
    }
    if let Some(x) = st.res("get<XObject>", r.get::<XObject>(Ref::new(pr))) {
        walk_xobject(&x, r, st, 3);
    }
    if let Some(p) = st.res("get<Pattern>", r.get::<Pattern>(Ref::new(pr))) {
        walk_pattern(&p, r, st, 3);
    }
    if let Some(os) = st.res("get<ObjectStream>", r.get::<ObjectStream>(Ref::new(pr))) {
        let n = os.n_objects();
        for i in [0usize, 1, n.wrapping_sub(1), n, usize::MAX] {
            st.res("objstm.get_object_slice", os.get_object_slice(i, r).map(|_| ()));
        }
    }
    if let Some(s) = st.res("get<Stream>", r.get::<Stream<()>>(Ref::new(pr))) {
        walk_stream_data(&*s, r, st);
    }
    if let Some(c) = st.res("get<Catalog>", r.get::<Catalog>(Ref::new(pr))) {
        walk_catalog(&c, r, st);
    }
    if let Some(f) = st.res("get<FieldDictionary>", r.get::<FieldDictionary>(Ref::new(pr))) {
        walk_fields(&[f], r, st);
    }
    if let Some(a) = st.res("get<Annot>", r.get::<Annot>(Ref::new(pr))) {
        walk_annot(&a, r, st);
    }
    if let Some(e) = st.res("get<AppearanceStreamEntry>", r.get::<AppearanceStreamEntry>(Ref::new(pr))) {
        walk_appearance_entry(&e, r, st, 4);
    }
    st.res("get<Encoding>", r.get::<Encoding>(Ref::new(pr)).map(|_| ()));
    if let Some(res) = st.res("get<Resources>", r.get::<Resources>(Ref::new(pr))) {
        walk_resources(&res, r, st, 3);
    }
    if let Some(c) = st.res("get<Content>", r.get::<Content>(Ref::new(pr))) {
        walk_content(&c, r, st);
    }
    st.res("get<Dictionary>", r.get::<Dictionary>(Ref::new(pr)).map(|_| ()));
    st.res("get<Vec<Primitive>>", r.get::<Vec<Primitive>>(Ref::new(pr)).map(|_| ()));
    st.res("get<InfoDict>", r.get::<InfoDict>(Ref::new(pr)).map(|_| ()));
    st.res("get<Outlines>", r.get::<Outlines>(Ref::new(pr)).map(|_| ()));
    st.res("get<StructElem>", r.get::<StructElem>(Ref::new(pr)).map(|_| ()));
}

// ---------------------------------------------------------------------------------------------------
// document-level walks

fn size_of_trailer(t: &Dictionary) -> u64 {
    t.get("Size").and_then(|p| p.as_u32().ok()).unwrap_or(0) as u64
}

static SCAN_UNLOADED: std::sync::atomic::AtomicBool = std::sync::atomic::AtomicBool::new(false);
fn opts_scan_unloaded() -> bool {
    SCAN_UNLOADED.load(Ordering::SeqCst)
}

fn walk_storage<OC, SC>(bytes: &[u8], opts: WalkOpts, oc: OC, sc: SC, st: &mut Stats)
where
    OC: Cache<Result<AnySync, Arc<PdfError>>>,
    SC: Cache<Result<Arc<[u8]>, Arc<PdfError>>>,
{
    let storage = Storage::with_cache(bytes.to_vec(), parse_options(opts.tolerant), oc, sc, NoLog);
    let mut storage = match st.res("storage.with_cache", storage) {
        Some(s) => s,
        None => return,
    };
    let trailer = match st.res("storage.load_storage_and_trailer", storage.load_storage_and_trailer()) {
        Some(t) => t,
        None => {
            // the table could not be read: the recovery scan and the version are still there for the caller
            // (with `with_scan`), and they do their own arithmetic on `startxref` and the header position
            if opts_scan_unloaded() {
                st.res("storage.version", storage.version());
                let mut items = 0usize;
                for item in storage.scan() {
                    items += 1;
                    match item {
                        Ok(_) => st.hit("scan.unloaded.item", true),
                        Err(_) => { st.hit("scan.unloaded.item", false); break; }
                    }
                    if items > CAP { break; }
                }
            }
            return;
        }
    };
    st.res("storage.version", storage.version());
    let n = size_of_trailer(&trailer).min(opts.max_objects);
    let r = storage.resolver();
    for id in 0..=n + 1 {
        walk_object_as_everything(id, &r, st);
    }
    // scan is driven here through Storage (File::scan is the same function)
    // NOTE: `scan` unwraps inside the library before the first item (D26, owned by the C17 package); the
    // file-level walk below calls it in its own catch so that the finding is attributed correctly.
}

fn walk_file<OC, SC>(file: &File<Vec<u8>, OC, SC, NoLog>, opts: WalkOpts, st: &mut Stats)
where
    OC: Cache<Result<AnySync, Arc<PdfError>>>,
    SC: Cache<Result<Arc<[u8]>, Arc<PdfError>>>,
{
    let r = file.resolver();
    st.res("file.version", file.version());
    let cat = file.get_root();
    walk_catalog(cat, &r, st);
    let n_pages = file.num_pages();
    // get_page until the first error, at most max_objects + 2 pages (a lying /Count is not followed)
    let mut n = 0u32;
    while (n as u64) < opts.max_objects + 2 && n < n_pages {
        match st.res("file.get_page", file.get_page(n)) {
            Some(p) => walk_page(&p, &r, st),
            None => break,
        }
        n += 1;
    }
    st.res("file.get_page", file.get_page(n_pages).map(|_| ()));
    st.res("file.get_page", file.get_page(u32::MAX).map(|_| ()));
    if let Some(ref info) = file.trailer.info_dict {
        let _ = info.title.as_ref().map(|t| t.to_string_lossy());
    }
    for id in file.trailer.id.iter() {
        let _ = id.as_bytes().len();
    }
}

fn walk_scan<OC, SC>(file: &File<Vec<u8>, OC, SC, NoLog>, st: &mut Stats)
where
    OC: Cache<Result<AnySync, Arc<PdfError>>>,
    SC: Cache<Result<Arc<[u8]>, Arc<PdfError>>>,
{
    let mut items = 0usize;
    for item in file.scan() {
        items += 1;
        match item {
            Ok(ScanItem::Object(_, _)) => st.hit("scan.object", true),
            Ok(ScanItem::Trailer(_)) => st.hit("scan.trailer", true),
            Err(_) => {
                st.hit("scan.item", false);
                // an error item does not necessarily advance the cursor: the caller has to stop
                break;
            }
        }
        if items > CAP {
            break;
        }
    }
}

/// The complete walk of one document under one configuration. Panics propagate to the caller.
pub fn walk_document(bytes: &[u8], opts: WalkOpts, with_scan: bool) -> Stats {
    let mut st = Stats::default();
    if opts.cached {
        let oc = pdf::file::SyncCache::new();
        let sc = pdf::file::SyncCache::new();
        walk_storage(bytes, opts, oc, sc, &mut st);
        let f = FileOptions::cached().parse_options(parse_options(opts.tolerant)).load(bytes.to_vec());
        if let Some(f) = st.res("file.load", f) {
            walk_file(&f, opts, &mut st);
            if with_scan {
                walk_scan(&f, &mut st);
            }
        }
    } else {
        walk_storage(bytes, opts, NoCache, NoCache, &mut st);
        let f = FileOptions::uncached().parse_options(parse_options(opts.tolerant)).load(bytes.to_vec());
        if let Some(f) = st.res("file.load", f) {
            walk_file(&f, opts, &mut st);
            if with_scan {
                walk_scan(&f, &mut st);
            }
        }
    }
    st
}

// ---------------------------------------------------------------------------------------------------
// memory accounting: a counting global allocator (the whole harness runs on it; two relaxed atomics per
// allocation). The child resets the peak before every document and reports `peak - level at the start`.

pub struct CountingAlloc;
/// counting is switched on in walker children only: the other properties of the harness pay one relaxed load
static ALLOC_ON: std::sync::atomic::AtomicBool = std::sync::atomic::AtomicBool::new(false);
static ALLOC_CUR: std::sync::atomic::AtomicIsize = std::sync::atomic::AtomicIsize::new(0);
static ALLOC_PEAK: std::sync::atomic::AtomicIsize = std::sync::atomic::AtomicIsize::new(0);

#[inline]
fn alloc_add(n: usize) {
    if ALLOC_ON.load(Ordering::Relaxed) {
        let cur = ALLOC_CUR.fetch_add(n as isize, Ordering::Relaxed) + n as isize;
        ALLOC_PEAK.fetch_max(cur, Ordering::Relaxed);
    }
}
#[inline]
fn alloc_sub(n: usize) {
    if ALLOC_ON.load(Ordering::Relaxed) {
        // (may go below zero for what was allocated before counting began: only differences are used)
        ALLOC_CUR.fetch_sub(n as isize, Ordering::Relaxed);
    }
}

unsafe impl std::alloc::GlobalAlloc for CountingAlloc {
    unsafe fn alloc(&self, l: std::alloc::Layout) -> *mut u8 {
        let p = std::alloc::System.alloc(l);
        if !p.is_null() { alloc_add(l.size()); }
        p
    }
    unsafe fn alloc_zeroed(&self, l: std::alloc::Layout) -> *mut u8 {
        let p = std::alloc::System.alloc_zeroed(l);
        if !p.is_null() { alloc_add(l.size()); }
        p
    }
    unsafe fn dealloc(&self, p: *mut u8, l: std::alloc::Layout) {
        std::alloc::System.dealloc(p, l);
        alloc_sub(l.size());
    }
    unsafe fn realloc(&self, p: *mut u8, l: std::alloc::Layout, new_size: usize) -> *mut u8 {
        let q = std::alloc::System.realloc(p, l, new_size);
        if !q.is_null() {
            if new_size >= l.size() { alloc_add(new_size - l.size()); } else { alloc_sub(l.size() - new_size); }
        }
        q
    }
}

#[global_allocator]
static GLOBAL: CountingAlloc = CountingAlloc;

/// (bytes allocated now, highest value since the last `alloc_reset_peak`), relative to the start of counting
pub fn alloc_levels() -> (isize, isize) {
    (ALLOC_CUR.load(Ordering::Relaxed), ALLOC_PEAK.load(Ordering::Relaxed))
}
/// switches counting on (if it is not) and restarts the peak at the current level, which is returned
pub fn alloc_reset_peak() -> isize {
    ALLOC_ON.store(true, Ordering::Relaxed);
    let cur = ALLOC_CUR.load(Ordering::Relaxed);
    ALLOC_PEAK.store(cur, Ordering::Relaxed);
    cur
}

// ---------------------------------------------------------------------------------------------------
// child side

#[repr(C)]
struct RLimit {
    cur: u64,
    max: u64,
}
extern "C" {
    fn setrlimit(resource: i32, rlim: *const RLimit) -> i32;
}
const RLIMIT_AS: i32 = 9; // Linux

static LAST_PANIC: Mutex<Option<String>> = Mutex::new(None);
static CUR_DOC: AtomicI64 = AtomicI64::new(-1);
static CUR_START_MS: AtomicU64 = AtomicU64::new(0);

fn append(path: &str, line: &str) {
    if let Ok(mut f) = std::fs::OpenOptions::new().create(true).append(true).open(path) {
        let _ = writeln!(f, "{}", line);
        let _ = f.flush();
    }
}

/// If `replay` is a walker job this never returns: it runs the job and exits the process.
pub fn maybe_child(replay: &Value) {
    if replay.get("walker_child").and_then(|v| v.as_bool()) != Some(true) {
        return;
    }
    let progress = replay["progress"].as_str().unwrap_or("/dev/null").to_string();
    let max_objects = replay["max_objects"].as_u64().unwrap_or(16);
    let time_limit_ms = replay["time_limit_ms"].as_u64().unwrap_or(10_000);
    let mem_limit_mb = replay["mem_limit_mb"].as_u64().unwrap_or(1024);
    let with_scan = replay["with_scan"].as_bool().unwrap_or(true);
    SCAN_UNLOADED.store(with_scan, Ordering::SeqCst);
    let first = replay["first"].as_u64().unwrap_or(0) as usize;
    unsafe {
        let lim = RLimit { cur: mem_limit_mb << 20, max: mem_limit_mb << 20 };
        setrlimit(RLIMIT_AS, &lim);
    }
    std::panic::set_hook(Box::new(|info| {
        let loc = info.location().map(|l| format!("{}:{}", l.file(), l.line())).unwrap_or_default();
        let msg = if let Some(s) = info.payload().downcast_ref::<&str>() { s.to_string() }
            else if let Some(s) = info.payload().downcast_ref::<String>() { s.clone() }
            else { "panic".to_string() };
        // keep the FIRST panic of a document (later ones are usually consequences: poisoned locks)
        let mut g = LAST_PANIC.lock().unwrap_or_else(|e| e.into_inner());
        if g.is_none() {
            *g = Some(format!("{} @ {}", msg, loc));
        }
    }));
    let t0 = Instant::now();
    {
        let progress = progress.clone();
        std::thread::spawn(move || loop {
            std::thread::sleep(Duration::from_millis(50));
            let cur = CUR_DOC.load(Ordering::SeqCst);
            if cur >= 0 {
                let started = CUR_START_MS.load(Ordering::SeqCst);
                let now = t0.elapsed().as_millis() as u64;
                if now.saturating_sub(started) > time_limit_ms {
                    append(&progress, &format!("T {}", cur));
                    std::process::exit(3);
                }
            }
        });
    }
    let docs = replay["docs"].as_array().cloned().unwrap_or_default();
    for (i, d) in docs.iter().enumerate().skip(first) {
        let bytes = crate::driver::unhex(d["hex"].as_str().unwrap_or("-")).unwrap_or_default();
        let opts = WalkOpts { tolerant: d["tolerant"].as_bool().unwrap_or(false), cached: d["cached"].as_bool().unwrap_or(false), max_objects };
        *LAST_PANIC.lock().unwrap_or_else(|e| e.into_inner()) = None;
        CUR_START_MS.store(t0.elapsed().as_millis() as u64, Ordering::SeqCst);
        CUR_DOC.store(i as i64, Ordering::SeqCst);
        append(&progress, &format!("S {}", i));
        let t = Instant::now();
        let base = alloc_reset_peak();
        let handle = std::thread::Builder::new()
            .stack_size(8 << 20)
            .spawn(move || std::panic::catch_unwind(std::panic::AssertUnwindSafe(|| walk_document(&bytes, opts, with_scan))))
            .expect("spawn walk thread");
        let res = handle.join();
        CUR_DOC.store(-1, Ordering::SeqCst);
        let ms = t.elapsed().as_millis() as u64;
        let out = match res {
            Ok(Ok(st)) => json!({"outcome": "returned", "ms": ms, "calls": st.calls, "peak_bytes": (alloc_levels().1 - base).max(0) as u64, "decoded_bytes": st.decoded}),
            _ => {
                let p = LAST_PANIC.lock().unwrap_or_else(|e| e.into_inner()).clone().unwrap_or_else(|| "panic".into());
                json!({"outcome": "panic", "ms": ms, "panic": p})
            }
        };
        append(&progress, &format!("D {} {}", i, out));
    }
    std::process::exit(0);
}

// ---------------------------------------------------------------------------------------------------
// parent side

#[derive(Clone, Debug)]
pub struct Doc {
    pub bytes: Vec<u8>,
    pub tolerant: bool,
    pub cached: bool,
}

#[derive(Clone, Debug, PartialEq)]
pub enum Outcome {
    /// every call returned a value or an error
    Returned,
    /// a panic was caught: message @ file:line of the first panic
    Panic(String),
    /// the child process died while this document was being walked (stack overflow, abort, allocation failure)
    Crash { status: String, stderr_tail: String },
    /// the document exceeded the per-document time limit
    Timeout,
    /// the harness could not run the document (should not happen)
    NotRun(String),
}

#[derive(Clone, Debug)]
pub struct DocResult {
    pub outcome: Outcome,
    pub ms: u64,
    pub calls: BTreeMap<String, u64>,
    /// highest number of bytes allocated at one time while the document was walked (above the level before
    /// it; counted by the allocator of the child); 0 when the walk did not return
    pub peak_bytes: u64,
    /// bytes of decoded stream data the library handed to the walker
    pub decoded_bytes: u64,
}

#[derive(Clone, Copy, Debug)]
pub struct Limits {
    pub max_objects: u64,
    pub time_limit_ms: u64,
    pub mem_limit_mb: u64,
    pub with_scan: bool,
}
impl Default for Limits {
    fn default() -> Limits {
        Limits { max_objects: 12, time_limit_ms: 10_000, mem_limit_mb: 1024, with_scan: true }
    }
}

static JOB_COUNTER: AtomicU64 = AtomicU64::new(0);

/// Walk `docs` in child processes of `current_exe() <prop> --replay <job>`; one result per document.
pub fn run_batch(prop: &str, docs: &[Doc], limits: Limits) -> Vec<DocResult> {
    let n = docs.len();
    let mut results: Vec<Option<DocResult>> = vec![None; n];
    if n == 0 {
        return vec![];
    }
    let dir = std::env::temp_dir().join(format!("pdfverif-walker-{}-{}", std::process::id(), JOB_COUNTER.fetch_add(1, Ordering::SeqCst)));
    let _ = std::fs::create_dir_all(&dir);
    let job_path = dir.join("job.json");
    let progress_path = dir.join("progress.txt");
    let stderr_path = dir.join("stderr.txt");
    let docs_json: Vec<Value> = docs.iter().map(|d| json!({"hex": crate::driver::hex(&d.bytes), "tolerant": d.tolerant, "cached": d.cached})).collect();
    let exe = std::env::current_exe().expect("current_exe");
    let mut first = 0usize;
    let mut spawns = 0;
    while first < n {
        spawns += 1;
        let job = json!({
            "walker_child": true, "progress": progress_path.to_string_lossy(), "docs": docs_json, "first": first,
            "max_objects": limits.max_objects, "time_limit_ms": limits.time_limit_ms, "mem_limit_mb": limits.mem_limit_mb,
            "with_scan": limits.with_scan,
        });
        std::fs::write(&job_path, serde_json::to_string(&job).unwrap()).expect("write job");
        let _ = std::fs::remove_file(&progress_path);
        let errf = std::fs::File::create(&stderr_path).expect("stderr file");
        let child = std::process::Command::new(&exe)
            .arg(prop).arg("--replay").arg(&job_path).arg("--out").arg("/dev/null")
            .stdin(std::process::Stdio::null()).stdout(std::process::Stdio::null()).stderr(errf)
            .spawn();
        let mut child = match child {
            Ok(c) => c,
            Err(e) => {
                for r in results.iter_mut().skip(first) {
                    *r = Some(DocResult { outcome: Outcome::NotRun(format!("spawn: {}", e)), ms: 0, calls: BTreeMap::new(), peak_bytes: 0, decoded_bytes: 0 });
                }
                break;
            }
        };
        // backstop: the child's own watchdog enforces the per-document limit
        let deadline = Instant::now() + Duration::from_millis(limits.time_limit_ms * 2 + (n - first) as u64 * 2_000 + 20_000);
        let status = loop {
            match child.try_wait() {
                Ok(Some(s)) => break Some(s),
                Ok(None) => {
                    if Instant::now() > deadline {
                        let _ = child.kill();
                        let _ = child.wait();
                        break None;
                    }
                    std::thread::sleep(Duration::from_millis(2));
                }
                Err(_) => break None,
            }
        };
        let progress = std::fs::read_to_string(&progress_path).unwrap_or_default();
        let mut started: Option<usize> = None;
        let mut next = first;
        for line in progress.lines() {
            let mut it = line.splitn(3, ' ');
            let tag = it.next().unwrap_or("");
            let idx: usize = it.next().and_then(|s| s.parse().ok()).unwrap_or(usize::MAX);
            if idx >= n {
                continue;
            }
            match tag {
                "S" => started = Some(idx),
                "D" => {
                    let v: Value = serde_json::from_str(it.next().unwrap_or("{}")).unwrap_or(json!({}));
                    let calls: BTreeMap<String, u64> = v["calls"].as_object().map(|o| o.iter().map(|(k, v)| (k.clone(), v.as_u64().unwrap_or(0))).collect()).unwrap_or_default();
                    let outcome = if v["outcome"] == "returned" { Outcome::Returned } else { Outcome::Panic(v["panic"].as_str().unwrap_or("panic").to_string()) };
                    results[idx] = Some(DocResult { outcome, ms: v["ms"].as_u64().unwrap_or(0), calls, peak_bytes: v["peak_bytes"].as_u64().unwrap_or(0), decoded_bytes: v["decoded_bytes"].as_u64().unwrap_or(0) });
                    started = None;
                    next = idx + 1;
                }
                "T" => {
                    results[idx] = Some(DocResult { outcome: Outcome::Timeout, ms: limits.time_limit_ms, calls: BTreeMap::new(), peak_bytes: 0, decoded_bytes: 0 });
                    started = None;
                    next = idx + 1;
                }
                _ => {}
            }
        }
        if let Some(idx) = started {
            // the process died (or was killed) while document idx was running
            let err = std::fs::read_to_string(&stderr_path).unwrap_or_default();
            // the first lines name the cause (stack overflow, allocation failure, panic in a destructor, ...)
            let lines: Vec<&str> = err.lines().filter(|l| !l.trim().is_empty()).collect();
            let tail: String = if lines.len() <= 6 { lines.join(" | ") } else { format!("{} | ... | {}", lines[..4].join(" | "), lines[lines.len() - 1]) };
            let outcome = match status {
                None => Outcome::Timeout,
                Some(s) => Outcome::Crash { status: format!("{}", s), stderr_tail: tail },
            };
            results[idx] = Some(DocResult { outcome, ms: 0, calls: BTreeMap::new(), peak_bytes: 0, decoded_bytes: 0 });
            next = idx + 1;
        } else if next == first && status.map(|s| !s.success()).unwrap_or(true) {
            // no progress at all: the child could not even start the first document
            let err = std::fs::read_to_string(&stderr_path).unwrap_or_default();
            results[first] = Some(DocResult { outcome: Outcome::NotRun(format!("child made no progress: status {:?} {}", status, err.chars().take(300).collect::<String>())), ms: 0, calls: BTreeMap::new(), peak_bytes: 0, decoded_bytes: 0 });
            next = first + 1;
        } else if next == first {
            break;
        }
        first = next;
        if spawns > n + 2 {
            break;
        }
    }
    let _ = std::fs::remove_dir_all(&dir);
    results.into_iter().map(|r| r.unwrap_or(DocResult { outcome: Outcome::NotRun("no result".into()), ms: 0, calls: BTreeMap::new(), peak_bytes: 0, decoded_bytes: 0 })).collect()
}
