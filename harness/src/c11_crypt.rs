//! C11 on encrypted documents: every value stored twice — as an ordinary indirect object (its strings
//! encrypted with the object's key) and as a member of an object stream (strings in clear, the stream data
//! encrypted as a whole) — and every stream three times (/Length direct / reference to a direct integer /
//! reference to a compressed integer), for every variant of the standard security handler the library opens.
//! The encryption comes from the C06 package's implementation of the standard (`c06_std.rs`); the oracle is
//! the plaintext.

use crate::c06::doc::{dict_fields, pick_variant, rand_password, rand_plain, ser, ser_opt, PV};
use crate::c06::std_sec::*;
use crate::pdfwrite::*;
use crate::rng::Rng;

pub struct CryptTwin {
    pub kind: &'static str,
    pub direct: (u64, u64),
    pub compressed: u64,
    pub plain: PV,
    pub position: &'static str,
    pub separator: &'static str,
    pub filter: StmFilter,
}

pub struct CryptTwinFile {
    pub bytes: Vec<u8>,
    pub user_pw: Vec<u8>,
    pub owner_pw: Vec<u8>,
    pub variant: &'static str,
    pub twins: Vec<CryptTwin>,
    /// ids of the three storage forms of /Length, the plain data, Flate?
    pub streams: Vec<([u64; 3], Vec<u8>, bool)>,
    /// (compressed object number, the member's slice `text ++ sep` as it stands in the decoded object stream)
    pub slices: Vec<(u64, Vec<u8>)>,
    pub desc: String,
}

pub fn kind_of(v: &PV) -> &'static str {
    match v {
        PV::Str(_) => "string",
        PV::Int(_) => "integer",
        PV::Name(_) => "name",
        PV::Bool(_) => "bool",
        PV::Null => "null",
        PV::Ref(..) => "reference",
        PV::Arr(_) => "array",
        PV::Dict(_) => "dict",
    }
}

/// the plaintext in the notation of `c17_common::canon`
pub fn canon_pv(v: &PV) -> String {
    let hex = |b: &[u8]| crate::driver::hex(b);
    match v {
        PV::Null => "null".into(),
        PV::Int(i) => format!("i{}", i),
        PV::Bool(b) => if *b { "true".into() } else { "false".into() },
        PV::Str(s) => format!("s({})", hex(s)),
        PV::Name(n) => format!("/{}", hex(n.as_bytes())),
        PV::Ref(i, g) => format!("{}.{}R", i, g),
        PV::Arr(xs) => format!("[{}]", xs.iter().map(|x| format!("{} ", canon_pv(x))).collect::<String>()),
        PV::Dict(kvs) => format!("<<{}>>", kvs.iter().map(|(k, x)| format!("/{} {} ", hex(k.as_bytes()), canon_pv(x))).collect::<String>()),
    }
}

fn rand_pv(rng: &mut Rng, depth: u32, top: bool) -> PV {
    match rng.below(if depth == 0 { 8 } else { 12 }) {
        0 | 1 | 2 => PV::Str(rand_plain(rng)),
        3 => PV::Int(rng.range(-100000, 100000)),
        4 => PV::Name(["Alpha", "Beta", "Gamma", "A.b-c_d"][rng.usize(4)].to_string()),
        5 => PV::Bool(rng.chance(1, 2)),
        6 => PV::Null,
        // `resolve` follows a stored reference (D32): keep references inside containers
        7 => if top { PV::Str(rand_plain(rng)) } else { PV::Ref(900 + rng.below(20), 0) },
        8 | 9 => PV::Arr((0..rng.usize(4)).map(|_| rand_pv(rng, depth - 1, false)).collect()),
        _ => {
            let n = rng.usize(4);
            PV::Dict((0..n).map(|i| (format!("K{}", i), rand_pv(rng, depth - 1, false))).collect())
        }
    }
}

fn has_string(v: &PV) -> bool {
    match v {
        PV::Str(_) => true,
        PV::Arr(xs) => xs.iter().any(has_string),
        PV::Dict(kvs) => kvs.iter().any(|(_, x)| has_string(x)),
        _ => false,
    }
}

fn gen_sep(rng: &mut Rng) -> &'static [u8] {
    [&b" "[..], b"\n", b"\r\n", b"", b"  \t", b"\r", b""][rng.usize(7)]
}

pub fn build(rng: &mut Rng) -> CryptTwinFile {
    let var = pick_variant(rng);
    let user_pw = rand_password(rng, var.r);
    let owner_pw = rand_password(rng, var.r);
    let id0 = rng.bytes(16);
    let p: i32 = *rng.pick(&[-4, -44, -3904, -1, -1340]);
    let params = Params { r: var.r, n: var.n, cipher: var.cipher, p, id0: id0.clone(), encrypt_metadata: true };
    let mut quiet = Rec::off();
    let mut rnd_src = Rng::derive(rng.next(), "c11.crypt.entries", 0);
    let mut rnd = |k: usize| rnd_src.bytes(k);
    let entries = make_entries(&mut quiet, &params, &user_pw, &owner_pw, &mut rnd);
    let (fields, _) = dict_fields(rng, &var, &entries, p, true);
    let file_key = entries.file_key.clone();
    let cipher = var.cipher;
    let mut ivrng = Rng::derive(rng.next(), "c11.crypt.iv", 0);
    let mut wrng = Rng::derive(rng.next(), "c11.crypt.syntax", 0);
    let mut enc_for = |id: u64, gen: u64, s: &[u8], ivrng: &mut Rng| -> Vec<u8> {
        let mut iv = [0u8; 16];
        iv.copy_from_slice(&ivrng.bytes(16));
        encrypt_object(&mut Rec::off(), cipher, &file_key, id, gen, s, &iv)
    };

    let mut w = PdfWriter::new(b"", if var.v >= 5 { "2.0" } else { "1.6" });
    w.free(0, 0, 65535);
    let mut next_id = 1u64;
    let mut desc = format!("{} n={} ", var.name, var.n);

    // values: direct twin (any generation: the object key depends on it), compressed twin
    let nvals = 2 + rng.usize(5);
    let mut vals: Vec<(PV, (u64, u64), u64)> = vec![];
    for k in 0..nvals {
        // make sure strings are plentiful: they are what encryption touches
        let v = if k == 0 { PV::Str(rand_plain(rng)) } else { rand_pv(rng, 2, true) };
        let d = if rng.chance(1, 6) { 70_000 + next_id } else { next_id };
        let gen = *rng.pick(&[0u64, 0, 0, 1, 2, 255, 65535]);
        let c = next_id + 1;
        next_id += 2;
        vals.push((v, (d, gen), c));
    }
    // streams with the three forms of /Length
    let nstreams = rng.usize(3);
    let mut streams = vec![];
    let mut len_members: Vec<(u64, u64)> = vec![];
    let mut stream_plan = vec![];
    for _ in 0..nstreams {
        let dl = rng.usize(80);
        let plain: Vec<u8> = if rng.chance(1, 2) { rng.bytes(dl) } else { (0..dl).map(|_| b"endstream\nendobj 0 R>>"[rng.usize(22)]).collect() };
        let flate = rng.chance(1, 3);
        let filtered = if flate { zlib(&plain) } else { plain.clone() };
        let ids = [next_id, next_id + 1, next_id + 2];
        let len_direct_id = next_id + 3;
        let len_comp_id = next_id + 4;
        next_id += 5;
        // the three copies are encrypted under their own object keys (AES: same length for the same input)
        let stored: Vec<Vec<u8>> = ids.iter().map(|id| enc_for(*id, 0, &filtered, &mut ivrng)).collect();
        len_members.push((len_comp_id, stored[2].len() as u64));
        stream_plan.push((ids, len_direct_id, len_comp_id, stored, flate));
        streams.push((ids, plain, flate));
    }
    // members of 1..3 object streams: (id, text, sep, value index or none)
    let nstm = 1 + rng.usize(3);
    let mut buckets: Vec<Vec<(u64, Vec<u8>, Vec<u8>, Option<usize>)>> = vec![vec![]; nstm];
    for (k, (v, _, c)) in vals.iter().enumerate() {
        let mut text = vec![];
        ser(v, &mut |s: &[u8]| s.to_vec(), &mut wrng, &mut text);
        let b = rng.usize(nstm);
        buckets[b].push((*c, text, gen_sep(rng).to_vec(), Some(k)));
    }
    for (id, val) in &len_members {
        let b = rng.usize(nstm);
        let at = rng.usize(buckets[b].len() + 1);
        buckets[b].insert(at, (*id, format!("{}", val).into_bytes(), gen_sep(rng).to_vec(), None));
    }
    // direct twins
    for (v, (d, gen), _) in &vals {
        let mut text = vec![];
        let (d, gen) = (*d, *gen);
        ser(v, &mut |s: &[u8]| enc_for(d, gen, s, &mut ivrng), &mut wrng, &mut text);
        w.object(d, gen, &text);
    }
    let mut twins = vec![];
    let mut slices = vec![];
    for b in buckets.iter() {
        if b.is_empty() { continue; }
        let stm = next_id;
        next_id += 1;
        let filter = *rng.pick(&[StmFilter::None, StmFilter::Flate, StmFilter::HexFlate]);
        let mut head = String::new();
        let mut body = vec![];
        for (id, text, sep, _) in b {
            head.push_str(&format!("{} {} ", id, body.len()));
            body.extend_from_slice(text);
            body.extend_from_slice(sep);
        }
        let first = head.len();
        let mut data = head.into_bytes();
        data.extend_from_slice(&body);
        let (fname, filtered) = match filter {
            StmFilter::None => (String::new(), data),
            StmFilter::Flate => ("/Filter /FlateDecode".to_string(), zlib(&data)),
            StmFilter::HexFlate => ("/Filter [/ASCIIHexDecode /FlateDecode]".to_string(), ascii_hex(&zlib(&data))),
        };
        let stored = enc_for(stm, 0, &filtered, &mut ivrng);
        let dict = format!("/Type /ObjStm /N {} /First {} {}", b.len(), first, fname);
        w.object(stm, 0, &stream_body(&dict, &stored));
        for (i, (id, text, sep, vk)) in b.iter().enumerate() {
            w.record(*id, Entry::Compressed { stm, idx: i as u64 });
            let mut sl = text.clone();
            sl.extend_from_slice(sep);
            if let Some(k) = vk {
                let (v, d, c) = &vals[*k];
                let position = if i == 0 { "first" } else if i + 1 == b.len() { "last" } else { "middle" };
                twins.push(CryptTwin { kind: kind_of(v), direct: *d, compressed: *c, plain: v.clone(), position, separator: if sep.is_empty() { "none" } else { "white-space" }, filter });
                slices.push((*c, sl));
            }
        }
        desc.push_str(&format!("objstm{}[{}]{:?} ", stm, b.len(), filter));
    }
    for (ids, len_direct_id, len_comp_id, stored, flate) in &stream_plan {
        let f = if *flate { "/Filter /FlateDecode " } else { "" };
        let eol: &[u8] = if rng.chance(1, 3) { b"\r\n" } else { b"\n" };
        w.object(ids[0], 0, &stream_body_len(&format!("{}/Marker 1", f), &format!("{}", stored[0].len()), &stored[0], eol));
        w.object(ids[1], 0, &stream_body_len(&format!("{}/Marker 1", f), &format!("{} 0 R", len_direct_id), &stored[1], eol));
        w.object(ids[2], 0, &stream_body_len(&format!("{}/Marker 1", f), &format!("{} 0 R", len_comp_id), &stored[2], eol));
        w.object(*len_direct_id, 0, format!("{}", stored[1].len()).as_bytes());
    }
    // the encryption dictionary: an indirect object whose strings are never encrypted
    let enc_id = next_id;
    next_id += 1;
    let mut eb = vec![];
    ser_opt(&fields.to_pv(), &mut |s: &[u8]| s.to_vec(), &mut wrng, &mut eb, true);
    w.object(enc_id, 0, &eb);
    let xref_id = next_id;
    next_id += 1;
    let max_id = vals.iter().map(|v| v.1 .0).max().unwrap_or(0).max(next_id);
    let hexid = crate::driver::hex(&id0);
    let trailer = format!("/ID [<{}> <{}>] /Encrypt {} 0 R", hexid, hexid, enc_id);
    w.finish(XrefFormat::Stream, max_id + 1, &trailer, &[], xref_id);
    desc.push_str(&format!("upw={} opw={}", user_pw.len(), owner_pw.len()));
    let _ = has_string;
    CryptTwinFile { bytes: w.out.clone(), user_pw, owner_pw, variant: var.name, twins, streams, slices, desc }
}
