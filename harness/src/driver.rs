//! Talks to the Lean model driver: all requests of a stream are written to its stdin, one per line; it
//! answers one line per request.

use std::io::Write;
use std::process::{Command, Stdio};

pub struct Driver {
    pub path: String,
}

impl Driver {
    pub fn new(path: &str) -> Driver {
        Driver { path: path.to_string() }
    }
    /// Run a batch; returns one response per request (panics with a clear message if the driver is
    /// missing or answers the wrong number of lines: that is a broken tool chain, not a verdict).
    pub fn ask(&self, requests: &[String]) -> Vec<String> {
        if requests.is_empty() {
            return vec![];
        }
        let mut child = Command::new(&self.path)
            .stdin(Stdio::piped())
            .stdout(Stdio::piped())
            .stderr(Stdio::inherit())
            .spawn()
            .unwrap_or_else(|e| panic!("cannot start model driver {}: {}", self.path, e));
        let mut stdin = child.stdin.take().unwrap();
        let payload: String = requests.iter().map(|r| { debug_assert!(!r.contains('\n')); format!("{}\n", r) }).collect();
        let writer = std::thread::spawn(move || {
            let _ = stdin.write_all(payload.as_bytes());
        });
        let out = child.wait_with_output().expect("driver wait");
        writer.join().ok();
        let text = String::from_utf8_lossy(&out.stdout);
        let lines: Vec<String> = text.lines().map(|s| s.to_string()).collect();
        if lines.len() != requests.len() {
            panic!("model driver answered {} lines for {} requests (status {:?})", lines.len(), requests.len(), out.status);
        }
        lines
    }
}

pub fn hex(bs: &[u8]) -> String {
    if bs.is_empty() {
        return "-".into();
    }
    let mut s = String::with_capacity(bs.len() * 2);
    for b in bs {
        s.push_str(&format!("{:02x}", b));
    }
    s
}

pub fn unhex(s: &str) -> Option<Vec<u8>> {
    if s == "-" {
        return Some(vec![]);
    }
    if s.len() % 2 != 0 {
        return None;
    }
    let b = s.as_bytes();
    let v = |c: u8| -> Option<u8> {
        match c {
            b'0'..=b'9' => Some(c - b'0'),
            b'a'..=b'f' => Some(c - b'a' + 10),
            b'A'..=b'F' => Some(c - b'A' + 10),
            _ => None,
        }
    };
    let mut out = Vec::with_capacity(b.len() / 2);
    for i in (0..b.len()).step_by(2) {
        out.push(v(b[i])? * 16 + v(b[i + 1])?);
    }
    Some(out)
}
