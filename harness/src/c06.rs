//! C06 — encrypted documents yield their plaintext with either password, and only then.
//!
//! Oracles (implementation against the property itself; expected values come from the harness' own
//! implementation of the standard in `c06_std.rs` and the plaintext kept by the generator `c06_doc.rs`):
//!   c06.files      generated documents for R2 / R3 / R4-RC4 / R4-AES128 / R5 / R6, every key length,
//!                  opened through `FileOptions::uncached().password(..).load(..)` with the user, the
//!                  owner and wrong passwords: every string and stream of every object compared with
//!                  the plaintext; wrong password ⇒ `InvalidPassword`; encryption dictionary strings and
//!                  (EncryptMetadata false) the metadata stream unmodified
//!   c06.fixtures   the encrypted files of /repo/files: open with the known passwords, cross-variant
//!                  equality of the plaintext, Flate integrity of every stream
//! Correspondence streams (model = lean/PdfModel/Model/Crypt.lean): see `c06_corr.rs`.

#[path = "c06_std.rs"]
pub mod std_sec;
#[path = "c06_doc.rs"]
pub mod doc;
#[path = "c06_corr.rs"]
pub mod corr;
#[path = "c06_fixtures.rs"]
pub mod fixtures;

use crate::driver::{hex, Driver};
use crate::report::*;
use crate::rng::Rng;
use crate::util::*;
use doc::*;
use pdf::file::FileOptions;
use pdf::object::{NoResolve, Object, PlainRef, Resolve, Stream};
use pdf::primitive::Primitive;
use serde_json::{json, Value};
use std::panic::{catch_unwind, AssertUnwindSafe};

pub fn short(b: &[u8]) -> String {
    let h = hex(b);
    if h.len() > 80 { format!("{}…({} bytes)", &h[..80], b.len()) } else { h }
}

/// compare a value read through the library with the plaintext; `path` for the message
fn cmp_value(p: &Primitive, e: &PV, path: &str, bad: &mut Vec<String>) {
    match (p, e) {
        (Primitive::String(s), PV::Str(x)) => {
            if s.as_bytes() != &x[..] {
                bad.push(format!("{}: string expected {} got {}", path, short(x), short(s.as_bytes())));
            }
        }
        (Primitive::Integer(i), PV::Int(x)) if *i as i64 == *x => {}
        (Primitive::Name(n), PV::Name(x)) if n.as_str() == x => {}
        (Primitive::Boolean(b), PV::Bool(x)) if b == x => {}
        (Primitive::Null, PV::Null) => {}
        (Primitive::Reference(r), PV::Ref(a, b)) if r.id == *a && r.gen == *b => {}
        (Primitive::Array(xs), PV::Arr(es)) => {
            if xs.len() != es.len() {
                bad.push(format!("{}: array length {} expected {}", path, xs.len(), es.len()));
            } else {
                for (i, (x, e)) in xs.iter().zip(es.iter()).enumerate() {
                    cmp_value(x, e, &format!("{}[{}]", path, i), bad);
                }
            }
        }
        (Primitive::Dictionary(d), PV::Dict(es)) => {
            if d.len() != es.len() {
                bad.push(format!("{}: dictionary with {} keys expected {}", path, d.len(), es.len()));
            }
            for (k, e) in es {
                match d.get(k) {
                    Some(x) => cmp_value(x, e, &format!("{}/{}", path, k), bad),
                    None => bad.push(format!("{}: key {} missing", path, k)),
                }
            }
        }
        _ => bad.push(format!("{}: expected {:?} got {:?}", path, e, p)),
    }
}

#[derive(Debug, PartialEq)]
pub enum OpenResult {
    Ok(Vec<String>),
    BadPassword,
    OtherErr(String),
    Panic(String),
}

/// open `doc` with `pw` through the public interface and compare everything readable with the plaintext
pub fn open_and_compare(d: &Doc, pw: &[u8]) -> OpenResult {
    let bytes = d.bytes.clone();
    let r = catch_unwind(AssertUnwindSafe(|| {
        let file = match FileOptions::uncached().password(pw).load(bytes) {
            Ok(f) => f,
            Err(e) => {
                return if err_class(&e) == "BADPW" { OpenResult::BadPassword } else { OpenResult::OtherErr(format!("{}", e)) };
            }
        };
        let resolver = file.resolver();
        let mut bad = vec![];
        for o in &d.objects {
            let tag = format!("obj {} {}{}", o.id, o.gen, if o.compressed { " (in object stream)" } else { "" });
            let p = match resolver.resolve(PlainRef { id: o.id, gen: o.gen }) {
                Ok(p) => p,
                Err(e) => {
                    bad.push(format!("{}: resolve failed: {}", tag, e));
                    continue;
                }
            };
            match &o.body {
                Body::Value(v) => cmp_value(&p, v, &tag, &mut bad),
                Body::Stream(dict, data, flate) => match p {
                    Primitive::Stream(ref s) => {
                        for (k, e) in dict {
                            match s.info.get(k) {
                                Some(x) => cmp_value(x, e, &format!("{}/{}", tag, k), &mut bad),
                                None => bad.push(format!("{}: stream dictionary key {} missing", tag, k)),
                            }
                        }
                        let filtered = if *flate { crate::pdfwrite::zlib(data) } else { data.clone() };
                        match s.raw_data(&resolver) {
                            Ok(raw) => {
                                if &raw[..] != &filtered[..] {
                                    bad.push(format!("{}: raw_data expected {} got {}", tag, short(&filtered), short(&raw)));
                                }
                            }
                            Err(e) => bad.push(format!("{}: raw_data failed: {}", tag, e)),
                        }
                        match Stream::<()>::from_primitive(p.clone(), &resolver).and_then(|st| st.data(&resolver)) {
                            Ok(dec) => {
                                if &dec[..] != &data[..] {
                                    bad.push(format!("{}: Stream::data expected {} got {}", tag, short(data), short(&dec)));
                                }
                            }
                            Err(e) => bad.push(format!("{}: Stream::data failed: {}", tag, e)),
                        }
                    }
                    other => bad.push(format!("{}: expected a stream, got {}", tag, other.get_debug_name())),
                },
            }
        }
        // typed access: the Info dictionary of the trailer
        if let (Some(info), Some(o)) = (file.trailer.info_dict.as_ref(), d.objects.iter().find(|o| Some((o.id, o.gen)) == d.info_ref)) {
            if let Body::Value(PV::Dict(kvs)) = &o.body {
                for (k, v) in kvs {
                    let got = match k.as_str() {
                        "Title" => info.title.as_ref(),
                        "Author" => info.author.as_ref(),
                        "Producer" => info.producer.as_ref(),
                        _ => None,
                    };
                    if let (PV::Str(x), Some(g)) = (v, got) {
                        if g.as_bytes() != &x[..] {
                            bad.push(format!("trailer.info_dict.{}: expected {} got {}", k, short(x), short(g.as_bytes())));
                        }
                    } else {
                        bad.push(format!("trailer.info_dict.{}: missing", k));
                    }
                }
            }
        } else {
            bad.push("trailer.info_dict: missing".into());
        }
        // the first page and its content stream through the page tree
        match file.get_page(0) {
            Ok(page) => match page.contents.as_ref() {
                Some(c) => {
                    if let Err(e) = c.operations(&resolver) {
                        bad.push(format!("page 0: content operations failed: {}", e));
                    }
                }
                None => bad.push("page 0: no contents".into()),
            },
            Err(e) => bad.push(format!("get_page(0) failed: {}", e)),
        }
        OpenResult::Ok(bad)
    }));
    match r {
        Ok(x) => x,
        Err(e) => OpenResult::Panic(if let Some(s) = e.downcast_ref::<&str>() { s.to_string() } else if let Some(s) = e.downcast_ref::<String>() { s.clone() } else { "panic".into() }),
    }
}

/// a password that a conforming reader must reject for `d`
fn wrong_password(rng: &mut Rng, d: &Doc) -> Vec<u8> {
    let sig = |p: &[u8]| -> Vec<u8> {
        if d.variant.r >= 5 {
            let mut v = std_sec::saslprep_known(p).flatten().unwrap_or_else(|| p.to_vec());
            v.truncate(127);
            v
        } else {
            // revisions 2-4 see a password only through its 32 byte padded form: `xyz` and `xyz(` are the
            // same password (0x28 is the first padding byte)
            std_sec::padded(p)
        }
    };
    loop {
        let base = if rng.chance(1, 2) { d.user_pw.clone() } else { d.owner_pw.clone() };
        let cand: Vec<u8> = match rng.below(5) {
            0 => rand_password(rng, d.variant.r),
            1 => {
                let mut b = base.clone();
                b.push(b'x');
                b
            }
            2 if !base.is_empty() => base[..base.len() - 1].to_vec(),
            3 if !base.is_empty() => {
                let mut b = base.clone();
                let i = rng.usize(b.len().min(32));
                b[i] = if b[i] == b'a' { b'b' } else { b'a' };
                b
            }
            _ => b"wrong".to_vec(),
        };
        if d.variant.r >= 5 && std_sec::saslprep_known(&cand).is_none() {
            continue;
        }
        if sig(&cand) != sig(&d.user_pw) && sig(&cand) != sig(&d.owner_pw) {
            return cand;
        }
    }
}

fn files_case(or: &mut Oracle, seed: u64, case: u64, forced: Option<&DocOptions>) {
    let mut rng = Rng::derive(seed, "c06.files", case);
    let opt_owned;
    let opt = match forced {
        Some(o) => o,
        None => {
            opt_owned = rand_options(&mut rng);
            &opt_owned
        }
    };
    let r = opt.variant.r;
    let user_pw = rand_password(&mut rng, r);
    let mut owner_pw = rand_password(&mut rng, r);
    if rng.chance(1, 10) {
        owner_pw = user_pw.clone(); // "no owner password": Algorithm 3 uses the user password
    }
    let d = build(&mut rng, opt, &user_pw, &owner_pw);
    let wrong = wrong_password(&mut rng, &d);
    or.count(&format!("variant={}", d.variant.name));
    if d.variant.cipher == std_sec::Cipher::Rc4 {
        or.count(&format!("rc4-keylen={}", d.variant.n));
    }
    or.count(&format!("encryptMetadata={}", d.params.encrypt_metadata));
    or.count(if d.xref_stream { "xref=stream" } else { "xref=classic" });
    let replay = |which: &str, pw: &[u8]| json!({"oracle": "c06.files", "seed": seed, "case": case, "doc": d.desc, "password_role": which, "password_hex": hex(pw), "file_hex": hex(&d.bytes)});
    let vtag = d.variant.name;
    for (which, pw) in [("user", &d.user_pw), ("owner", &d.owner_pw)] {
        match open_and_compare(&d, pw) {
            OpenResult::Ok(bad) => {
                if !bad.is_empty() {
                    let sig = classify(&bad, vtag);
                    or.fail(&sig, &format!("{}: opened with the {} password, {} values differ from the plaintext: {}", d.desc, which, bad.len(), bad.iter().take(4).cloned().collect::<Vec<_>>().join("; ")), replay(which, pw));
                }
            }
            OpenResult::BadPassword => or.fail(&format!("correct-password-rejected:{}", vtag), &format!("{}: the {} password is rejected with InvalidPassword", d.desc, which), replay(which, pw)),
            OpenResult::OtherErr(e) => or.fail(&format!("load-failed:{}", vtag), &format!("{}: load with the {} password fails: {}", d.desc, which, e), replay(which, pw)),
            OpenResult::Panic(m) => or.fail(&format!("panic:{}", vtag), &format!("{}: panic with the {} password: {}", d.desc, which, m), replay(which, pw)),
        }
    }
    match open_and_compare(&d, &wrong) {
        OpenResult::BadPassword => {}
        OpenResult::Ok(_) => or.fail(&format!("wrong-password-accepted:{}", vtag), &format!("{}: a wrong password ({}) opens the document", d.desc, short(&wrong)), replay("wrong", &wrong)),
        OpenResult::OtherErr(e) => or.fail(&format!("wrong-password-other-error:{}", vtag), &format!("{}: a wrong password gives an error that is not InvalidPassword: {}", d.desc, e), replay("wrong", &wrong)),
        OpenResult::Panic(m) => or.fail(&format!("panic:{}", vtag), &format!("{}: panic with a wrong password: {}", d.desc, m), replay("wrong", &wrong)),
    }
    or.case(&format!("{}#{}", d.desc, case), true, || json!({"doc": d.desc, "objects": d.objects.len(), "bytes": d.bytes.len()}));
}

/// stable classification of a value mismatch
fn classify(bad: &[String], vtag: &str) -> String {
    let b = &bad[0];
    let kind = if b.contains("raw_data") || b.contains("Stream::data") {
        "stream"
    } else if b.contains("resolve failed") {
        "resolve"
    } else if b.contains("string expected") {
        "string"
    } else {
        "value"
    };
    format!("plaintext-mismatch:{}:{}", kind, vtag)
}

fn variant_named(name: &str, n: usize) -> Variant {
    variants().into_iter().find(|v| v.name == name && v.n == n).expect("variant")
}

/// deterministic witnesses, run first on every run: one document per variant family and layout (these are
/// the regression witnesses of D17: AES-256 strings and streams; of the direct `/Encrypt` dictionary)
fn witnesses(or: &mut Oracle) {
    let fams: [(&str, usize); 8] = [("R2-RC4-40", 5), ("R3-RC4", 5), ("R3-RC4", 16), ("R4-RC4", 7), ("R4-RC4", 16), ("R4-AES128", 16), ("R5-AES256", 32), ("R6-AES256", 32)];
    let mut k = 0u64;
    for (name, n) in fams {
        for (xref_stream, indirect) in [(false, true), (true, true), (false, false), (true, false)] {
            let opt = DocOptions { stray_em_false: k % 8 < 4, tweak: None, variant: variant_named(name, n), encrypt_metadata: !(name.starts_with("R4") || name.starts_with("R5")) || k % 2 == 0, indirect_encrypt: indirect, xref_stream, with_metadata: true, with_objstm: true };
            files_case(or, 0xC06, 1_000_000 + k, Some(&opt));
            k += 1;
        }
    }
    // AESV2 without any /Length entry (regression witness of the 40 bit default)
    for xref_stream in [false, true] {
        let opt = DocOptions { stray_em_false: false, tweak: Some(Tweak::NoLength), variant: variant_named("R4-AES128", 16), encrypt_metadata: true, indirect_encrypt: true, xref_stream, with_metadata: true, with_objstm: true };
        files_case(or, 0xC06, 1_000_000 + k, Some(&opt));
        k += 1;
    }
}

/// malformed encryption dictionaries must end in an error, never in a panic (D18)
fn hostile_oracle() -> Oracle {
    let mut or = Oracle::new("c06.hostile");
    let cases: [(&str, usize, Tweak); 6] = [
        ("R3-RC4", 16, Tweak::LengthZero),
        ("R2-RC4-40", 5, Tweak::LengthZero),
        ("R4-RC4", 16, Tweak::LengthFour),
        ("R6-AES256", 32, Tweak::EmptyUE),
        ("R5-AES256", 32, Tweak::EmptyUE),
        ("R6-AES256", 32, Tweak::ShortUEOE),
    ];
    for (k, (name, n, tweak)) in cases.iter().enumerate() {
        let mut rng = Rng::derive(0xC06, "c06.hostile", k as u64);
        let opt = DocOptions { stray_em_false: false, tweak: Some(*tweak), variant: variant_named(name, *n), encrypt_metadata: true, indirect_encrypt: true, xref_stream: k % 2 == 1, with_metadata: true, with_objstm: false };
        let d = build(&mut rng, &opt, b"user", b"owner");
        // V 1 ignores /Length: that document is well-formed and must simply open
        // the same dictionary at the level of the API: `from_password`, then `Debug` and `decrypt` on
        // whatever decoder it returns (D18: `Decoder::key()` sliced past the end of a short key)
        for pw in [&b"user"[..], &b"owner"[..]] {
            let r = corr::real_frompw(&d.fields, &d.params.id0, pw, 1, 0, &[0u8; 32]);
            or.case(&format!("api {}#{}", d.desc, hex(pw)), true, || json!({"doc": d.desc, "from_password": r.chars().take(80).collect::<String>()}));
            if r.contains("panic") {
                or.fail(&format!("panic:{:?}-api", tweak), &format!("{}: from_password / Debug / decrypt panics: {}", d.desc, r.chars().take(80).collect::<String>()),
                    json!({"oracle": "c06.hostile", "case": k, "doc": d.desc, "password_hex": hex(pw), "dict": d.fields.proto()}));
            }
        }
        for pw in [&b"user"[..], &b"owner"[..], &b"nope"[..]] {
            // V 1 ignores /Length: that document is well-formed; a damaged /UE does not concern the owner
            let must_open = pw != b"nope" && (*name == "R2-RC4-40" || (*tweak == Tweak::EmptyUE && pw == b"owner"));
            let r = open_and_compare(&d, pw);
            let replay = json!({"oracle": "c06.hostile", "case": k, "doc": d.desc, "password_hex": hex(pw), "file_hex": hex(&d.bytes)});
            or.case(&format!("{}#{}", d.desc, hex(pw)), true, || json!({"doc": d.desc, "result": format!("{:?}", r).chars().take(120).collect::<String>()}));
            or.count(&format!("tweak={:?}", tweak));
            match r {
                OpenResult::Panic(m) => or.fail(&format!("panic:{:?}", tweak), &format!("{}: panic instead of an error: {}", d.desc, m), replay),
                OpenResult::Ok(bad) => {
                    if !must_open {
                        or.fail(&format!("opened:{:?}", tweak), &format!("{}: opened with {:?} although no usable key can be derived", d.desc, String::from_utf8_lossy(pw)), replay)
                    } else if !bad.is_empty() {
                        or.fail("plaintext-mismatch:hostile", &format!("{}: {}", d.desc, bad[0]), replay)
                    }
                }
                OpenResult::BadPassword | OpenResult::OtherErr(_) => {
                    if must_open {
                        or.fail(&format!("load-failed:{:?}", tweak), &format!("{}: does not open with {:?}", d.desc, String::from_utf8_lossy(pw)), replay)
                    }
                }
            }
        }
    }
    or
}

pub fn files_oracle(seed: u64, from: u64, to: u64) -> Oracle {
    let mut or = Oracle::new("c06.files");
    if from == 0 {
        witnesses(&mut or);
    }
    for case in from..to {
        files_case(&mut or, seed, case, None);
    }
    or
}

pub fn run(driver: &Driver, seed: u64, thorough: bool, replay: Option<&Value>) -> Report {
    let mut rep = Report::new("C06");
    if std::env::var("VERIF_DEBUG").is_ok() {
        std::panic::set_hook(Box::new(|i| eprintln!("{}", i)));
    }
    if let Some(r) = replay {
        let seed = r["seed"].as_u64().unwrap_or(seed);
        let case = r["case"].as_u64().unwrap_or(0);
        let name = r["oracle"].as_str().or(r["stream"].as_str()).unwrap_or("c06.files").to_string();
        match name.as_str() {
            "c06.files" if case >= 1_000_000 => rep.oracles.push(files_oracle(seed, 0, 0)),
            "c06.files" => rep.oracles.push(files_oracle(seed, case, case + 1)),
            "c06.hostile" => rep.oracles.push(hostile_oracle()),
            "c06.fixtures" => rep.oracles.push(fixtures::fixtures_oracle()),
            _ => corr::replay(driver, &mut rep, &name, seed, case),
        }
        return rep;
    }
    let _ = NoResolve;
    corr::run(driver, &mut rep, seed, thorough);
    rep.oracles.push(hostile_oracle());
    rep.oracles.push(fixtures::fixtures_oracle());
    rep.oracles.push(files_oracle(seed, 0, if thorough { 40_000 } else { 3000 }));
    rep
}


