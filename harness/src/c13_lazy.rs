//! C13, second layer: once-initialised fields (`Lazy<_>` = `once_cell::sync::OnceCell`) of typed objects that
//! several threads share. Model: lean/PdfModel/Model/ConcurrentLazy.lean, driver request `c13.lazy`.
//!
//! A thread's work is a list of items: `L<c>` = `page.annotations.load(resolver)` on shared page number c,
//! `K<c>` = read the cell without loading (Debug of the shared object), or an ordinary call. The pages are
//! loaded by the main thread before the threads start and handed to all of them (one `RcRef<PagesNode>` per
//! cell, whatever the cache configuration).
//!
//!   c13.lazy.witness   deterministic: two threads load the same cell (direct array / indirect array object /
//!                      failing initialiser), load + read, two different cells — EVERY interleaving at the yield
//!                      points (hooks of `get`, of `Lazy::load`, of `HCache`), replayed on the model; plus the
//!                      *probe* schedules: thread B is pushed into `load` while thread A is inside the initialiser
//!                      of the same cell. A correct once-cell blocks B (the scheduler sees it not coming back and
//!                      lets A go on); an implementation that lets B in shows up as a second initialiser and, one
//!                      store later, as a panic.
//!   c13.lazy.random    random documents / items / schedules
//! Oracles: every load answers what a lone caller gets, no panic, no deadlock, all successful loads of one
//!   cell hand out the very same allocation (at most one initialisation visible), a read after an own
//!   successful load is `set`; c13.lazy.stress = free-running threads released together on one cell, with a
//!   `Log` that dawdles inside the initialiser so that the loads overlap without any hook.

use super::*;
use pdf::file::Log;
use pdf::object::{MaybeRef, PagesNode, RcRef, Ref, Annot};

#[derive(Clone, Debug, PartialEq)]
pub enum LItem {
    Lazy(usize),
    Peek(usize),
    Call(Call),
}

impl LItem {
    fn text(&self) -> String {
        match self {
            LItem::Lazy(c) => format!("L{}", c),
            LItem::Peek(c) => format!("K{}", c),
            LItem::Call(c) => c.text(),
        }
    }
}

fn items_text(ts: &[Vec<LItem>]) -> String {
    ts.iter().map(|t| if t.is_empty() { "-".to_string() } else { t.iter().map(|i| i.text()).collect::<Vec<_>>().join(";") }).collect::<Vec<_>>().join("/")
}

// ---------------------------------------------------------------------------------------------------
// scheduler with soft blocking: a thread that does not come back from a step within the probe time is taken
// to be blocked inside the library (on the once-cell); the others go on, and it is collected when it parks

struct LInner {
    gen: Vec<u64>,
    go: Vec<bool>,
    finished: Vec<bool>,
    pos: Vec<Pos>,
    abort: bool,
    /// cell → thread that runs its initialiser (from the `LazyInit` / `LazyExit` notifications)
    loading: HashMap<u64, usize>,
}

pub struct LSched {
    m: Mutex<LInner>,
    cv: Condvar,
    /// address ranges of the `Lazy` fields, index = cell number
    cells: Vec<(u64, u64)>,
}

impl Yielder for LSched {
    fn yield_at(&self, me: usize, pos: Pos, _log: bool) {
        if std::thread::panicking() {
            return;
        }
        let mut g = self.m.lock().unwrap();
        g.pos[me] = pos;
        g.gen[me] += 1;
        self.cv.notify_all();
        while !g.go[me] && !g.abort {
            g = self.cv.wait(g).unwrap();
        }
        if g.abort {
            drop(g);
            resume_unwind(Box::new(AbortMarker));
        }
        g.go[me] = false;
    }
    fn note(&self, me: usize, point: Point, cell: u64) {
        let mut g = self.m.lock().unwrap();
        match point {
            Point::LazyInit => { g.loading.insert(cell, me); }
            Point::LazyExit => { if g.loading.get(&cell) == Some(&me) { g.loading.remove(&cell); } }
            _ => {}
        }
    }
    fn cell_of(&self, addr: u64) -> u64 {
        self.cells.iter().position(|(a, b)| *a <= addr && addr < *b).map(|i| i as u64).unwrap_or(u64::MAX)
    }
}

enum StepRes {
    At(Pos),
    Soft,
}

impl LSched {
    fn new(n: usize, cells: Vec<(u64, u64)>) -> Arc<LSched> {
        Arc::new(LSched { m: Mutex::new(LInner { gen: vec![0; n], go: vec![false; n], finished: vec![false; n], pos: vec![Pos::Start; n], abort: false, loading: HashMap::new() }), cv: Condvar::new(), cells })
    }
    fn finish(&self, me: usize, pos: Pos) {
        let mut g = self.m.lock().unwrap();
        g.pos[me] = pos;
        g.finished[me] = true;
        g.gen[me] += 1;
        // a thread that dies inside an initialiser no longer owns the cell
        g.loading.retain(|_, t| *t != me);
        self.cv.notify_all();
    }
    fn wait_all_parked(&self, timeout: Duration) -> bool {
        let mut g = self.m.lock().unwrap();
        let t0 = Instant::now();
        while g.gen.iter().any(|x| *x == 0) {
            let left = match timeout.checked_sub(t0.elapsed()) { Some(l) => l, None => return false };
            g = self.cv.wait_timeout(g, left).unwrap().0;
        }
        true
    }
    fn gen_of(&self, i: usize) -> u64 {
        self.m.lock().unwrap().gen[i]
    }
    fn step(&self, i: usize, soft: Duration) -> StepRes {
        let mut g = self.m.lock().unwrap();
        let g0 = g.gen[i];
        g.go[i] = true;
        self.cv.notify_all();
        let t0 = Instant::now();
        while g.gen[i] == g0 {
            let left = match soft.checked_sub(t0.elapsed()) { Some(l) => l, None => return StepRes::Soft };
            g = self.cv.wait_timeout(g, left).unwrap().0;
        }
        StepRes::At(g.pos[i].clone())
    }
    /// has thread `i` parked (or finished) since generation `g0`? waits up to `timeout`
    fn collect(&self, i: usize, g0: u64, timeout: Duration) -> Option<Pos> {
        let mut g = self.m.lock().unwrap();
        let t0 = Instant::now();
        while g.gen[i] == g0 {
            let left = timeout.checked_sub(t0.elapsed())?;
            g = self.cv.wait_timeout(g, left).unwrap().0;
        }
        Some(g.pos[i].clone())
    }
    /// the first of the threads `(i, generation)` to park (or finish); waits up to `timeout`
    fn collect_any(&self, who: &[(usize, u64)], timeout: Duration) -> Option<(usize, Pos)> {
        let mut g = self.m.lock().unwrap();
        let t0 = Instant::now();
        loop {
            if let Some(&(i, _)) = who.iter().find(|(i, g0)| g.gen[*i] != *g0) {
                return Some((i, g.pos[i].clone()));
            }
            let left = timeout.checked_sub(t0.elapsed())?;
            g = self.cv.wait_timeout(g, left).unwrap().0;
        }
    }
    fn loading_by(&self, c: u64) -> Option<usize> {
        self.m.lock().unwrap().loading.get(&c).copied()
    }
    fn abort_all(&self, timeout: Duration) -> bool {
        let mut g = self.m.lock().unwrap();
        g.abort = true;
        self.cv.notify_all();
        let t0 = Instant::now();
        while !g.finished.iter().all(|f| *f) {
            let left = match timeout.checked_sub(t0.elapsed()) { Some(l) => l, None => return false };
            g = self.cv.wait_timeout(g, left).unwrap().0;
        }
        true
    }
}

// ---------------------------------------------------------------------------------------------------
// the operations on the shared objects

fn page_of(n: &PagesNode) -> Option<&pdf::object::Page> {
    match n {
        PagesNode::Leaf(p) => Some(p),
        _ => None,
    }
}

fn marker_of(a: &Annot) -> i64 {
    a.other.get("Marker").and_then(|m| m.as_integer().ok()).map(|i| i as i64).unwrap_or(-1)
}

/// `page.annotations.load(resolver)`: canonical text, and the address of the allocation handed out
fn lazy_load(page: &RcRef<PagesNode>, resolver: &impl Resolve) -> (String, Option<usize>) {
    let p = match page_of(page) { Some(p) => p, None => return ("err:not-a-page".into(), None) };
    match p.annotations.load(resolver) {
        Ok(v) => {
            let ptr = match &v {
                MaybeRef::Direct(a) => Arc::as_ptr(a) as *const u8 as usize,
                MaybeRef::Indirect(r) => Arc::as_ptr(r.data()) as *const u8 as usize,
            };
            let ids: Vec<String> = v.iter().map(|a| marker_of(a).to_string()).collect();
            (format!("ok:V[{}]", ids.join(".")), Some(ptr))
        }
        Err(e) => (format!("err:{}", crate::util::err_class(&e)), None),
    }
}

fn lazy_peek(page: &RcRef<PagesNode>) -> String {
    match page_of(page) {
        Some(p) => {
            // `Lazy` derives Debug: `Lazy { primitive: …, cache: OnceCell(Uninit) | OnceCell(<value>), … }`; the first
            // `cache:` is the cell itself (the primitive in front of it is an array of references / a reference / null)
            let txt = format!("{:?}", p.annotations);
            match txt.find("cache: OnceCell(") {
                Some(i) => if txt[i + 16..].starts_with("Uninit") { "unset".into() } else { "set".into() },
                None => "err:debug-format".into(),
            }
        }
        None => "err:not-a-page".into(),
    }
}

fn cell_ranges(pages: &[RcRef<PagesNode>]) -> Vec<(u64, u64)> {
    pages.iter().map(|pg| match page_of(pg) {
        Some(p) => {
            let a = &p.annotations as *const _ as usize as u64;
            (a, a + std::mem::size_of_val(&p.annotations) as u64)
        }
        None => (0, 0),
    }).collect()
}

pub struct LSetup<'a> {
    pub bytes: &'a [u8],
    pub tolerant: bool,
    pub cfg: u8,
    pub shared_resolver: bool,
    /// object numbers of the shared pages, index = cell
    pub pages: &'a [u64],
    pub threads: &'a [Vec<LItem>],
    /// let a thread try to enter a cell that is being initialised (costs PROBE per attempt on correct code)
    pub optimistic: bool,
    /// which `Log` callbacks are scheduling points (`CB_MODE` of c13.rs)
    pub cb_mode: u8,
    /// a step that has not come back within SOFT is given this much longer, with everybody else parked, before it is
    /// taken to be blocked (zero: at once)
    pub confirm: Duration,
}

#[derive(Clone, Debug, Default)]
pub struct LExtra {
    /// a thread got into `load` of a cell while another thread was running its initialiser
    pub overlapping_entries: usize,
    pub probes_blocked: usize,
    /// steps that blocked inside the library without a hook telling why (`Lazy::load` without its yield points)
    pub unhooked_blocks: usize,
    /// (cell, address) of every successful load
    pub handed_out: Vec<(usize, usize)>,
}

const PROBE: Duration = Duration::from_millis(40);
/// a step that takes longer than this is taken to be blocked inside the library (a once-cell without the hook)
const SOFT: Duration = Duration::from_millis(150);

fn lworker<OC, SC>(me: usize, cb_mode: u8, sched: &Arc<LSched>, file: &File<Vec<u8>, OC, SC, ParkLog>, shared: Option<&(impl Resolve + Sync)>,
                   pages: &[RcRef<PagesNode>], items: &[LItem], out: &Mutex<Vec<Vec<String>>>, ptrs: &Mutex<Vec<(usize, usize)>>)
where
    OC: Cache<Result<AnySync, Arc<PdfError>>>,
    SC: Cache<Result<Arc<[u8]>, Arc<PdfError>>>,
{
    ME.with(|m| *m.borrow_mut() = Some((me, sched.clone() as Arc<dyn Yielder>)));
    CB_MODE.with(|m| m.set(cb_mode));
    let r = catch_unwind(AssertUnwindSafe(|| {
        sched.yield_at(me, Pos::Start, true);
        let own = file.resolver();
        for it in items {
            let a = match it {
                LItem::Lazy(c) => {
                    let (a, ptr) = match shared { Some(r) => lazy_load(&pages[*c], r), None => lazy_load(&pages[*c], &own) };
                    if let Some(p) = ptr { ptrs.lock().unwrap().push((*c, p)); }
                    a
                }
                LItem::Peek(c) => lazy_peek(&pages[*c]),
                LItem::Call(c) => match shared { Some(r) => do_call(file, r, c, Mode::Canon), None => do_call(file, &own, c, Mode::Canon) },
            };
            out.lock().unwrap()[me].push(a);
            sched.yield_at(me, Pos::Start, true);
        }
    }));
    ME.with(|m| *m.borrow_mut() = None);
    CB_MODE.with(|m| m.set(0));
    match r {
        Ok(()) => sched.finish(me, Pos::Done),
        Err(p) => if p.downcast_ref::<AbortMarker>().is_some() { sched.finish(me, Pos::Aborted) } else { sched.finish(me, Pos::Panicked) },
    }
}

fn lrun_with<OC, SC>(file: File<Vec<u8>, OC, SC, ParkLog>, computed: &dyn Fn(u64) -> bool, su: &LSetup,
                     chooser: &mut dyn FnMut(usize, &[usize], &[Pos]) -> Option<usize>) -> Result<(RunOut, LExtra), String>
where
    OC: Cache<Result<AnySync, Arc<PdfError>>> + Sync,
    SC: Cache<Result<Arc<[u8]>, Arc<PdfError>>> + Sync,
{
    let n = su.threads.len();
    let shared_res = file.resolver();
    // the shared objects, loaded one after the other by this thread
    let mut pages: Vec<RcRef<PagesNode>> = vec![];
    for p in su.pages {
        pages.push(shared_res.get::<PagesNode>(Ref::from_id(*p)).map_err(|e| format!("page {}: {}", p, e))?);
    }
    let sched = LSched::new(n, cell_ranges(&pages));
    let out: Mutex<Vec<Vec<String>>> = Mutex::new(vec![vec![]; n]);
    let ptrs: Mutex<Vec<(usize, usize)>> = Mutex::new(vec![]);
    let mut trace: Vec<(usize, Pos)> = vec![];
    let mut enabled_sets: Vec<Vec<usize>> = vec![];
    let mut outcome = Outcome::Done;
    let mut extra = LExtra::default();
    std::thread::scope(|s| {
        for i in 0..n {
            let (sched, file, out, ptrs, pages) = (&sched, &file, &out, &ptrs, &pages);
            let items = &su.threads[i];
            let shared = if su.shared_resolver { Some(&shared_res) } else { None };
            let cb_mode = su.cb_mode;
            s.spawn(move || lworker(i, cb_mode, sched, file, shared, pages, items, out, ptrs));
        }
        if !sched.wait_all_parked(STEP_TIMEOUT) {
            report_hang_and_die();
        }
        let mut pos = vec![Pos::Start; n];
        // soft-blocked threads: generation at the probe, cell they wait for
        let mut soft: Vec<Option<(u64, u64)>> = vec![None; n];
        let strict = |pos: &[Pos], soft: &[Option<(u64, u64)>], sched: &LSched| -> Vec<usize> {
            (0..n).filter(|&i| soft[i].is_none() && match &pos[i] {
                p if p.is_final() => false,
                Pos::Waiting(k) => computed(*k),
                Pos::LEnter(c) => match sched.loading_by(*c) { Some(j) => j == i, None => true },
                _ => true,
            }).collect()
        };
        loop {
            // threads that were blocked inside the library and have parked meanwhile
            for j in 0..n {
                if let Some((g0, _)) = soft[j] {
                    let mut before = soft.clone();
                    before[j] = None;
                    let en = strict(&pos, &before, &sched);
                    if let Some(p) = sched.collect(j, g0, Duration::from_millis(0)) {
                        pos[j] = p.clone(); trace.push((j, p)); enabled_sets.push(en); soft[j] = None;
                    }
                }
            }
            // threads blocked on a cell which is free again (or which one of them now initialises itself: the first
            // initialiser failed) run by themselves up to their next yield point: wait for the first of them
            let free: Vec<(usize, u64)> = (0..n).filter_map(|j| match soft[j] {
                Some((g0, c)) if c != u64::MAX && sched.loading_by(c).map(|o| o == j).unwrap_or(true) => Some((j, g0)),
                _ => None,
            }).collect();
            if !free.is_empty() {
                match sched.collect_any(&free, STEP_TIMEOUT) {
                    Some((j, p)) => {
                        let mut before = soft.clone();
                        before[j] = None;
                        let en = strict(&pos, &before, &sched);
                        pos[j] = p.clone(); trace.push((j, p)); enabled_sets.push(en); soft[j] = None;
                        continue;
                    }
                    None => { outcome = Outcome::Hang; }
                }
            }
            if outcome == Outcome::Hang { break; }
            let en = strict(&pos, &soft, &sched);
            if en.is_empty() && !su.optimistic || en.is_empty() && soft.iter().any(|s| s.is_some()) {
                // nobody can be stepped; somebody blocked inside the library may be on its way back (whoever of
                // them: the one that becomes the next initialiser parks, the others keep waiting for it)
                let who: Vec<(usize, u64)> = (0..n).filter_map(|j| soft[j].map(|(g0, _)| (j, g0))).collect();
                if !who.is_empty() {
                    match sched.collect_any(&who, STEP_TIMEOUT) {
                        Some((j, p)) => { pos[j] = p.clone(); trace.push((j, p)); enabled_sets.push(vec![j]); soft[j] = None; continue; }
                        None => { outcome = Outcome::Hang; break; }
                    }
                }
            }
            let mut cand = en.clone();
            if su.optimistic {
                for i in 0..n {
                    if soft[i].is_none() && !cand.contains(&i) {
                        if let Pos::LEnter(_) = pos[i] { cand.push(i); }
                    }
                }
                cand.sort();
            }
            if cand.is_empty() {
                outcome = if pos.iter().any(|p| *p == Pos::Panicked) { Outcome::Panic }
                    else if pos.iter().all(|p| p.is_final()) { Outcome::Done } else { Outcome::Deadlock };
                break;
            }
            if trace.len() >= MAX_STEPS { outcome = Outcome::Truncated; break; }
            let i = match chooser(trace.len(), &cand, &pos) { Some(i) => i, None => { outcome = Outcome::Truncated; break; } };
            // (a replayed prefix can ask for a thread that is blocked inside the library this time: timing)
            let i = if cand.contains(&i) { i } else { cand[0] };
            let probing = !en.contains(&i);
            let g0 = sched.gen_of(i);
            match sched.step(i, if probing { PROBE } else { SOFT }) {
                StepRes::At(p) => {
                    if probing { extra.overlapping_entries += 1; }
                    pos[i] = p.clone();
                    trace.push((i, p));
                    enabled_sets.push(en);
                }
                StepRes::Soft => {
                    if probing {
                        extra.probes_blocked += 1;
                        let c = if let Pos::LEnter(c) = pos[i] { c } else { u64::MAX };
                        soft[i] = Some((g0, c));
                    } else if let Some(p) = if su.confirm.is_zero() || extra.unhooked_blocks > 0 { None } else { sched.collect(i, g0, su.confirm) } {
                        // only slow (everybody else was parked meanwhile)
                        pos[i] = p.clone();
                        trace.push((i, p));
                        enabled_sets.push(en);
                    } else {
                        // recorded as a step of its own, so that schedules stay replayable by position
                        extra.unhooked_blocks += 1;
                        soft[i] = Some((g0, u64::MAX));
                        trace.push((i, Pos::Blocked));
                        enabled_sets.push(en);
                    }
                }
            }
        }
        if outcome == Outcome::Hang || !sched.abort_all(STEP_TIMEOUT) {
            report_hang_and_die();
        }
    });
    extra.handed_out = ptrs.into_inner().unwrap();
    Ok((RunOut { trace, enabled: enabled_sets, results: out.into_inner().unwrap(), outcome }, extra))
}

pub fn lrun_schedule(su: &LSetup, chooser: &mut dyn FnMut(usize, &[usize], &[Pos]) -> Option<usize>) -> Result<(RunOut, LExtra), String> {
    beat();
    let po = if su.tolerant { ParseOptions::tolerant() } else { ParseOptions::strict() };
    macro_rules! go {
        ($oc:expr, $sc:expr, $computed:expr) => {{
            let file = FileOptions::uncached().cache($oc, $sc).parse_options(po).log(ParkLog).load(su.bytes.to_vec()).map_err(|e| format!("open: {}", e))?;
            lrun_with(file, $computed, su, chooser)
        }};
    }
    match su.cfg {
        0 => go!(NoCache, NoCache, &|_| false),
        1 => { let sc: StreamCache = SyncCache::new(); go!(NoCache, sc, &|_| false) }
        2 => { let oc: HObjCache = HCache::new(); let o2 = oc.clone(); go!(oc, NoCache, &move |k| o2.is_computed(k)) }
        _ => { let oc: HObjCache = HCache::new(); let o2 = oc.clone(); let sc: StreamCache = SyncCache::new(); go!(oc, sc, &move |k| o2.is_computed(k)) }
    }
}

fn lvisible(p: &Pos) -> bool {
    matches!(p, Pos::Pushed(_) | Pos::Waiting(_) | Pos::Storing(_) | Pos::LEnter(_) | Pos::LStore(_) | Pos::LogGet(_) | Pos::LoadObj(_))
}

/// every interleaving (strict enabledness), depth first. `reduced`: a thread whose next step touches nothing
/// shared (entry of `get`, guard push / pop, between items) is run at once without branching.
pub(crate) fn lexplore(su: &LSetup, reduced: bool, max_runs: usize, mut each: impl FnMut(&RunOut, &LExtra)) -> Result<(usize, bool), String> {
    let mut prefix: Vec<usize> = vec![];
    let mut runs = 0;
    let mut blocked_runs = 0;
    loop {
        let pre = prefix.clone();
        let (out, extra) = lrun_schedule(su, &mut |k, enabled, pos| {
            if k < pre.len() { return Some(pre[k]); }
            if reduced { if let Some(&i) = enabled.iter().find(|&&i| !lvisible(&pos[i])) { return Some(i); } }
            Some(enabled[0])
        })?;
        runs += 1;
        each(&out, &extra);
        if extra.unhooked_blocks > 0 {
            // every such run costs SOFT per block, and its timing is not exactly repeatable: a few of them are enough
            blocked_runs += 1;
            if blocked_runs >= (if su.confirm.is_zero() { 6 } else { 2 }) { return Ok((runs, false)); }
        }
        let choices: Vec<usize> = out.trace.iter().map(|t| t.0).collect();
        let mut k = choices.len();
        let mut next: Option<Vec<usize>> = None;
        while k > 0 {
            k -= 1;
            if reduced {
                let mut pos = vec![Pos::Start; su.threads.len()];
                for (i, p) in &out.trace[..k] { pos[*i] = p.clone(); }
                if out.enabled[k].iter().any(|&i| !lvisible(&pos[i])) { continue; }
            }
            if let Some(&alt) = out.enabled[k].iter().find(|&&e| e > choices[k]) {
                let mut p = choices[..k].to_vec();
                p.push(alt);
                next = Some(p);
                break;
            }
        }
        match next {
            Some(p) => prefix = p,
            None => return Ok((runs, true)),
        }
        if runs >= max_runs { return Ok((runs, false)); }
    }
}

// ---------------------------------------------------------------------------------------------------
// documents with annotations

/// give up to `max_cells` pages of `d` an /Annots entry; returns the shared pages (cell → page object number)
pub fn add_annots(d: &mut GDoc, rng: &mut Rng, max_cells: usize, allow_bad: bool) -> Vec<u64> {
    let pages: Vec<u64> = d.objs.iter().filter(|o| matches!(o.kind, GKind::Page { .. }) && o.place == GPlace::Direct).map(|o| o.id).collect();
    let ints: Vec<u64> = d.objs.iter().filter(|o| matches!(o.kind, GKind::Int(_))).map(|o| o.id).collect();
    let mut next = d.size - 1; // the number kept for the cross-reference stream moves up
    let mut cells = vec![];
    // /P of an annotation only points at pages that are not shared cells themselves: the Debug text of a page
    // whose loaded annotations point back at it is infinite (Debug recursion, outside this property)
    let free_pages: Vec<u64> = pages.iter().skip(max_cells).cloned().collect();
    let back = |rng: &mut Rng| -> u64 { if !free_pages.is_empty() && rng.chance(1, 3) { *rng.pick(&free_pages) } else { 0 } };
    for &p in pages.iter().take(max_cells) {
        let form = match rng.below(7) {
            0 => AForm::Absent,
            1..=3 => {
                let k = 1 + rng.usize(2);
                let mut ids = vec![];
                for _ in 0..k {
                    if allow_bad && !ints.is_empty() && rng.chance(1, 6) {
                        ids.push(*rng.pick(&ints)); // not an annotation: the initialiser fails
                    } else {
                        let page = back(rng);
                        d.objs.push(GObj { id: next, kind: GKind::Annot { page }, place: GPlace::Direct });
                        ids.push(next);
                        next += 1;
                    }
                }
                AForm::Direct(ids)
            }
            _ => {
                let k = 1 + rng.usize(2);
                let mut ids = vec![];
                for _ in 0..k {
                    let page = back(rng);
                    d.objs.push(GObj { id: next, kind: GKind::Annot { page }, place: GPlace::Direct });
                    ids.push(next);
                    next += 1;
                }
                d.objs.push(GObj { id: next, kind: GKind::AnnotArr { ids }, place: GPlace::Direct });
                next += 1;
                AForm::Ref(next - 1)
            }
        };
        d.annots.push((p, form));
        cells.push(p);
    }
    d.size = next + 1;
    d.objs.sort_by_key(|o| o.id);
    cells
}

fn lrequest(d: &GDoc, racy: bool, cfg: u8, ts: &[Vec<LItem>], sched: &str) -> String {
    format!("c13.lazy {} {} {} {} {} {} {}", if racy { 1 } else { 0 }, cfg_text(cfg), if d.tolerant { 1 } else { 0 }, d.desc(), d.cells_desc(), items_text(ts), sched)
}

/// what a lone caller gets: every item of every thread on a fresh, uncached file
fn lsequential(d: &GDoc, bytes: &[u8], pages: &[u64], ts: &[Vec<LItem>]) -> Vec<Vec<String>> {
    ts.iter().map(|items| items.iter().map(|it| match it {
        LItem::Lazy(c) => {
            let po = if d.tolerant { ParseOptions::tolerant() } else { ParseOptions::strict() };
            match FileOptions::uncached().parse_options(po).load(bytes.to_vec()) {
                Ok(f) => { let r = f.resolver(); match r.get::<PagesNode>(Ref::from_id(pages[*c])) { Ok(pg) => lazy_load(&pg, &r).0, Err(_) => "err:page".into() } }
                Err(_) => "err:open".into(),
            }
        }
        LItem::Peek(_) => "?".into(),
        LItem::Call(c) => run_config(0, bytes, d.tolerant, &[c.clone()], Mode::Canon, true, Some(d.root)).calls.get(0).cloned().unwrap_or_default(),
    }).collect()).collect()
}

fn ljudge(or: &mut Oracle, d: &GDoc, cfg: u8, ts: &[Vec<LItem>], seq: &[Vec<String>], out: &RunOut, extra: &LExtra, replay: &Value) {
    let key = format!("{} {} {} {} {}", d.desc(), d.cells_desc(), cfg, items_text(ts), out.sched_text());
    or.case(&key, out.trace.len() > 6, || json!({"doc": d.desc(), "cells": d.cells_desc(), "threads": items_text(ts), "schedule": out.sched_text(), "run": out.text()}));
    or.count(&format!("outcome={}", out.outcome.text()));
    if extra.probes_blocked > 0 { or.count("probe: the second thread was kept out of a cell under initialisation"); }
    let mut r = replay.clone();
    r["cfg"] = json!(cfg_text(cfg));
    r["schedule"] = json!(out.sched_text());
    r["observed"] = json!(out.text());
    r["lone_caller"] = json!(seq.iter().map(|s| s.join(";")).collect::<Vec<_>>().join("/"));
    if extra.overlapping_entries > 0 {
        or.fail("second-initialiser-overlaps", &format!("a thread got into Lazy::load of a cell while another thread was running its initialiser: schedule {} of threads {}: {}", out.sched_text(), items_text(ts), out.text()), r.clone());
    }
    match out.outcome {
        Outcome::Panic => { or.fail("panic", &format!("a thread panicked under schedule {} (threads {}): {}", out.sched_text(), items_text(ts), out.text()), r); return; }
        Outcome::Deadlock => { or.fail("deadlock", &format!("no thread can move under schedule {} (threads {}): {}", out.sched_text(), items_text(ts), out.text()), r); return; }
        Outcome::Truncated | Outcome::Hang => return,
        Outcome::Done => {}
    }
    for (i, items) in ts.iter().enumerate() {
        let mut loaded: Vec<usize> = vec![];
        for (j, it) in items.iter().enumerate() {
            let got = out.results.get(i).and_then(|v| v.get(j)).cloned().unwrap_or_default();
            match it {
                LItem::Peek(c) => {
                    if got != "set" && got != "unset" || (loaded.contains(c) && got != "set") {
                        or.fail("read-of-a-shared-cell", &format!("thread {} item #{} `{}` read {} (after its own successful load: {})", i, j, it.text(), got, loaded.contains(c)), r.clone());
                    }
                }
                _ => {
                    if got != seq[i][j] {
                        or.fail("answer-differs-from-lone-caller", &format!("thread {} item #{} `{}` answers {} under schedule {} but {} for a lone caller", i, j, it.text(), got, out.sched_text(), seq[i][j]), r.clone());
                        return;
                    }
                    if let LItem::Lazy(c) = it { if got.starts_with("ok") { loaded.push(*c); } }
                }
            }
        }
    }
    // at most one initialisation visible: every successful load of a cell hands out the same allocation
    let mut first: HashMap<usize, usize> = HashMap::new();
    for (c, p) in &extra.handed_out {
        let e = first.entry(*c).or_insert(*p);
        if *e != *p {
            or.fail("two-initialisations-visible", &format!("cell {} handed out two different allocations under schedule {} (threads {})", c, out.sched_text(), items_text(ts)), r.clone());
            break;
        }
    }
}

/// the instrumentation of `Lazy::load` is optional: without it the run is still judged by the oracles, but its
/// schedule cannot be mapped onto the model's steps
fn hooks_absent(ts: &[Vec<LItem>], out: &RunOut, extra: &LExtra) -> bool {
    let has_lazy = ts.iter().any(|t| t.iter().any(|i| matches!(i, LItem::Lazy(_))));
    let seen = out.trace.iter().any(|(_, p)| matches!(p, Pos::LEnter(_) | Pos::LStore(_)));
    extra.unhooked_blocks > 0 || (has_lazy && !seen && !out.trace.is_empty())
}

struct LBatch { requests: Vec<String>, impls: Vec<String> }

fn lflush(driver: &Driver, st: &mut RStream, b: &mut LBatch) {
    let reqs = std::mem::take(&mut b.requests);
    let imps = std::mem::take(&mut b.impls);
    let resp = driver.ask(&reqs);
    for ((rq, m), i) in reqs.iter().zip(resp.iter()).zip(imps.iter()) {
        let m2 = if i.matches('|').count() == 2 { m.rsplitn(2, '|').nth(1).unwrap_or(m).to_string() } else { m.clone() };
        st.case(rq, &m2, i, true);
    }
}

#[allow(clippy::too_many_arguments)]
fn lenumerate(name: &str, st: &mut RStream, or: &mut Oracle, b: &mut LBatch, seed: u64, case: u64, d: &GDoc, bytes: &[u8], pages: &[u64],
              cfg: u8, shared: bool, ts: &[Vec<LItem>], reduced: bool, cap: usize, progress: &dyn Fn(&Value)) {
    let seq = lsequential(d, bytes, pages, ts);
    let replay = json!({"stream": name, "seed": seed, "case": case, "doc": d.desc(), "cells": d.cells_desc(), "tolerant": d.tolerant, "threads": items_text(ts), "shared_resolver": shared, "file_hex": crate::driver::hex(bytes)});
    progress(&replay);
    let su = LSetup { bytes, tolerant: d.tolerant, cfg, shared_resolver: shared, pages, threads: ts, optimistic: false, cb_mode: 0, confirm: Duration::ZERO };
    let r = lexplore(&su, reduced, cap, |out, extra| {
        ljudge(or, d, cfg, ts, &seq, out, extra, &replay);
        if hooks_absent(ts, out, extra) { st.count("Lazy::load has no yield points: schedule not replayed on the model"); return; }
        b.requests.push(lrequest(d, false, cfg, ts, &out.sched_text()));
        b.impls.push(out.text());
        st.count(&format!("steps={}", out.trace.len() / 8 * 8));
    });
    match r {
        Ok((_, complete)) => { st.count(&format!("enumeration-complete={}", complete)); if !complete { st.exhaustive = false; } }
        Err(e) => st.count(&format!("unreadable={}", &e[..e.len().min(24)])),
    }
}

/// the probe schedules: thread 0 takes j steps (it is then somewhere in `load`), thread 1 is pushed as far as it goes
#[allow(clippy::too_many_arguments)]
fn lprobe(name: &str, st: &mut RStream, or: &mut Oracle, b: &mut LBatch, d: &GDoc, bytes: &[u8], pages: &[u64], cfg: u8, shared: bool,
          ts: &[Vec<LItem>], case: u64, progress: &dyn Fn(&Value)) {
    let seq = lsequential(d, bytes, pages, ts);
    let replay = json!({"stream": name, "seed": 0, "case": case, "doc": d.desc(), "cells": d.cells_desc(), "tolerant": d.tolerant, "threads": items_text(ts), "shared_resolver": shared, "probe": true, "file_hex": crate::driver::hex(bytes)});
    progress(&replay);
    let su = LSetup { bytes, tolerant: d.tolerant, cfg, shared_resolver: shared, pages, threads: ts, optimistic: true, cb_mode: 0, confirm: Duration::ZERO };
    let mut j = 1usize;
    let mut blocked_runs = 0;
    loop {
        let mut exhausted = false;
        let r = lrun_schedule(&su, &mut |k, cand, _| {
            if k < j { if cand.contains(&0) { Some(0) } else { exhausted = true; Some(cand[0]) } }
            else if cand.contains(&1) { Some(1) } else { Some(cand[0]) }
        });
        match r {
            Ok((out, extra)) => {
                ljudge(or, d, cfg, ts, &seq, &out, &extra, &replay);
                if !hooks_absent(ts, &out, &extra) {
                    b.requests.push(lrequest(d, false, cfg, ts, &out.sched_text()));
                    b.impls.push(out.text());
                }
                st.count(&format!("probe-run: blocked={} entered={}", extra.probes_blocked, extra.overlapping_entries));
                if extra.unhooked_blocks > 0 { blocked_runs += 1; }
                if blocked_runs >= 4 { break; }
            }
            Err(e) => { st.count(&format!("unreadable={}", &e[..e.len().min(24)])); break; }
        }
        j += 1;
        if exhausted || j > 40 { break; }
    }
}

fn lazy_doc(kind: u8) -> (GDoc, Vec<u64>) {
    // 1 catalog, 2 root, 3, 4 and 9 pages; annotations 6, 7 (7 has /P 9), 8 array object, 5 an integer
    let mut d = GDoc { size: 12, root: 1, tolerant: false, xref_stream: false, annots: vec![], objs: vec![
        GObj { id: 1, kind: GKind::Cat { pages: 2 }, place: GPlace::Direct },
        GObj { id: 2, kind: GKind::Pages { parent: 0, kids: vec![3, 4, 9], count: 3 }, place: GPlace::Direct },
        GObj { id: 3, kind: GKind::Page { parent: 2 }, place: GPlace::Direct },
        GObj { id: 4, kind: GKind::Page { parent: 2 }, place: GPlace::Direct },
        GObj { id: 5, kind: GKind::Int(1005), place: GPlace::Direct },
        GObj { id: 6, kind: GKind::Annot { page: 0 }, place: GPlace::Direct },
        GObj { id: 7, kind: GKind::Annot { page: 9 }, place: GPlace::Direct },
        GObj { id: 8, kind: GKind::AnnotArr { ids: vec![6, 7] }, place: GPlace::Direct },
        GObj { id: 9, kind: GKind::Page { parent: 2 }, place: GPlace::Direct },
    ] };
    d.annots = match kind {
        0 => vec![(3, AForm::Direct(vec![6, 7])), (4, AForm::Direct(vec![6]))],
        1 => vec![(3, AForm::Ref(8)), (4, AForm::Absent)],
        _ => vec![(3, AForm::Direct(vec![6, 5])), (4, AForm::Ref(8))], // cell 0: the second element is an integer → the initialiser fails
    };
    (d, vec![3, 4])
}

pub fn stream_lazy_witness(driver: &Driver, thorough: bool, or: &mut Oracle, progress: &dyn Fn(&Value)) -> RStream {
    let mut st = RStream::new("c13.lazy.witness", true);
    st.exhaustive = true;
    let mut b = LBatch { requests: vec![], impls: vec![] };
    let mut case = 0;
    for kind in 0..3u8 {
        let (d, pages) = lazy_doc(kind);
        let bytes = d.bytes();
        for (cfg, shared) in [(0u8, true), (2, false), (3, true)] {
            // the same cell twice
            let same = vec![vec![LItem::Lazy(0)], vec![LItem::Lazy(0)]];
            // all interleavings at every yield point for one configuration per document (all of them in the thorough
            // tier), all interleavings of the steps that touch shared state for the others
            let full = thorough || (kind as usize % 3 == [2usize, 0, 3].iter().position(|c| *c == cfg as usize).unwrap_or(0));
            lenumerate("c13.lazy.witness", &mut st, or, &mut b, 0, case, &d, &bytes, &pages, cfg, shared, &same, !full, 6000, progress);
            lprobe("c13.lazy.witness", &mut st, or, &mut b, &d, &bytes, &pages, cfg, shared, &same, case, progress);
            case += 1;
            if cfg == 3 { continue; }
            // load + read
            let lr = vec![vec![LItem::Lazy(0), LItem::Peek(0)], vec![LItem::Peek(0), LItem::Peek(0)]];
            lenumerate("c13.lazy.witness", &mut st, or, &mut b, 0, case, &d, &bytes, &pages, cfg, shared, &lr, !thorough, 6000, progress);
            case += 1;
            if cfg != 2 { continue; }
            // two different cells (capped: the interleavings of two full loads are many)
            let two = vec![vec![LItem::Lazy(0)], vec![LItem::Lazy(1)]];
            lenumerate("c13.lazy.witness", &mut st, or, &mut b, 0, case, &d, &bytes, &pages, cfg, shared, &two, true, if thorough { 6000 } else { 300 }, progress);
            case += 1;
        }
        if b.requests.len() > 2000 { lflush(driver, &mut st, &mut b); }
    }
    lflush(driver, &mut st, &mut b);
    st
}

fn random_items(rng: &mut Rng, d: &GDoc, ncells: usize) -> Vec<Vec<LItem>> {
    let n = 2 + rng.usize(2);
    (0..n).map(|_| (0..1 + rng.usize(3)).map(|_| match rng.below(8) {
        0..=3 => LItem::Lazy(rng.usize(ncells)),
        4 | 5 => LItem::Peek(rng.usize(ncells)),
        _ => LItem::Call(pick_load(rng, d, false)),
    }).collect()).collect()
}

pub fn stream_lazy_random(driver: &Driver, seed: u64, from: u64, to: u64, or: &mut Oracle, progress: &dyn Fn(&Value)) -> RStream {
    let mut st = RStream::new("c13.lazy.random", true);
    let mut b = LBatch { requests: vec![], impls: vec![] };
    for case in from..to {
        let mut rng = Rng::derive(seed, "c13.lazy.random", case);
        let mut d = small_doc(&mut rng, false);
        let pages = add_annots(&mut d, &mut rng, 3, true);
        if pages.is_empty() { st.count("skipped=no-direct-page"); continue; }
        let bytes = d.bytes();
        let ts = random_items(&mut rng, &d, pages.len());
        let cfg = rng.below(4) as u8;
        let shared = rng.chance(1, 2);
        let seq = lsequential(&d, &bytes, &pages, &ts);
        let replay = json!({"stream": "c13.lazy.random", "seed": seed, "case": case, "doc": d.desc(), "cells": d.cells_desc(), "tolerant": d.tolerant, "threads": items_text(&ts), "file_hex": crate::driver::hex(&bytes)});
        progress(&replay);
        let su = LSetup { bytes: &bytes, tolerant: d.tolerant, cfg, shared_resolver: shared, pages: &pages, threads: &ts, optimistic: false, cb_mode: 0, confirm: Duration::ZERO };
        let mut r2 = rng.clone();
        match lrun_schedule(&su, &mut |_, enabled, _| Some(*r2.pick(enabled))) {
            Ok((out, extra)) => {
                ljudge(or, &d, cfg, &ts, &seq, &out, &extra, &replay);
                if !hooks_absent(&ts, &out, &extra) {
                    b.requests.push(lrequest(&d, false, cfg, &ts, &out.sched_text()));
                    b.impls.push(out.text());
                }
                st.count(&format!("threads={}", ts.len()));
                st.count(&format!("cfg={}", cfg_text(cfg)));
                for (_, f) in &d.annots { st.count(match f { AForm::Direct(_) => "cell=direct-array", AForm::Ref(_) => "cell=indirect-array", AForm::Absent => "cell=absent" }); }
            }
            Err(e) => st.count(&format!("unreadable={}", &e[..e.len().min(24)])),
        }
    }
    lflush(driver, &mut st, &mut b);
    st
}

// ---------------------------------------------------------------------------------------------------
// free-running stress: all threads are released together on the same cells; a `Log` that dawdles inside every
// `get` keeps the initialiser running long enough for the loads to overlap without any hook

pub struct DawdleLog;
impl Log for DawdleLog {
    fn log_get(&self, _r: PlainRef) {
        let t0 = Instant::now();
        while t0.elapsed() < Duration::from_micros(150) { std::hint::spin_loop(); }
    }
}

pub fn oracle_lazy_stress(seed: u64, from: u64, to: u64, reps: u64, progress: &dyn Fn(&Value)) -> Oracle {
    let mut or = Oracle::new("c13.lazy.stress");
    for case in (from..to).flat_map(|c| std::iter::repeat(c).take(reps as usize)) {
        let mut rng = Rng::derive(seed, "c13.lazy.stress", case);
        let (d, pages) = if case % 3 == 0 { lazy_doc((case / 3 % 3) as u8) } else {
            let mut d = small_doc(&mut rng, false);
            let p = add_annots(&mut d, &mut rng, 2, true);
            (d, p)
        };
        if pages.is_empty() { continue; }
        let bytes = d.bytes();
        let n_threads = 2 + rng.usize(4);
        let cached = rng.chance(1, 2);
        let replay = json!({"stream": "c13.lazy.stress", "seed": seed, "case": case, "doc": d.desc(), "cells": d.cells_desc(), "threads": n_threads, "cached": cached, "file_hex": crate::driver::hex(&bytes)});
        progress(&replay);
        let po = if d.tolerant { ParseOptions::tolerant() } else { ParseOptions::strict() };
        let lone: Vec<String> = (0..pages.len()).map(|c| lsequential(&d, &bytes, &pages, &[vec![LItem::Lazy(c)]])[0][0].clone()).collect();
        // one run: open, load the shared pages, release the threads together
        macro_rules! run {
            ($opts:expr) => {{
                match $opts.parse_options(po).log(DawdleLog).load(bytes.clone()) {
                    Ok(file) => {
                        let res = file.resolver();
                        let shared: Vec<RcRef<PagesNode>> = pages.iter().filter_map(|p| res.get::<PagesNode>(Ref::from_id(*p)).ok()).collect();
                        if shared.len() != pages.len() { None } else {
                            let barrier = std::sync::Barrier::new(n_threads);
                            let out: Mutex<Vec<(usize, String, Option<usize>)>> = Mutex::new(vec![]);
                            let panicked = Mutex::new(false);
                            std::thread::scope(|s| {
                                for _t in 0..n_threads {
                                    let (file, shared, barrier, out, panicked) = (&file, &shared, &barrier, &out, &panicked);
                                    s.spawn(move || {
                                        let own = file.resolver();
                                        barrier.wait();
                                        for c in 0..shared.len() {
                                            match catch_unwind(AssertUnwindSafe(|| lazy_load(&shared[c], &own))) {
                                                Ok((a, p)) => out.lock().unwrap().push((c, a, p)),
                                                Err(_) => { *panicked.lock().unwrap() = true; }
                                            }
                                            let _ = lazy_peek(&shared[c]);
                                        }
                                    });
                                }
                            });
                            Some((out.into_inner().unwrap(), panicked.into_inner().unwrap()))
                        }
                    }
                    Err(_) => None,
                }
            }};
        }
        let got = if cached {
            let oc: ObjectCache = SyncCache::new();
            let sc: StreamCache = SyncCache::new();
            run!(FileOptions::uncached().cache(oc, sc))
        } else {
            run!(FileOptions::uncached())
        };
        or.count(&format!("threads={}", n_threads));
        or.count(&format!("cached={}", cached));
        match got {
            None => or.count("unreadable"),
            Some((out, panicked)) => {
                or.case(&format!("{} {} {}", d.desc(), d.cells_desc(), n_threads), true, || json!({"doc": d.desc(), "cells": d.cells_desc(), "threads": n_threads}));
                if panicked {
                    or.fail("panic", &format!("a thread panicked while {} threads loaded the annotations of the same shared pages (cells {})", n_threads, d.cells_desc()), replay.clone());
                    continue;
                }
                let mut first: HashMap<usize, usize> = HashMap::new();
                for (c, a, p) in &out {
                    if *a != lone[*c] {
                        or.fail("answer-differs-from-lone-caller", &format!("cell {} answers {} concurrently but {} for a lone caller", c, a, lone[*c]), replay.clone());
                        break;
                    }
                    if let Some(p) = p {
                        let e = first.entry(*c).or_insert(*p);
                        if *e != *p {
                            or.fail("two-initialisations-visible", &format!("cell {} handed out two different allocations to {} concurrent loads", c, n_threads), replay.clone());
                            break;
                        }
                    }
                }
            }
        }
    }
    or
}

/// the set-once registries `enc::JPX_DECODER` / `JBIG2_DECODER`: concurrent `set_*_decoder` calls, one wins, nobody
/// panics, afterwards every decode uses the winner (process-global: once per run)
pub fn oracle_registries() -> Oracle {
    let mut or = Oracle::new("c13.registries");
    let n = 6usize;
    let barrier = std::sync::Barrier::new(n);
    let seen: Mutex<Vec<Result<Vec<u8>, String>>> = Mutex::new(vec![]);
    let panicked = Mutex::new(false);
    std::thread::scope(|s| {
        for t in 0..n {
            let (barrier, seen, panicked) = (&barrier, &seen, &panicked);
            s.spawn(move || {
                barrier.wait();
                let r = catch_unwind(|| {
                    pdf::enc::set_jpx_decoder(Box::new(move |_| Ok(vec![t as u8])));
                    pdf::enc::set_jbig2_decoder(Box::new(move |_| Ok(vec![100 + t as u8])));
                    (pdf::enc::jpx_decode(&[]), pdf::enc::jbig2_decode(&[], &[]))
                });
                match r {
                    Ok((a, b)) => { let mut g = seen.lock().unwrap(); g.push(a.map_err(|e| e.to_string())); g.push(b.map(|v| vec![v[0] - 100]).map_err(|e| e.to_string())); }
                    Err(_) => *panicked.lock().unwrap() = true,
                }
            });
        }
    });
    or.case("registries", true, || json!({"threads": n}));
    let seen = seen.into_inner().unwrap();
    let jpx: Vec<&Result<Vec<u8>, String>> = seen.iter().step_by(2).collect();
    let jb: Vec<&Result<Vec<u8>, String>> = seen.iter().skip(1).step_by(2).collect();
    if *panicked.lock().unwrap() {
        or.fail("panic", "a thread panicked in set_jpx_decoder / set_jbig2_decoder / *_decode", json!({"stream": "c13.registries"}));
    } else if jpx.iter().any(|r| r.is_err() || **r != *jpx[0]) || jb.iter().any(|r| r.is_err() || **r != *jb[0]) {
        or.fail("registry-not-set-once", &format!("after concurrent set_*_decoder the decoders answer differently: {:?}", seen), json!({"stream": "c13.registries"}));
    }
    or
}
