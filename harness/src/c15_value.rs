//! C15 from the VALUE side: `read(write x)` succeeds and gives `x` back, for values that did not come out of
//! the reader as they are (the catch-all emptied, or stripped of the type tag / checked entries — what a program
//! that builds the value in memory has), and for typed streams built in memory with a chain of filters.
//!
//!   c15.value-side (oracle)     every derived struct model with reader + writer: a value is obtained by reading a
//!                               generated dictionary (minimal: required entries only; or random) and then its
//!                               catch-all is emptied / stripped of `/Type` and the checked entries (generated
//!                               code per model, `ValueSide`, from the translator's field lists). Written, read
//!                               back: the read must succeed, every public field must have the same `Debug` text,
//!                               the catch-all may only have gained the type tag and the checked entries.
//!   c15.vw (correspondence)     the same steps by the Lean interpreter (`readShape`, replace the catch-all,
//!                               `writeShape`, `readShape`, compare): the written dictionary, whether the fields
//!                               are the same, and the keys the catch-all gained.
//!   c15.stream-values (oracle)  for `Stream<X>`, X = `()` and every model the sources use as the dictionary of a
//!                               typed stream (list from the translator): filter chains of length 0–3 over
//!                               ASCIIHex / ASCII85 / Flate / LZW / RunLength (+ a DCT / CCITTFax tail), every subset
//!                               of the parameterised members carrying non-default parameters; the data is encoded
//!                               by this file's own encoders; after write + read the filters (kind and parameters),
//!                               the DECODED data and the dictionary's fields must be those of the original value.

use super::support::typed::{visit_stream_info, visit_value_side, StreamInfoVisitor, ValueSide, ValueVisitor, STREAM_INFOS, TYPED_MODELS};
use super::support::*;
use super::b;
use crate::driver::Driver;
use crate::report::{trunc, Oracle, Stream as CStream};
use crate::rng::Rng;
use pdf::enc::{CCITTFaxDecodeParams, DCTDecodeParams, LZWFlateParams, StreamFilter};
use pdf::object::*;
use pdf::primitive::{Dictionary, Primitive};
use serde_json::json;
use std::collections::HashMap;

/// length of the `Indirect(RcRef { inner: PlainRef { id: N, gen: G }, data: ` prefix at the start of `s`, if N is an
/// object the recording updater created
fn created_prefix(s: &str) -> Option<usize> {
    const HEAD: &str = "Indirect(RcRef { inner: PlainRef { id: ";
    let after = s.strip_prefix(HEAD)?;
    let digits: String = after.chars().take_while(|c| c.is_ascii_digit()).collect();
    if digits.parse::<u64>().ok()? < CREATED_BASE {
        return None;
    }
    let tail = &after[digits.len()..];
    let gen = tail.strip_prefix(", gen: ")?;
    let gd: String = gen.chars().take_while(|c| c.is_ascii_digit()).collect();
    let rest = gen[gd.len()..].strip_prefix(" }, data: ")?;
    Some(s.len() - rest.len())
}

/// `a` and `b` are the same text except that where `a` says `Direct(X)`, `b` may say
/// `Indirect(RcRef { inner: PlainRef { id: N, gen: G }, data: X })` with an object the writer created: an `indirect`
/// field is moved into an object of its own. No parsing of `X` (the Debug text of a `PdfString` is ambiguous about
/// backslashes): the two texts are walked in step.
fn aligned(a: &str, b: &str) -> bool {
    let (a, b) = (a.as_bytes(), b.as_bytes());
    let (mut i, mut j, mut open) = (0usize, 0usize, 0usize);
    while i < a.len() && j < b.len() {
        if a[i] == b[j] {
            i += 1;
            j += 1;
            continue;
        }
        if a[i..].starts_with(b"Direct(") {
            if let Some(n) = std::str::from_utf8(&b[j..]).ok().and_then(created_prefix) {
                i += "Direct(".len();
                j += n;
                open += 1;
                continue;
            }
        }
        if open > 0 && a[i] == b')' && b[j..].starts_with(b" })") {
            i += 1;
            j += 3;
            open -= 1;
            continue;
        }
        return false;
    }
    i == a.len() && j == b.len()
}

/// the characters of a Debug text, with every created-object wrapper reduced to `Direct(…)`
fn canonical_chars(s: &str) -> Vec<u8> {
    let mut out: Vec<u8> = vec![];
    let mut rest = s;
    let mut wrappers = 0usize;
    while let Some(i) = rest.find("Indirect(RcRef { inner: PlainRef { id: ") {
        out.extend_from_slice(rest[..i].as_bytes());
        match created_prefix(&rest[i..]) {
            Some(n) => {
                out.extend_from_slice(b"Direct(");
                wrappers += 1;
                rest = &rest[i + n..];
            }
            None => {
                out.extend_from_slice(b"I");
                rest = &rest[i + 1..];
            }
        }
    }
    out.extend_from_slice(rest.as_bytes());
    out.sort_unstable();
    // each wrapper leaves its closing ` }` behind
    for c in [b' ', b'}'] {
        for _ in 0..wrappers {
            if let Some(p) = out.iter().position(|x| *x == c) {
                out.remove(p);
            }
        }
    }
    out
}

/// equal; or equal up to `Direct` / `Indirect(created object)`; or, for texts that print a map, the same multiset of
/// characters (a `HashMap` prints its entries in an order that differs between two equal maps) — weaker than
/// equality, never a false alarm
fn debug_same(a: &str, b: &str) -> bool {
    if a == b || aligned(a, b) || aligned(b, a) {
        return true;
    }
    if !(a.contains('{') && a.contains(": ")) {
        return false;
    }
    canonical_chars(a) == canonical_chars(b)
}

pub struct VsOutcome {
    /// `ok <p1> <same|differs> <gained keys>` | `rerr <chain>` | `werr` | `rerr2 <chain>` | `panic`
    pub answer: String,
    /// (signature tail, description) of what contradicts the law
    pub failures: Vec<(String, String)>,
    pub notes: Vec<String>,
}

fn tag_keys(sc: &SchemaJ) -> Vec<String> {
    let mut t: Vec<String> = sc.checks.iter().map(|(k, _)| k.clone()).collect();
    if sc.type_name.is_some() {
        t.push("Type".into());
    }
    t
}

/// mode 'c': empty the catch-all; 't': strip the type tag and the checked entries from it; 'k': keep
pub fn real_value_side<T: Object + ObjectWrite + ValueSide>(p: &Primitive, objs: &HashMap<u64, Primitive>, tolerant: bool, mode: char, tags: &[String]) -> VsOutcome {
    let r = std::panic::catch_unwind(std::panic::AssertUnwindSafe(|| {
        let mut out = VsOutcome { answer: String::new(), failures: vec![], notes: vec![] };
        let missing = HashMap::new();
        let r1 = MemResolver::new(objs.clone(), missing.clone(), tolerant);
        let mut x = match T::from_primitive(p.clone(), &r1) {
            Ok(x) => x,
            Err(e) => {
                out.answer = format!("rerr {}", err_chain(&e));
                return out;
            }
        };
        if T::catch_all() == Some(false) {
            out.notes.push("catch-all-not-settable".into());
        }
        let other0 = x.other_dict();
        let new_other = match (&other0, mode) {
            (Some(_), 'c') => Some(Dictionary::new()),
            (Some(d), 't') => {
                let mut n = Dictionary::new();
                for (k, v) in d.iter() {
                    if !tags.iter().any(|t| t == k.as_str()) {
                        n.insert(k.clone(), v.clone());
                    }
                }
                Some(n)
            }
            _ => None,
        };
        if let Some(n) = new_other {
            x.set_other(n);
        }
        let other_x = x.other_dict();
        let fields_x = x.fields_debug();
        let whole_x = x.whole_debug();
        let mut up = RecUpdater::new(CREATED_BASE);
        let p1 = match x.to_primitive(&mut up) {
            Ok(p) => p,
            Err(e) => {
                out.answer = "werr".into();
                out.failures.push(("write-fails".into(), format!("to_primitive of the value fails: {}", e)));
                return out;
            }
        };
        let created = up.objs.clone();
        let look = move |id: u64| created.iter().rev().find(|(i, _)| *i == id).map(|(_, q)| q.clone());
        let p1_txt = show_prim(&p1, &look);
        let mut objs2 = objs.clone();
        for (i, q) in &up.objs {
            objs2.insert(*i, q.clone());
        }
        let r2 = MemResolver::new(objs2, missing, tolerant);
        let x2 = match T::from_primitive(p1.clone(), &r2) {
            Ok(x) => x,
            Err(e) => {
                out.answer = format!("rerr2 {}", err_chain(&e));
                out.failures.push(("read-back-fails".into(), format!("what the writer produced for the value cannot be read back: {} — written form {}", e, trunc(&p1_txt))));
                return out;
            }
        };
        let mut same = true;
        for ((f, key, a), (_, _, bb)) in fields_x.iter().zip(x2.fields_debug().iter()) {
            if !debug_same(a, bb) {
                same = false;
                out.failures.push((format!("field-changed:{}", f), format!("field `{}` (/{}) of the value is {} but {} after write + read", f, key, trunc(a), trunc(bb))));
            }
        }
        if !T::hidden_fields().is_empty() && other_x.is_none() {
            // fields that cannot be taken apart from outside: the whole value's Debug text, if there is one
            if let (Some(a), Some(bb)) = (&whole_x, x2.whole_debug()) {
                if !debug_same(a, &bb) {
                    same = false;
                    out.failures.push(("value-changed".into(), format!("the value is {} but {} after write + read", trunc(a), trunc(&bb))));
                }
            }
        }
        let mut gained: Vec<String> = vec![];
        if let (Some(o1), Some(o2)) = (&other_x, x2.other_dict()) {
            for (k, v) in o2.iter() {
                match o1.get(k.as_str()) {
                    Some(v1) if v1 == v => {}
                    Some(_) => out.failures.push((format!("other-changed:{}", k.as_str()), format!("entry /{} of the catch-all changed", k.as_str()))),
                    None => {
                        gained.push(k.as_str().to_string());
                        if !tags.iter().any(|t| t == k.as_str()) {
                            out.failures.push((format!("other-gained:{}", k.as_str()), format!("the catch-all gained /{} (neither the type tag nor a checked entry)", k.as_str())));
                        }
                    }
                }
            }
            for (k, _) in o1.iter() {
                if o2.get(k.as_str()).is_none() {
                    out.failures.push((format!("other-lost:{}", k.as_str()), format!("entry /{} of the catch-all is lost", k.as_str())));
                }
            }
        }
        gained.sort();
        let gained_txt = if gained.is_empty() { "-".to_string() } else { gained.iter().map(|k| hex(k.as_bytes())).collect::<Vec<_>>().join("+") };
        out.answer = format!("ok {} {} {}", p1_txt, if same { "same" } else { "differs" }, gained_txt);
        out
    }));
    r.unwrap_or_else(|_| VsOutcome { answer: "panic".into(), failures: vec![("panic".into(), "panic in from_primitive / to_primitive".into())], notes: vec![] })
}

struct VsVisitor<'a> {
    prim: &'a Primitive,
    objs: &'a HashMap<u64, Primitive>,
    tolerant: bool,
    mode: char,
    tags: &'a [String],
    out: Option<VsOutcome>,
    has_other: Option<bool>,
}

impl<'a> ValueVisitor for VsVisitor<'a> {
    fn value_side<T: Object + ObjectWrite + ValueSide + 'static>(&mut self, _name: &str) {
        self.out = Some(real_value_side::<T>(self.prim, self.objs, self.tolerant, self.mode, self.tags));
        self.has_other = Some(true);
    }
}

struct VsCase {
    name: String,
    req: String,
    out: VsOutcome,
    mode: char,
    minimal: bool,
    input: String,
    objs: String,
}

fn vs_cases(schemas: &[SchemaJ], seed: u64, per_model: u64, model_only: bool, only: Option<(u64, &str)>) -> Vec<VsCase> {
    let mut cases = vec![];
    let peel = super::tree_peels();
    for (name, _ty, rd, wr) in TYPED_MODELS {
        if !(*rd && *wr) {
            continue;
        }
        let base = name.split('<').next().unwrap();
        let Some(sc) = schemas.iter().find(|s| s.name == base) else { continue };
        if sc.kind != "struct" {
            continue;
        }
        let arg: Option<Sh> = if sc.params.is_empty() { None } else { Some(Sh::Ref(b(Sh::LeafApp("Stream".into(), b(Sh::Model("EmbeddedFile".into())))))) };
        let tags = tag_keys(sc);
        let shape_txt = match &arg {
            None => format!("m.{}", base),
            Some(a) => format!("ma.{}({})", base, show_shape(a)),
        };
        for case in 0..per_model {
            if let Some((c, n)) = only {
                if c != case || n != *name {
                    continue;
                }
            }
            let mut rng = Rng::derive(seed, &format!("c15.value-side/{}/{}", name, model_only), case);
            let mut g = Gen::new(schemas, model_only);
            g.always_tags = true;
            let minimal = case % 3 == 0;
            let Some(p) = g.model_value(&mut rng, sc, arg.as_ref(), if minimal { 0 } else { 2 }) else { break };
            let mode = match case % 4 {
                0 | 1 => 'c',
                2 => 't',
                _ => 'k',
            };
            let tolerant = case % 5 == 4;
            let mut v = VsVisitor { prim: &p, objs: &g.objs, tolerant, mode, tags: &tags, out: None, has_other: None };
            visit_value_side(name, &mut v);
            let Some(out) = v.out else { continue };
            // a catch-all that cannot be replaced from outside the crate stays as read: tell the model so
            let eff_mode = if out.notes.iter().any(|n| n == "catch-all-not-settable") || !sc.fields.iter().any(|f| f.other) { 'k' } else { mode };
            let req = format!("c15.vw {} {} {} {} {} - {}", peel as u8, tolerant as u8, eff_mode, shape_txt, objs_text(&g.objs), show_plain(&p));
            cases.push(VsCase { name: name.to_string(), req, out, mode, minimal, input: show_plain(&p), objs: objs_text(&g.objs) });
        }
    }
    cases
}

pub fn oracle_value_side(schemas: &[SchemaJ], seed: u64, per_model: u64, only: Option<(u64, &str)>) -> Oracle {
    let mut or = Oracle::new("c15.value-side");
    for (idx, c) in vs_cases(schemas, seed, per_model, false, only).iter().enumerate() {
        let case = idx as u64;
        let _ = case;
        or.count(&format!("model={}", c.name));
        or.count(&format!("catch-all={}", match c.mode { 'c' => "emptied", 't' => "tags-stripped", _ => "as-read" }));
        or.count(if c.minimal { "dictionary=minimal" } else { "dictionary=random" });
        or.count(&format!("outcome={}", c.out.answer.split(' ').next().unwrap_or("")));
        for n in &c.out.notes {
            or.count(&format!("note={}:{}", n, c.name));
        }
        or.case(&format!("{} {} {}", c.name, c.mode, c.input), true, || json!({"model": c.name, "mode": c.mode.to_string(), "input": c.input, "answer": trunc(&c.out.answer)}));
        if c.out.answer.starts_with("rerr ") {
            or.fail(&format!("generator:{}:input-refused", c.name), &format!("{}: the reader refuses a dictionary generated as well-typed: {}", c.name, c.out.answer), json!({"oracle": "c15.value-side", "seed": seed, "model": c.name, "input": c.input, "objects": c.objs}));
        }
        for (sig, what) in &c.out.failures {
            or.fail(
                &format!("value-side:{}:{}", c.name, sig),
                &format!("{} built from {} with the catch-all {}: {}", c.name, trunc(&c.input), match c.mode { 'c' => "emptied", 't' => "stripped of the type tag / checked entries", _ => "as read" }, what),
                json!({"oracle": "c15.value-side", "seed": seed, "model": c.name, "mode": c.mode.to_string(), "input": c.input, "objects": c.objs, "answer": trunc(&c.out.answer)}),
            );
        }
    }
    or
}

pub fn vw_stream(driver: &Driver, schemas: &[SchemaJ], seed: u64, per_model: u64) -> CStream {
    let mut st = CStream::new("c15.vw", true);
    let cases = vs_cases(schemas, seed, per_model, true, None);
    let reqs: Vec<String> = cases.iter().map(|c| c.req.clone()).collect();
    let resp = driver.ask(&reqs);
    for (c, m) in cases.iter().zip(resp.iter()) {
        st.count(&format!("model={}", c.name));
        st.count(&format!("catch-all={}", match c.mode { 'c' => "emptied", 't' => "tags-stripped", _ => "as-read" }));
        st.count(&format!("outcome={}", c.out.answer.split(' ').next().unwrap_or("")));
        let parts: Vec<&str> = c.out.answer.split(' ').collect();
        if parts.len() == 4 {
            st.count(&format!("fields={}", parts[2]));
            st.count(&format!("catch-all-gained={}", if parts[3] == "-" { "nothing" } else { "tags" }));
        }
        st.case(&c.req, m, &c.out.answer, c.out.answer.starts_with("ok"));
    }
    st
}

// ---------------------------------------------------------------------------------------------------
// typed streams built in memory

#[derive(Clone, Copy, Debug, PartialEq)]
enum Kind {
    Hex,
    A85,
    Flate,
    Lzw,
    Rl,
    Dct,
    Fax,
}

impl Kind {
    fn parameterised(self) -> bool {
        matches!(self, Kind::Flate | Kind::Lzw | Kind::Dct | Kind::Fax)
    }
    fn decodable(self) -> bool {
        !matches!(self, Kind::Dct | Kind::Fax)
    }
    fn name(self) -> &'static str {
        match self {
            Kind::Hex => "AHx",
            Kind::A85 => "A85",
            Kind::Flate => "Fl",
            Kind::Lzw => "LZW",
            Kind::Rl => "RL",
            Kind::Dct => "DCT",
            Kind::Fax => "CCF",
        }
    }
}

fn filter_of(k: Kind, with_params: bool, columns: usize) -> StreamFilter {
    match k {
        Kind::Hex => StreamFilter::ASCIIHexDecode,
        Kind::A85 => StreamFilter::ASCII85Decode,
        Kind::Rl => StreamFilter::RunLengthDecode,
        Kind::Flate => StreamFilter::FlateDecode(if with_params { LZWFlateParams { predictor: 12, columns: columns as i32, ..LZWFlateParams::default() } } else { LZWFlateParams::default() }),
        Kind::Lzw => StreamFilter::LZWDecode(if with_params { LZWFlateParams { predictor: 12, columns: columns as i32, early_change: 0, ..LZWFlateParams::default() } } else { LZWFlateParams::default() }),
        Kind::Dct => StreamFilter::DCTDecode(DCTDecodeParams { color_transform: if with_params { Some(0) } else { None } }),
        Kind::Fax => {
            let d = CCITTFaxDecodeParams { k: 0, end_of_line: false, encoded_byte_align: false, columns: 1728, rows: 0, end_of_block: true, black_is_1: false, damaged_rows_before_error: 0 };
            StreamFilter::CCITTFaxDecode(if with_params { CCITTFaxDecodeParams { k: -1, columns: 16, black_is_1: true, ..d } } else { d })
        }
    }
}

/// the row length for `n` bytes: a divisor of n (so that there are only whole rows), not 1 if possible
fn columns_for(n: usize) -> usize {
    for c in [4usize, 3, 2, 5, 7] {
        if n % c == 0 && n > 0 {
            return c;
        }
    }
    n.max(1)
}

/// PNG predictor rows with the `None` tag
fn png_rows(data: &[u8], columns: usize) -> Vec<u8> {
    let mut out = vec![];
    for row in data.chunks(columns) {
        out.push(0);
        out.extend_from_slice(row);
    }
    out
}

/// LZW with 9-bit codes only (a clear code often enough that the table never reaches 510 entries): valid with
/// and without early change
fn lzw_encode(data: &[u8]) -> Vec<u8> {
    let mut codes: Vec<u16> = vec![256];
    for (i, b) in data.iter().enumerate() {
        if i > 0 && i % 200 == 0 {
            codes.push(256);
        }
        codes.push(*b as u16);
    }
    codes.push(257);
    let mut out = vec![];
    let (mut acc, mut n) = (0u32, 0u32);
    for c in codes {
        acc = (acc << 9) | c as u32;
        n += 9;
        while n >= 8 {
            out.push((acc >> (n - 8)) as u8);
            n -= 8;
        }
    }
    if n > 0 {
        out.push((acc << (8 - n)) as u8);
    }
    out
}

fn rl_encode(data: &[u8]) -> Vec<u8> {
    let mut out = vec![];
    for ch in data.chunks(100) {
        out.push((ch.len() - 1) as u8);
        out.extend_from_slice(ch);
    }
    out.push(128);
    out
}

fn hex_encode(data: &[u8]) -> Vec<u8> {
    let mut out: Vec<u8> = data.iter().flat_map(|b| format!("{:02X}", b).into_bytes()).collect();
    out.push(b'>');
    out
}

/// what the file holds for `data` under `filter` (None: not decodable here — the data is taken as it is)
fn encode_member(k: Kind, with_params: bool, data: &[u8]) -> Option<Vec<u8>> {
    let columns = columns_for(data.len());
    Some(match k {
        Kind::Hex => hex_encode(data),
        Kind::A85 => pdf::enc::encode(data, &StreamFilter::ASCII85Decode).ok()?,
        Kind::Rl => rl_encode(data),
        Kind::Flate => {
            let pre = if with_params { png_rows(data, columns) } else { data.to_vec() };
            pdf::enc::encode(&pre, &StreamFilter::FlateDecode(LZWFlateParams::default())).ok()?
        }
        Kind::Lzw => lzw_encode(&if with_params { png_rows(data, columns) } else { data.to_vec() }),
        Kind::Dct | Kind::Fax => return None,
    })
}

fn chains(tail: bool) -> Vec<Vec<Kind>> {
    let alpha = [Kind::Hex, Kind::A85, Kind::Flate, Kind::Lzw, Kind::Rl];
    let mut out: Vec<Vec<Kind>> = vec![vec![]];
    let mut level: Vec<Vec<Kind>> = vec![vec![]];
    for _ in 0..3 {
        let mut next = vec![];
        for c in &level {
            for k in alpha {
                let mut d = c.clone();
                d.push(k);
                next.push(d);
            }
        }
        out.extend(next.iter().cloned());
        level = next;
    }
    if tail {
        // an image codec can only be the innermost filter
        let mut with_tail = vec![];
        for c in out.iter().filter(|c| c.len() <= 2) {
            for t in [Kind::Dct, Kind::Fax] {
                let mut d = c.clone();
                d.push(t);
                with_tail.push(d);
            }
        }
        out.extend(with_tail);
    }
    out
}

struct ChainCase {
    desc: String,
    filters: Vec<StreamFilter>,
    encoded: Vec<u8>,
    /// None: the chain ends in a codec this file cannot produce data for — the encoded bytes are compared
    raw: Option<Vec<u8>>,
}

fn chain_case(chain: &[Kind], subset: u32, raw: &[u8]) -> Option<ChainCase> {
    let mut pi = 0;
    let mut with: Vec<bool> = vec![];
    for k in chain {
        if k.parameterised() {
            with.push(subset & (1 << pi) != 0);
            pi += 1;
        } else {
            with.push(false);
        }
    }
    // decoding applies the filters first to last: encode last to first (the row length of a predictor is chosen
    // from the length of what it is applied to)
    let mut data = raw.to_vec();
    let decodable = chain.iter().all(|k| k.decodable());
    let mut filters: Vec<StreamFilter> = vec![];
    for (k, w) in chain.iter().zip(with.iter()).rev() {
        filters.push(filter_of(*k, *w, columns_for(data.len())));
        if let Some(e) = encode_member(*k, *w, &data) {
            data = e;
        } else if k.decodable() {
            return None;
        }
    }
    filters.reverse();
    let desc = chain.iter().zip(with.iter()).map(|(k, w)| format!("{}{}", k.name(), if *w { "+parms" } else { "" })).collect::<Vec<_>>().join(",");
    Some(ChainCase { desc: format!("[{}]", desc), filters, encoded: data, raw: if decodable { Some(raw.to_vec()) } else { None } })
}

struct StreamVisitor<'a> {
    info_prim: &'a Primitive,
    objs: &'a HashMap<u64, Primitive>,
    case: &'a ChainCase,
    clear: bool,
    /// (signature tail, text); empty: fine
    failures: Vec<(String, String)>,
    status: String,
}

fn make_info<I: Object + ValueSide>(prim: &Primitive, objs: &HashMap<u64, Primitive>, clear: bool) -> std::result::Result<I, String> {
    let r1 = MemResolver::new(objs.clone(), HashMap::new(), false);
    let mut info = I::from_primitive(prim.clone(), &r1).map_err(|e| format!("{}", e))?;
    if clear && info.other_dict().is_some() {
        info.set_other(Dictionary::new());
    }
    Ok(info)
}

/// the typed stream (possibly inside a wrapper type `W`) built in memory, written, read back, compared
fn stream_round<I: Object + ObjectWrite + ValueSide, W: Object + ObjectWrite>(
    info: I,
    c: &ChainCase,
    objs: &HashMap<u64, Primitive>,
    wrap: impl FnOnce(Stream<I>) -> W,
    inner: impl Fn(&W) -> &Stream<I>,
) -> (String, Vec<(String, String)>) {
    let mut fails: Vec<(String, String)> = vec![];
    let r1 = MemResolver::new(objs.clone(), HashMap::new(), false);
    let info_fields = info.fields_debug();
    let filters_txt = format!("{:?}", c.filters);
    let x: Stream<I> = Stream::new_with_filters(info, c.encoded.clone(), c.filters.clone());
    if let Some(raw) = &c.raw {
        match x.data(&r1) {
            Ok(d) if &d[..] == &raw[..] => {}
            Ok(d) => return ("generator".into(), vec![("generator:encoded-data-decodes-differently".into(), format!("the original value decodes to {} bytes, not the {} bytes that were encoded", d.len(), raw.len()))]),
            Err(e) => return ("generator".into(), vec![("generator:encoded-data-does-not-decode".into(), format!("{}", e))]),
        }
    }
    let w = wrap(x);
    let mut up = RecUpdater::new(CREATED_BASE);
    let p1 = match w.to_primitive(&mut up) {
        Ok(p) => p,
        Err(e) => return ("werr".into(), vec![("write-fails".into(), format!("{}", e))]),
    };
    let dict_txt = match &p1 {
        Primitive::Stream(s) => show_plain(&Primitive::Dictionary(s.info.clone())),
        q => return ("not-a-stream".into(), vec![("not-a-stream".into(), format!("written as {}", q.get_debug_name()))]),
    };
    let mut objs2 = objs.clone();
    for (i, q) in &up.objs {
        objs2.insert(*i, q.clone());
    }
    let r2 = MemResolver::new(objs2, HashMap::new(), false);
    let w2 = match W::from_primitive(p1, &r2) {
        Ok(x) => x,
        Err(e) => return ("rerr2".into(), vec![("read-back-fails".into(), format!("{} — written dictionary {}", e, trunc(&dict_txt)))]),
    };
    let x2 = inner(&w2);
    let f2 = format!("{:?}", x2.info.filters);
    if f2 != filters_txt {
        fails.push(("filters-changed".into(), format!("filters of the value {} but {} after write + read (written dictionary {})", trunc(&filters_txt), trunc(&f2), trunc(&dict_txt))));
    }
    match (&c.raw, x2.data(&r2)) {
        (Some(raw), Ok(d)) => {
            if &d[..] != &raw[..] {
                fails.push(("decoded-data-changed".into(), format!("the re-read stream decodes to {} bytes that differ from the original {} bytes (written dictionary {})", d.len(), raw.len(), trunc(&dict_txt))));
            }
        }
        (Some(_), Err(e)) => fails.push(("decoded-data-changed".into(), format!("the re-read stream does not decode: {} (written dictionary {})", e, trunc(&dict_txt)))),
        (None, _) => {}
    }
    for ((f, key, a), (_, _, bb)) in info_fields.iter().zip(x2.info.info.fields_debug().iter()) {
        if !debug_same(a, bb) {
            fails.push((format!("field-changed:{}", f), format!("field `{}` (/{}) of the stream dictionary is {} but {} after write + read", f, key, trunc(a), trunc(bb))));
        }
    }
    if let Some(o) = x2.info.info.other_dict() {
        for k in ["Length", "Filter", "DecodeParms"] {
            if o.get(k).is_some() {
                fails.push((format!("stream-key-in-catch-all:{}", k), format!("/{} ends up in the catch-all of the stream dictionary", k)));
            }
        }
    }
    ("ok".to_string(), fails)
}

impl<'a> StreamInfoVisitor for StreamVisitor<'a> {
    fn stream_info<I: Object + ObjectWrite + ValueSide + 'static>(&mut self, _name: &str) {
        let r = std::panic::catch_unwind(std::panic::AssertUnwindSafe(|| {
            let info = match make_info::<I>(self.info_prim, self.objs, self.clear) {
                Ok(i) => i,
                Err(e) => return ("info-refused".to_string(), vec![("generator:info-refused".into(), e)]),
            };
            stream_round::<I, Stream<I>>(info, self.case, self.objs, |s| s, |w| w)
        }));
        match r {
            Ok((s, f)) => {
                self.status = s;
                self.failures = f;
            }
            Err(_) => {
                self.status = "panic".into();
                self.failures = vec![("panic".into(), "panic".into())];
            }
        }
    }
}

/// the hand-written wrappers around typed streams: `ImageXObject`, `FormXObject` and the three variants of `XObject`
fn wrapper_round(which: &str, info_prim: &Primitive, objs: &HashMap<u64, Primitive>, c: &ChainCase, clear: bool) -> (String, Vec<(String, String)>) {
    use pdf::content::FormXObject;
    let r = std::panic::catch_unwind(std::panic::AssertUnwindSafe(|| -> std::result::Result<(String, Vec<(String, String)>), String> {
        Ok(match which {
            "ImageXObject" => stream_round(make_info::<ImageDict>(info_prim, objs, clear)?, c, objs, |s| ImageXObject { inner: s }, |w| &w.inner),
            "FormXObject" => stream_round(make_info::<FormDict>(info_prim, objs, clear)?, c, objs, |s| FormXObject { stream: s }, |w| &w.stream),
            "XObject::Image" => stream_round(make_info::<ImageDict>(info_prim, objs, clear)?, c, objs, |s| XObject::Image(ImageXObject { inner: s }), |w| match w {
                XObject::Image(i) => &i.inner,
                _ => panic!("variant changed"),
            }),
            "XObject::Form" => stream_round(make_info::<FormDict>(info_prim, objs, clear)?, c, objs, |s| XObject::Form(FormXObject { stream: s }), |w| match w {
                XObject::Form(i) => &i.stream,
                _ => panic!("variant changed"),
            }),
            _ => stream_round(make_info::<PostScriptDict>(info_prim, objs, clear)?, c, objs, XObject::Postscript, |w| match w {
                XObject::Postscript(i) => i,
                _ => panic!("variant changed"),
            }),
        })
    }));
    match r {
        Ok(Ok(x)) => x,
        Ok(Err(e)) => ("info-refused".into(), vec![("generator:info-refused".into(), e)]),
        Err(_) => ("panic".into(), vec![("panic".into(), "panic (or the variant of the XObject changed)".into())]),
    }
}

const WRAPPERS: &[(&str, &str)] = &[("ImageXObject", "ImageDict"), ("FormXObject", "FormDict"), ("XObject::Image", "ImageDict"), ("XObject::Form", "FormDict"), ("XObject::Postscript", "PostScriptDict")];

pub fn oracle_stream_values(schemas: &[SchemaJ], seed: u64, thorough: bool) -> Oracle {
    let mut or = Oracle::new("c15.stream-values");
    let all = chains(true);
    for (info_name, typed) in STREAM_INFOS {
        if !*typed {
            or.count(&format!("info-not-nameable={}", info_name));
            continue;
        }
        let sc = schemas.iter().find(|s| s.name == *info_name);
        for (ci, chain) in all.iter().enumerate() {
            // quick: every chain for `()`, a rotating third of them for each typed dictionary
            if !thorough && *info_name != "()" && (ci + info_name.len()) % 3 != 0 && chain.len() != 2 {
                continue;
            }
            let np = chain.iter().filter(|k| k.parameterised()).count() as u32;
            for subset in 0..(1u32 << np) {
                let mut rng = Rng::derive(seed, &format!("c15.stream-values/{}/{}", info_name, ci), subset as u64);
                let n = 1 + rng.usize(24);
                let raw: Vec<u8> = (0..n).map(|_| if rng.chance(1, 3) { 7 } else { rng.below(256) as u8 }).collect();
                let Some(case) = chain_case(chain, subset, &raw) else {
                    or.count("skipped=encoder-failed");
                    continue;
                };
                let mut g = Gen::new(schemas, false);
                g.always_tags = true;
                let minimal = subset % 2 == 0;
                let info_prim = match sc {
                    Some(sc) => match g.model_value(&mut rng, sc, None, if minimal { 0 } else { 2 }) {
                        Some(p) => p,
                        None => {
                            or.count(&format!("skipped=no-generator:{}", info_name));
                            break;
                        }
                    },
                    None => Primitive::Null,
                };
                let mut v = StreamVisitor { info_prim: &info_prim, objs: &g.objs, case: &case, clear: ci % 2 == 0, failures: vec![], status: String::new() };
                if !visit_stream_info(info_name, &mut v) {
                    or.count(&format!("info-not-visited={}", info_name));
                    break;
                }
                let desc = format!("Stream<{}> {}", info_name, case.desc);
                or.count(&format!("info={}", info_name));
                or.count(&format!("chain-length={}", chain.len()));
                or.count(&format!("parameterised-members={} with-parameters={}", np, subset.count_ones()));
                or.count(&format!("outcome={}", v.status));
                or.case(&format!("{} {} {}", desc, hex(&raw), show_plain(&info_prim)), true, || json!({"stream": desc, "status": v.status}));
                for (sig, what) in &v.failures {
                    let sig_full = if sig.starts_with("generator:") { format!("{}:{}", sig, info_name) } else { format!("stream-value:{}:{}", info_name, sig) };
                    or.fail(&sig_full, &format!("{}: {}", desc, what), json!({"oracle": "c15.stream-values", "seed": seed, "info": info_name, "chain": case.desc, "subset": subset, "dictionary": show_plain(&info_prim)}));
                }
            }
        }
    }
    // the wrappers, on the chains with at most two members
    for (which, info_name) in WRAPPERS {
        let Some(sc) = schemas.iter().find(|s| s.name == *info_name) else {
            or.count(&format!("wrapper-without-schema={}", which));
            continue;
        };
        for (ci, chain) in all.iter().enumerate().filter(|(_, c)| c.len() <= 2) {
            if !thorough && chain.len() == 2 && (ci + which.len()) % 2 != 0 {
                continue;
            }
            let np = chain.iter().filter(|k| k.parameterised()).count() as u32;
            for subset in 0..(1u32 << np) {
                let mut rng = Rng::derive(seed, &format!("c15.stream-values/{}/{}", which, ci), subset as u64);
                let n = 1 + rng.usize(24);
                let raw: Vec<u8> = (0..n).map(|_| rng.below(256) as u8).collect();
                let Some(case) = chain_case(chain, subset, &raw) else { continue };
                let mut g = Gen::new(schemas, false);
                g.always_tags = true;
                let Some(info_prim) = g.model_value(&mut rng, sc, None, if subset % 2 == 0 { 0 } else { 2 }) else { break };
                let (status, failures) = wrapper_round(which, &info_prim, &g.objs, &case, ci % 2 == 0);
                let desc = format!("{} {}", which, case.desc);
                or.count(&format!("wrapper={}", which));
                or.count(&format!("outcome={}", status));
                or.case(&format!("{} {} {}", desc, hex(&raw), show_plain(&info_prim)), true, || json!({"stream": desc, "status": status}));
                for (sig, what) in &failures {
                    let sig_full = if sig.starts_with("generator:") { format!("{}:{}", sig, which) } else { format!("stream-value:{}:{}", which, sig) };
                    or.fail(&sig_full, &format!("{}: {}", desc, what), json!({"oracle": "c15.stream-values", "seed": seed, "wrapper": which, "chain": case.desc, "subset": subset, "dictionary": show_plain(&info_prim)}));
                }
            }
        }
    }
    or
}
