//! C09 — a reload sees exactly the saved modifications and nothing else changes.
//!
//! Model: lean/PdfModel/Model/Storage.lean (driver: Drv/C09.lean).
//!
//! Correspondence streams
//!   c09.hist            random histories (≤ 12 ops + clean-up, 1–3 saves, failing saves and retries) over
//!                       generated base files × {classic, stream xref, compressed objects, holes below /Size,
//!                       junk prefix} × {cached, uncached}: every answer of create / update / promise /
//!                       fulfil / get / resolve, for every save the rows actually written, /W, /Size,
//!                       startxref and the offsets of the appended objects (read back from the bytes by the
//!                       independent reader w5_pdfread.rs), and the resolution of every object number after
//!                       reloading the saved bytes — against the Lean model run on the same history
//!   c09.hist.outside    the same with updates of free / undefined numbers (panics; drift only)
//!   c09.bytelen         xref.rs `byte_len` through `write_stream` against the model's `byteLen`
//! Oracles (implementation against the property itself, no model involved)
//!   c09.witness         deterministic histories for D22, D23, D24, D25, D44, D45 (regression witnesses)
//!   c09.history         the random histories: abstract map "last value written" before the save
//!                       (read-your-writes), after reload through the library, and through the independent
//!                       reader on the saved bytes; untouched objects keep their values; the previous bytes
//!                       are a prefix; a failed save does not poison later ones
//!
//! Shared with c10.rs: `PVal` ↔ `Primitive` conversion, `W` (a `PVal` as an `ObjectWrite` value).

#[path = "w5_pdfread.rs"]
pub mod pdfread;

use crate::driver::Driver;
use crate::pdfwrite::*;
use crate::report::*;
use crate::rng::Rng;
use crate::util::*;
use pdf::any::AnySync;
use pdf::error::PdfError;
use pdf::file::{Cache, NoCache, NoLog, Storage, Trailer};
use pdf::object::{NoUpdate, Object, ObjectWrite, ParseOptions, PlainRef, Ref, Resolve, Stream as TStream, Updater};
use pdf::primitive::{Dictionary, PdfString, Primitive};
use pdf::xref::{XRef, XRefTable};
use pdfread::*;
use serde_json::{json, Value};
use std::collections::{BTreeMap, BTreeSet, HashMap};
use std::panic::{catch_unwind, AssertUnwindSafe};
use std::sync::Arc;

// ---------------------------------------------------------------------------------------------------
// values

pub fn to_prim(v: &PVal) -> Primitive {
    match v {
        PVal::Null => Primitive::Null,
        PVal::Bool(b) => Primitive::Boolean(*b),
        PVal::Int(i) => Primitive::Integer(*i as i32),
        PVal::Real(t) => Primitive::Number(t.parse::<f32>().unwrap()),
        PVal::Str(s) => Primitive::String(PdfString::new(s.as_slice().into())),
        PVal::Name(n) => Primitive::name(n.as_str()),
        PVal::Arr(a) => Primitive::Array(a.iter().map(to_prim).collect()),
        PVal::Dict(d) => Primitive::Dictionary(to_dict(d)),
        PVal::Ref(a, b) => Primitive::Reference(PlainRef { id: *a, gen: *b }),
        PVal::Stream(..) => panic!("a stream is not a direct primitive"),
    }
}

pub fn to_dict(d: &[(String, PVal)]) -> Dictionary {
    let mut out = Dictionary::new();
    for (k, v) in d {
        out.insert(k.as_str(), to_prim(v));
    }
    out
}

pub fn from_prim(p: &Primitive, r: &impl Resolve) -> PVal {
    match p {
        Primitive::Null => PVal::Null,
        Primitive::Boolean(b) => PVal::Bool(*b),
        Primitive::Integer(i) => PVal::Int(*i as i64),
        Primitive::Number(f) => PVal::Real(format!("{}", f)),
        Primitive::String(s) => PVal::Str(s.as_bytes().to_vec()),
        Primitive::Name(n) => PVal::Name(n.as_str().to_string()),
        Primitive::Array(a) => PVal::Arr(a.iter().map(|x| from_prim(x, r)).collect()),
        Primitive::Dictionary(d) => PVal::Dict(d.iter().map(|(k, v)| (k.as_str().to_string(), from_prim(v, r))).collect()),
        Primitive::Reference(x) => PVal::Ref(x.id, x.gen),
        Primitive::Stream(s) => {
            let d = s.info.iter().map(|(k, v)| (k.as_str().to_string(), from_prim(v, r))).collect();
            match s.raw_data(r) {
                Ok(data) => PVal::Stream(d, data.to_vec()),
                Err(e) => PVal::Stream(d, format!("<raw_data failed: {}>", e).into_bytes()),
            }
        }
    }
}

/// a `PVal` handed to `create` / `update` / `fulfill`
pub struct W(pub PVal);
impl ObjectWrite for W {
    fn to_primitive(&self, update: &mut impl Updater) -> pdf::error::Result<Primitive> {
        match &self.0 {
            PVal::Stream(d, data) => TStream::new(to_dict(d), data.clone()).to_primitive(update),
            v => Ok(to_prim(v)),
        }
    }
}
impl Object for W {
    fn from_primitive(_p: Primitive, _r: &impl Resolve) -> pdf::error::Result<Self> {
        Err(PdfError::Other { msg: "W is write-only".into() })
    }
}

/// PDF text of a value, written by the harness itself (base files)
pub fn pdf_text(v: &PVal) -> Vec<u8> {
    fn dict_entries(d: &[(String, PVal)]) -> String {
        d.iter().map(|(k, v)| format!("/{} {}", k, String::from_utf8_lossy(&pdf_text(v)))).collect::<Vec<_>>().join(" ")
    }
    match v {
        PVal::Null => b"null".to_vec(),
        PVal::Bool(b) => format!("{}", b).into_bytes(),
        PVal::Int(i) => format!("{}", i).into_bytes(),
        PVal::Real(t) => t.clone().into_bytes(),
        PVal::Str(s) => format!("<{}>", hex(s)).into_bytes(),
        PVal::Name(n) => format!("/{}", n).into_bytes(),
        PVal::Arr(a) => format!("[{}]", a.iter().map(|x| String::from_utf8_lossy(&pdf_text(x)).into_owned()).collect::<Vec<_>>().join(" ")).into_bytes(),
        PVal::Dict(d) => format!("<< {} >>", dict_entries(d)).into_bytes(),
        PVal::Ref(a, b) => format!("{} {} R", a, b).into_bytes(),
        PVal::Stream(d, data) => stream_body(&dict_entries(d), data),
    }
}

fn small_val(rng: &mut Rng) -> PVal {
    match rng.below(7) {
        0 => PVal::Int(rng.range(-50, 5000)),
        1 => PVal::Real(format!("{}.{}", rng.below(90), 1 + rng.below(9))),
        2 => PVal::Name((*rng.pick(&["Alpha", "beta", "X1", "Name.With-Chars_", "Q"])).to_string()),
        3 => PVal::Str((0..rng.usize(6)).map(|_| *rng.pick(b"abc XYZ019\xe9\x80")).collect()),
        4 => PVal::Bool(rng.chance(1, 2)),
        5 => PVal::Arr((0..rng.usize(3)).map(|_| PVal::Int(rng.range(0, 9))).collect()),
        _ => PVal::Dict(vec![("K".into(), PVal::Int(rng.range(0, 9)))]),
    }
}

/// a value that carries `marker`; dictionaries draw their extra keys from a small pool so that two
/// values written to the same reference usually have different key sets
pub fn gen_val(rng: &mut Rng, marker: u64, allow_stream: bool) -> PVal {
    let extra = |rng: &mut Rng| -> Vec<(String, PVal)> {
        let mut d = vec![("Marker".to_string(), PVal::Int(marker as i64))];
        for k in ["A", "B", "C", "D", "E"] {
            if rng.chance(2, 5) {
                d.push((k.to_string(), small_val(rng)));
            }
        }
        if rng.chance(1, 6) {
            d.push(("Link".to_string(), PVal::Ref(1 + rng.below(4), 0)));
        }
        d
    };
    match rng.below(if allow_stream { 8 } else { 6 }) {
        0 => PVal::Int(marker as i64),
        1 => {
            let mut a = vec![PVal::Int(marker as i64)];
            for _ in 0..rng.usize(4) {
                a.push(small_val(rng));
            }
            PVal::Arr(a)
        }
        2..=5 => PVal::Dict(extra(rng)),
        _ => {
            let n = rng.usize(40);
            let mut data: Vec<u8> = rng.bytes(n);
            if rng.chance(1, 4) {
                data.extend_from_slice(b"\nendstream\nendobj\n1 0 obj");
            }
            PVal::Stream(extra(rng), data)
        }
    }
}

pub fn marker_of(v: &PVal) -> Option<u64> {
    match v {
        PVal::Int(i) if *i >= 0 => Some(*i as u64),
        PVal::Arr(a) => a.first().and_then(|x| x.as_int()).map(|i| i as u64),
        PVal::Dict(_) | PVal::Stream(..) => v.get("Marker").and_then(|x| x.as_int()).map(|i| i as u64),
        _ => None,
    }
}

// ---------------------------------------------------------------------------------------------------
// base files

pub const M_XREF: u64 = 0;
pub const M_INFO: u64 = 1;
pub const M_CATALOG: u64 = 2;
pub const M_PAGES: u64 = 3;

#[derive(Clone, Debug, PartialEq)]
pub enum Expect {
    Val(u64),
    Free,
    Null,
    Unspec,
}

#[derive(Clone, Debug)]
pub struct SecDesc {
    pub abs_off: u64,
    pub size: u64,
    pub prev: Option<u64>,
    pub root: (u64, u64),
    pub info: Option<u64>,
    pub subs: Vec<(u64, Vec<Entry>)>,
}

pub struct Base {
    pub bytes: Vec<u8>,
    pub start: usize,
    pub startxref: u64,
    /// every object physically in the file: (absolute offset, id, gen, marker, members' markers)
    pub objs: Vec<(u64, u64, u64, u64, Vec<u64>)>,
    pub secs: Vec<SecDesc>,
    /// what each object number resolves to in the newest revision
    pub expect: BTreeMap<u64, Expect>,
    /// generation of the live object numbers
    pub gens: BTreeMap<u64, u64>,
    pub values: HashMap<u64, PVal>,
    pub updatable: Vec<u64>,
    pub streams: Vec<u64>,
    pub dead: Vec<u64>,
    pub size: u64,
    pub desc: String,
    /// the /ID strings of the newest trailer
    pub ids: Vec<Vec<u8>>,
    pub has_info: bool,
}

fn entry_text(e: &Entry) -> String {
    match e {
        Entry::Free { next, gen } => format!("f.{}.{}", next, gen),
        Entry::InUse { off, gen } => format!("r.{}.{}", off, gen),
        Entry::Compressed { stm, idx } => format!("s.{}.{}", stm, idx),
    }
}

impl Base {
    /// the base as the model driver reads it
    pub fn request_fields(&self) -> String {
        let objs = if self.objs.is_empty() {
            "-".to_string()
        } else {
            self.objs
                .iter()
                .map(|(off, id, gen, m, mem)| {
                    format!("{}:{}:{}:{}:{}", off, id, gen, m, if mem.is_empty() { "-".to_string() } else { mem.iter().map(|x| x.to_string()).collect::<Vec<_>>().join("+") })
                })
                .collect::<Vec<_>>()
                .join(",")
        };
        let secs = self
            .secs
            .iter()
            .map(|s| {
                let subs = if s.subs.is_empty() {
                    "-".to_string()
                } else {
                    s.subs
                        .iter()
                        .map(|(f, es)| format!("{}:{}", f, if es.is_empty() { "-".to_string() } else { es.iter().map(entry_text).collect::<Vec<_>>().join(",") }))
                        .collect::<Vec<_>>()
                        .join(";")
                };
                format!(
                    "{}/{}/{}/{}.{}/{}/{}",
                    s.abs_off,
                    s.size,
                    s.prev.map(|p| p.to_string()).unwrap_or("n".into()),
                    s.root.0,
                    s.root.1,
                    s.info.map(|p| p.to_string()).unwrap_or("n".into()),
                    subs
                )
            })
            .collect::<Vec<_>>()
            .join("|");
        format!("{} {} {} {} {}", self.start, self.bytes.len(), self.startxref, objs, secs)
    }
}

pub fn info_val() -> PVal {
    PVal::Dict(vec![("Title".into(), PVal::Str(b"verif title".to_vec())), ("Author".into(), PVal::Str(b"w5 \xe9".to_vec()))])
}
fn catalog_val() -> PVal {
    PVal::Dict(vec![("Type".into(), PVal::Name("Catalog".into())), ("Pages".into(), PVal::Ref(2, 0))])
}
fn pages_val() -> PVal {
    PVal::Dict(vec![("Type".into(), PVal::Name("Pages".into())), ("Kids".into(), PVal::Arr(vec![])), ("Count".into(), PVal::Int(0))])
}

#[derive(Clone, Copy, Debug, PartialEq)]
pub struct BaseOpts {
    /// 0 random, 1 classic only, 2 stream format
    pub format: u8,
    pub compressed: bool,
    pub prefix: bool,
    pub holes: bool,
    pub max_rev: usize,
    pub info: bool,
}

/// A well-formed multi-revision file: generations never decrease over time, compressed objects have
/// generation 0, freed numbers are reused with the generation of their free entry, every in-use offset
/// points at its object, every section mentions only numbers below the newest /Size.
pub fn gen_base(rng: &mut Rng, o: BaseOpts) -> Base {
    let nuser = 1 + rng.below(6);
    let last_user = 2 + nuser;
    let nrev = 1 + rng.usize(o.max_rev.max(1));
    let prefix: Vec<u8> = if o.prefix { (0..1 + rng.usize(60)).map(|_| *rng.pick(b"junk \n\r%123xyz")).collect() } else { vec![] };
    let mut w = PdfWriter::new(&prefix, "1.7");
    let hp = w.header_pos as u64;
    #[derive(Clone, Copy, PartialEq)]
    enum St {
        Unborn,
        Live,
        Freed,
    }
    let mut state = vec![(St::Unborn, 0u64); (last_user + 1) as usize];
    let info_id = if o.info { Some(last_user + 1) } else { None };
    let mut next_aux = last_user + 2;
    let mut max_id = info_id.unwrap_or(last_user);
    let mut marker = 1000u64;
    let mut values: HashMap<u64, PVal> = HashMap::new();
    values.insert(M_INFO, info_val());
    values.insert(M_CATALOG, catalog_val());
    values.insert(M_PAGES, pages_val());
    let mut objs = vec![];
    let mut secs: Vec<SecDesc> = vec![];
    let mut expect: BTreeMap<u64, Expect> = BTreeMap::new();
    let mut is_stream: BTreeSet<u64> = BTreeSet::new();
    let mut desc = String::new();
    let mut final_size = 0;
    let mut newest_ids: Vec<Vec<u8>> = vec![];
    for rev in 0..nrev {
        let mut want_stream_fmt = match o.format { 1 => false, 2 => true, _ => rng.chance(1, 2) };
        let can_compress = o.compressed && o.format != 1;
        let mut compressed: Vec<(u64, Vec<u8>, u64)> = vec![];
        desc.push_str(&format!("[rev{}:", rev));
        if rev == 0 {
            w.free(0, 0, 65535);
            expect.insert(0, Expect::Free);
            // catalog and page tree root
            for (id, m, v) in [(1u64, M_CATALOG, catalog_val()), (2u64, M_PAGES, pages_val())] {
                if can_compress && rng.chance(1, 4) {
                    compressed.push((id, pdf_text(&v), m));
                    want_stream_fmt = true;
                } else {
                    let off = w.object(id, 0, &pdf_text(&v));
                    objs.push((hp + off, id, 0, m, vec![]));
                }
                expect.insert(id, Expect::Val(m));
            }
            if let Some(i) = info_id {
                let off = w.object(i, 0, &pdf_text(&info_val()));
                objs.push((hp + off, i, 0, M_INFO, vec![]));
                expect.insert(i, Expect::Val(M_INFO));
            }
        }
        for id in 3..=last_user {
            let (st, g) = state[id as usize];
            let touch = if rev == 0 { rng.chance(if o.holes { 3 } else { 19 }, if o.holes { 4 } else { 20 }) } else { rng.chance(2, 5) };
            if !touch {
                continue;
            }
            marker += 1;
            let action = rng.below(10);
            if st == St::Live && action < 2 {
                w.free(id, 0, g + 1);
                state[id as usize] = (St::Freed, g + 1);
                expect.insert(id, Expect::Free);
                is_stream.remove(&id);
                desc.push_str(&format!(" {}=free", id));
            } else if can_compress && g == 0 && st != St::Freed && action < 6 {
                let v = gen_val(rng, marker, false);
                compressed.push((id, pdf_text(&v), marker));
                values.insert(marker, v);
                state[id as usize] = (St::Live, 0);
                expect.insert(id, Expect::Val(marker));
                is_stream.remove(&id);
                want_stream_fmt = true;
                desc.push_str(&format!(" {}=compressed", id));
            } else {
                let v = gen_val(rng, marker, true);
                let off = w.object(id, g, &pdf_text(&v));
                objs.push((hp + off, id, g, marker, vec![]));
                if matches!(v, PVal::Stream(..)) {
                    is_stream.insert(id);
                } else {
                    is_stream.remove(&id);
                }
                values.insert(marker, v);
                state[id as usize] = (St::Live, g);
                expect.insert(id, Expect::Val(marker));
                desc.push_str(&format!(" {}=direct/g{}", id, g));
            }
        }
        if !compressed.is_empty() {
            let stm = next_aux;
            next_aux += 1;
            max_id = max_id.max(stm);
            let filter = *rng.pick(&[StmFilter::None, StmFilter::Flate, StmFilter::HexFlate]);
            let members: Vec<(u64, Vec<u8>)> = compressed.iter().map(|(id, b, _)| (*id, b.clone())).collect();
            let sep: &[u8] = if rng.chance(1, 2) { b" " } else { b"\n" };
            marker += 1;
            let off = w.object_stream(stm, &members, filter, sep, &format!("/Marker {}", marker));
            objs.push((hp + off, stm, 0, marker, compressed.iter().map(|c| c.2).collect()));
            expect.insert(stm, Expect::Val(marker));
        }
        let fmt = if want_stream_fmt { XrefFormat::Stream } else { XrefFormat::Classic };
        let xref_id = if fmt == XrefFormat::Stream {
            let x = next_aux;
            next_aux += 1;
            max_id = max_id.max(x);
            x
        } else {
            0
        };
        let ncuts = rng.usize(3);
        let cuts: Vec<usize> = (0..ncuts).map(|_| rng.usize(8)).collect();
        let slack = if o.holes { rng.below(3) } else { 0 };
        let size = max_id + 1 + slack;
        marker += 1;
        let mut extra = format!("/Root 1 0 R /Marker {}", marker);
        if let Some(i) = info_id {
            extra.push_str(&format!(" /Info {} 0 R", i));
        }
        if rng.chance(2, 3) {
            extra.push_str(" /ID [(ab) <cdef>]");
            newest_ids = vec![b"ab".to_vec(), vec![0xcd, 0xef]];
        } else {
            newest_ids = vec![];
        }
        let prev = w.revisions.last().map(|r| r.xref_off);
        let xoff = w.finish(fmt, size, &extra, &cuts, xref_id);
        if fmt == XrefFormat::Stream {
            objs.push((hp + xoff, xref_id, 0, marker, vec![]));
            expect.insert(xref_id, Expect::Val(marker));
        }
        let r = w.revisions.last().unwrap();
        secs.push(SecDesc { abs_off: hp + xoff, size, prev, root: (1, 0), info: info_id, subs: r.subsections.clone() });
        final_size = size;
        desc.push_str(&format!(" {:?} size={}]", fmt, size));
    }
    for id in 0..final_size + 3 {
        expect.entry(id).or_insert(if id < final_size { Expect::Null } else if id == final_size { Expect::Free } else { Expect::Unspec });
    }
    let mut gens = BTreeMap::new();
    let mut updatable = vec![];
    let mut dead = vec![];
    for id in 3..=last_user {
        match state[id as usize] {
            (St::Live, g) => {
                gens.insert(id, g);
                updatable.push(id);
            }
            _ => dead.push(id),
        }
    }
    let startxref = w.revisions.last().unwrap().xref_off;
    if !prefix.is_empty() {
        desc.push_str(&format!(" prefix={}", prefix.len()));
    }
    Base { bytes: w.out.clone(), start: w.header_pos, startxref, objs, secs, expect, gens, values, updatable, streams: is_stream.into_iter().collect(), dead, size: final_size, desc, ids: newest_ids, has_info: info_id.is_some() }
}

// ---------------------------------------------------------------------------------------------------
// running a history on the real library

pub type OCv = Result<AnySync, Arc<PdfError>>;
pub type SCv = Result<Arc<[u8]>, Arc<PdfError>>;

pub fn err_show(e: &PdfError) -> String {
    err_class(e).to_string()
}

/// name of a value as the model names it: `v<marker>` when it is exactly the value planted under that
/// marker, `v<marker>!…` when it carries the marker but is a different value
pub fn show_value(v: &PVal, values: &HashMap<u64, PVal>) -> String {
    let c = v.canon();
    if let PVal::Stream(..) = v {
        if v.get("Type").and_then(|t| t.as_name()) == Some("XRef") && v.get("Marker").is_none() {
            return format!("v{}", M_XREF);
        }
    }
    for m in [M_INFO, M_CATALOG, M_PAGES] {
        if values.get(&m).map(|x| x.canon()) == Some(c.clone()) {
            return format!("v{}", m);
        }
    }
    match marker_of(v) {
        Some(m) => match values.get(&m) {
            Some(exp) if exp.canon() == c => format!("v{}", m),
            Some(exp) => format!("v{}!got:{}!want:{}", m, c, exp.canon()),
            None => format!("v{}", m), // auxiliary object (object stream, cross-reference stream of the base)
        },
        None => format!("v?{}", c),
    }
}

fn show_resolved(r: pdf::error::Result<Primitive>, res: &impl Resolve, values: &HashMap<u64, PVal>) -> String {
    match r {
        Ok(p) => show_value(&from_prim(&p, res), values),
        Err(e) => err_show(&e),
    }
}

/// open `bytes` afresh and resolve every object number 0 ..= /Size + 2
pub fn reload_all(bytes: &[u8], cached: bool, values: &HashMap<u64, PVal>) -> Result<Vec<String>, String> {
    fn go<OC: Cache<OCv>, SC: Cache<SCv>>(bytes: &[u8], oc: OC, sc: SC, values: &HashMap<u64, PVal>) -> Result<Vec<String>, String> {
        let mut st = Storage::with_cache(bytes.to_vec(), ParseOptions::strict(), oc, sc, NoLog).map_err(|e| format!("with_cache: {}", e))?;
        let tr = st.load_storage_and_trailer().map_err(|e| format!("load: {}", e))?;
        let size = tr.get("Size").and_then(|p| p.as_integer().ok()).ok_or("no /Size")? as u64;
        let res = st.resolver();
        let _trailer = Trailer::from_primitive(Primitive::Dictionary(tr), &res).map_err(|e| format!("trailer: {}", e))?;
        let mut out = vec![];
        for id in 0..size + 3 {
            out.push(show_resolved(res.resolve(PlainRef { id, gen: 0 }), &res, values));
        }
        Ok(out)
    }
    let r = catch_unwind(AssertUnwindSafe(|| {
        if cached {
            go(bytes, pdf::file::SyncCache::new(), pdf::file::SyncCache::new(), values)
        } else {
            go(bytes, NoCache, NoCache, values)
        }
    }));
    match r {
        Ok(x) => x,
        Err(_) => Err("panic".into()),
    }
}

#[derive(Clone, Debug)]
pub enum HOp {
    Create(u64),
    /// update `id` with the value of marker; `bad`: the value is a stream still living in the file
    Update(u64, u64, bool),
    Promise,
    Fulfil(u64, u64),
    Get(u64),
    Resolve(u64),
    Save,
    Reload(bool),
}

/// what the independent reader found appended by one save
#[derive(Clone, Debug, Default)]
pub struct Appended {
    pub objs: Vec<IndObj>,
    pub xref: Option<Section>,
    pub xpos: u64,
    pub total_len: usize,
}

pub struct Exec<OC, SC> {
    pub storage: Storage<Vec<u8>, OC, SC, NoLog>,
    pub trailer: Trailer,
    pub values: HashMap<u64, PVal>,
    pub start: usize,
    /// bytes after the last successful save (initially the base)
    pub last_bytes: Vec<u8>,
    /// generation handed out per object number
    pub gens: BTreeMap<u64, u64>,
    pub promises: BTreeMap<u64, pdf::file::PromisedRef<W>>,
}

impl<OC: Cache<OCv>, SC: Cache<SCv>> Exec<OC, SC> {
    pub fn open(base: &Base, oc: OC, sc: SC) -> Result<Self, String> {
        let mut storage = Storage::with_cache(base.bytes.clone(), ParseOptions::strict(), oc, sc, NoLog).map_err(|e| format!("with_cache: {}", e))?;
        let tr = storage.load_storage_and_trailer().map_err(|e| format!("load: {}", e))?;
        let trailer = Trailer::from_primitive(Primitive::Dictionary(tr), &storage.resolver()).map_err(|e| format!("trailer: {}", e))?;
        Ok(Exec { storage, trailer, values: base.values.clone(), start: base.start, last_bytes: base.bytes.clone(), gens: base.gens.clone(), promises: BTreeMap::new() })
    }
    fn gen_of(&self, id: u64) -> u64 {
        *self.gens.get(&id).unwrap_or(&0)
    }
    /// run one operation; returns (request token, implementation answer, appended records of a save)
    pub fn apply(&mut self, op: &HOp) -> (String, String, Option<Appended>) {
        match op {
            HOp::Create(m) => {
                let v = self.values[m].clone();
                let r = self.storage.create(W(v));
                let a = match r {
                    Ok(rc) => {
                        let pr = rc.get_ref().get_inner();
                        self.gens.insert(pr.id, pr.gen);
                        format!("R{}.{}", pr.id, pr.gen)
                    }
                    Err(_) => "err".into(),
                };
                (format!("c:{}", m), a, None)
            }
            HOp::Update(id, m, bad) => {
                let old = PlainRef { id: *id, gen: self.gen_of(*id) };
                let r = if *bad {
                    // the value is read from the file: a stream whose data is `InFile`
                    let src = self.stream_source(*m);
                    match src {
                        Some(p) => self.storage.update(old, p).map(|rc| rc.get_ref().get_inner()),
                        None => Err(PdfError::Other { msg: "no source".into() }),
                    }
                } else {
                    let v = self.values[m].clone();
                    self.storage.update(old, W(v)).map(|rc| rc.get_ref().get_inner())
                };
                let a = match r {
                    Ok(pr) => {
                        self.gens.insert(pr.id, pr.gen);
                        format!("R{}.{}", pr.id, pr.gen)
                    }
                    Err(_) => "err".into(),
                };
                (format!("u:{}:{}{}", id, m, if *bad { "!" } else { "" }), a, None)
            }
            HOp::Promise => {
                let p = self.storage.promise::<W>();
                let pr = p.get_inner();
                self.promises.insert(pr.id, p);
                self.gens.insert(pr.id, pr.gen);
                ("p".into(), format!("R{}.{}", pr.id, pr.gen), None)
            }
            HOp::Fulfil(id, m) => {
                let v = self.values[m].clone();
                let a = match self.promises.remove(id) {
                    Some(p) => match self.storage.fulfill(p, W(v)) {
                        Ok(rc) => {
                            let pr = rc.get_ref().get_inner();
                            format!("R{}.{}", pr.id, pr.gen)
                        }
                        Err(_) => "err".into(),
                    },
                    None => "no-such-promise".into(),
                };
                (format!("f:{}:{}", id, m), a, None)
            }
            HOp::Get(id) => {
                let res = self.storage.resolver();
                let r = res.get::<Primitive>(Ref::new(PlainRef { id: *id, gen: self.gen_of(*id) }));
                let a = match r {
                    Ok(rc) => show_value(&from_prim(&rc, &res), &self.values),
                    Err(e) => err_show(&e),
                };
                (format!("g:{}", id), a, None)
            }
            HOp::Resolve(id) => {
                let res = self.storage.resolver();
                let a = show_resolved(res.resolve(PlainRef { id: *id, gen: self.gen_of(*id) }), &res, &self.values);
                (format!("r:{}", id), a, None)
            }
            HOp::Save => {
                let r = self.storage.save(&mut self.trailer).map(|b| b.to_vec());
                match r {
                    Ok(bytes) => {
                        let ap = measure(&bytes, self.last_bytes.len(), self.start);
                        let (tok, ans) = match &ap {
                            Ok(ap) => (save_token(ap), save_answer(ap)),
                            Err(e) => ("s".to_string(), format!("ok-unreadable:{}", e)),
                        };
                        let prev = std::mem::replace(&mut self.last_bytes, bytes);
                        let ap = ap.ok().map(|mut a| {
                            a.total_len = self.last_bytes.len();
                            let _ = prev;
                            a
                        });
                        (tok, ans, ap)
                    }
                    Err(_) => ("s".into(), "err".into(), None),
                }
            }
            HOp::Reload(c) => {
                let a = match reload_all(&self.last_bytes, *c, &self.values) {
                    Ok(v) => format!("L{}", v.join(",")),
                    Err(e) if e == "panic" => "Lpanic".into(),
                    Err(_) => "Lerr".into(),
                };
                (format!("l:{}", if *c { 1 } else { 0 }), a, None)
            }
        }
    }
    /// the primitive of the base stream object planted under `marker`, as the library reads it
    fn stream_source(&self, marker: u64) -> Option<Primitive> {
        let res = self.storage.resolver();
        for id in 0..self.storage_size() {
            if let Ok(p) = res.resolve(PlainRef { id, gen: 0 }) {
                if let Primitive::Stream(ref s) = p {
                    if s.info.get("Marker").and_then(|m| m.as_integer().ok()) == Some(marker as i32) {
                        return Some(p);
                    }
                }
            }
        }
        None
    }
    fn storage_size(&self) -> u64 {
        self.trailer.size.max(0) as u64 + 4
    }
}

/// read back what a save appended to `bytes[from..]`
pub fn measure(bytes: &[u8], from: usize, start: usize) -> Result<Appended, String> {
    let xpos = last_startxref(bytes)?;
    let xabs = start + xpos as usize;
    if xabs < from {
        return Err(format!("startxref {} points into the previous revision", xpos));
    }
    let (objs, stop) = objects_in(bytes, from, bytes.len());
    let sec = section_at(bytes, xabs)?;
    if !bytes[stop..].starts_with(b"startxref") {
        return Err(format!("unexpected data at {} between the appended objects and startxref", stop));
    }
    Ok(Appended { objs, xref: Some(sec), xpos, total_len: bytes.len() })
}

fn save_token(ap: &Appended) -> String {
    // record lengths: distance to the next record; the cross-reference stream is the last object
    let n = ap.objs.len();
    if n == 0 {
        return "s".into();
    }
    let mut lens = vec![];
    for i in 0..n - 1 {
        lens.push(format!("{}.{}", ap.objs[i].id, ap.objs[i + 1].start - ap.objs[i].start));
    }
    let x = &ap.objs[n - 1];
    format!("s:{}:{}:{}", if lens.is_empty() { "-".to_string() } else { lens.join(",") }, x.end - x.start, ap.total_len - x.end)
}

fn save_answer(ap: &Appended) -> String {
    let sec = ap.xref.as_ref().unwrap();
    let size = sec.trailer.get("Size").and_then(|v| v.as_int()).unwrap_or(-1);
    let rows = if sec.subs.len() == 1 && sec.subs[0].0 == 0 {
        sec.subs[0].1.iter().map(|r| r.show()).collect::<Vec<_>>().join(",")
    } else {
        format!("subsections:{:?}", sec.subs.iter().map(|s| (s.0, s.1.len())).collect::<Vec<_>>())
    };
    let objs = ap.objs.iter().map(|o| format!("{}.{}@{}", o.id, o.gen, o.start)).collect::<Vec<_>>().join(",");
    let w = if sec.w.len() == 3 { format!("{}.{}", sec.w[1], sec.w[2]) } else { "?".into() };
    format!("ok/{}/{}/{}/{}/{}/{}", ap.xpos, size, w, objs, rows, ap.total_len)
}

// ---------------------------------------------------------------------------------------------------
// history generation (adaptive: later operations use the references handed out by earlier ones)

#[derive(Default)]
pub struct Outcome {
    pub request_ops: Vec<String>,
    pub answers: Vec<String>,
    pub failures: Vec<(String, String)>, // (signature, what)
    pub n_saves_ok: usize,
    pub n_saves_failed: usize,
    pub n_ops: usize,
    pub kinds: Vec<&'static str>,
}

struct Abstract {
    /// last value written per reference (marker)
    written: BTreeMap<u64, u64>,
    /// references whose pending value cannot be serialised
    bad: BTreeSet<u64>,
    pending: BTreeSet<u64>,
    /// everything the caller may read or update
    known: Vec<u64>,
}

fn expect_of(base: &Base, abs: &Abstract, id: u64) -> Expect {
    match abs.written.get(&id) {
        Some(m) => Expect::Val(*m),
        None => base.expect.get(&id).cloned().unwrap_or(Expect::Unspec),
    }
}

fn show_expect(e: &Expect) -> String {
    match e {
        Expect::Val(m) => format!("v{}", m),
        Expect::Free => "F".into(),
        Expect::Null => "N".into(),
        Expect::Unspec => "U".into(),
    }
}

/// null-like results are interchangeable after a save (an undefined number is written as a free row)
fn same_read(exp: &str, got: &str) -> bool {
    exp == got || ((exp == "N" || exp == "F") && (got == "N" || got == "F"))
}

pub fn run_history<OC: Cache<OCv>, SC: Cache<SCv>>(base: &Base, rng: &mut Rng, oc: OC, sc: SC, cached: bool, outside: bool, nops: usize) -> Result<Outcome, String> {
    let mut ex = Exec::open(base, oc, sc)?;
    let mut out = Outcome::default();
    let mut abs = Abstract { written: BTreeMap::new(), bad: BTreeSet::new(), pending: BTreeSet::new(), known: base.updatable.clone() };
    let mut marker = 500_000u64;
    let mut new_val = |rng: &mut Rng, ex: &mut Exec<OC, SC>| -> u64 {
        marker += 1;
        let v = gen_val(rng, marker, true);
        ex.values.insert(marker, v);
        marker
    };
    let max_saves = 1 + rng.usize(3);
    let mut saves = 0usize;
    let mut prev_bytes = base.bytes.clone();
    let total = nops + 6;
    let mut step = 0usize;
    let mut cleanup = false;
    let mut done = false;
    while !done && step < total + 20 {
        step += 1;
        if step > nops && !cleanup {
            cleanup = true;
        }
        // choose the operation
        let op: HOp = if cleanup {
            // clean-up: make the document savable (3 times out of 4), save, reload
            if let Some(&p) = abs.pending.iter().next() {
                HOp::Fulfil(p, new_val(rng, &mut ex))
            } else if let Some(&b) = abs.bad.iter().next() {
                HOp::Update(b, new_val(rng, &mut ex), false)
            } else {
                done = true;
                HOp::Save
            }
        } else {
            let k = rng.below(100);
            let pick_known = |rng: &mut Rng, abs: &Abstract| -> Option<u64> { if abs.known.is_empty() { None } else { Some(*rng.pick(&abs.known)) } };
            if k < 12 {
                HOp::Create(new_val(rng, &mut ex))
            } else if k < 40 {
                match pick_known(rng, &abs) {
                    Some(id) => HOp::Update(id, new_val(rng, &mut ex), false),
                    None => HOp::Create(new_val(rng, &mut ex)),
                }
            } else if k < 46 {
                // an unserialisable value: a stream object of the base, read and written back under another reference
                match (pick_known(rng, &abs), base.streams.is_empty()) {
                    (Some(id), false) => {
                        let sid = *rng.pick(&base.streams);
                        match base.expect.get(&sid) {
                            Some(Expect::Val(m)) if !abs.written.contains_key(&sid) => HOp::Update(id, *m, true),
                            _ => HOp::Resolve(id),
                        }
                    }
                    _ => HOp::Promise,
                }
            } else if k < 54 {
                HOp::Promise
            } else if k < 64 {
                match abs.pending.iter().next().cloned() {
                    Some(p) => HOp::Fulfil(p, new_val(rng, &mut ex)),
                    None => HOp::Promise,
                }
            } else if k < 76 {
                let id = if rng.chance(3, 4) { pick_known(rng, &abs).unwrap_or(1) } else { rng.below(base.size + 4) };
                HOp::Get(id)
            } else if k < 88 {
                let id = if rng.chance(3, 4) { pick_known(rng, &abs).unwrap_or(1) } else { rng.below(base.size + 4) };
                HOp::Resolve(id)
            } else if k < 94 && outside && !base.dead.is_empty() {
                HOp::Update(*rng.pick(&base.dead), new_val(rng, &mut ex), false)
            } else if saves < max_saves {
                HOp::Save
            } else {
                HOp::Resolve(pick_known(rng, &abs).unwrap_or(2))
            }
        };
        // a promise that is pending must not be updated through `Update` with a stale generation: fine, gen 0
        let r = catch_unwind(AssertUnwindSafe(|| ex.apply(&op)));
        let (tok, ans, ap) = match r {
            Ok(x) => x,
            Err(_) => {
                let tok = match &op {
                    HOp::Create(m) => format!("c:{}", m),
                    HOp::Update(id, m, bad) => format!("u:{}:{}{}", id, m, if *bad { "!" } else { "" }),
                    HOp::Promise => "p".into(),
                    HOp::Fulfil(id, m) => format!("f:{}:{}", id, m),
                    HOp::Get(id) => format!("g:{}", id),
                    HOp::Resolve(id) => format!("r:{}", id),
                    HOp::Save => "s".into(),
                    HOp::Reload(c) => format!("l:{}", if *c { 1 } else { 0 }),
                };
                out.request_ops.push(tok);
                out.answers.push("panic".into());
                if !outside {
                    out.failures.push(("panic".into(), format!("{:?} panicked", op)));
                }
                // the storage may be in any state after a panic: stop here
                break;
            }
        };
        out.request_ops.push(tok);
        out.answers.push(ans.clone());
        out.n_ops += 1;
        // ---- oracle: the abstract map
        match &op {
            HOp::Create(m) => {
                out.kinds.push("create");
                match parse_ref(&ans) {
                    Some((id, _)) => {
                        if abs.known.contains(&id) || base.expect.get(&id).map(|e| matches!(e, Expect::Val(_))).unwrap_or(false) {
                            out.failures.push(("create-reuses-live-number".into(), format!("create handed out {} which is in use", id)));
                        }
                        abs.written.insert(id, *m);
                        abs.known.push(id);
                    }
                    None => out.failures.push(("create-failed".into(), format!("create answered {}", ans))),
                }
            }
            HOp::Update(id, m, bad) => {
                out.kinds.push(if *bad { "update-unserialisable" } else { "update" });
                match parse_ref(&ans) {
                    Some((rid, _)) => {
                        if rid != *id {
                            out.failures.push(("update-returns-other-reference".into(), format!("update of {} handed back reference {}: the reference the caller passed still reads the old value", id, rid)));
                            abs.written.insert(rid, *m);
                            abs.known.push(rid);
                        } else {
                            abs.written.insert(*id, *m);
                            if *bad { abs.bad.insert(*id); } else { abs.bad.remove(id); }
                            abs.pending.remove(id);
                        }
                    }
                    None => {
                        if !outside {
                            out.failures.push(("update-failed".into(), format!("update of live object {} answered {}", id, ans)));
                        }
                    }
                }
            }
            HOp::Promise => {
                out.kinds.push("promise");
                if let Some((id, _)) = parse_ref(&ans) {
                    abs.pending.insert(id);
                }
            }
            HOp::Fulfil(id, m) => {
                out.kinds.push("fulfil");
                match parse_ref(&ans) {
                    Some((rid, _)) if rid == *id => {
                        abs.written.insert(*id, *m);
                        abs.pending.remove(id);
                        abs.known.push(*id);
                    }
                    _ => out.failures.push(("fulfil-failed".into(), format!("fulfil of promise {} answered {}", id, ans))),
                }
            }
            HOp::Get(id) | HOp::Resolve(id) => {
                out.kinds.push(if matches!(op, HOp::Get(_)) { "get" } else { "resolve" });
                if abs.pending.contains(id) {
                    // an unfulfilled promise has no value yet: any error is fine
                    if ans.starts_with('v') {
                        out.failures.push(("promise-has-value".into(), format!("unfulfilled promise {} reads {}", id, ans)));
                    }
                } else if saves > 0 && *id >= base.size && !abs.written.contains_key(id) {
                    // a number the saves themselves allocated (info dictionary, cross-reference stream)
                } else {
                    let exp = show_expect(&expect_of(base, &abs, *id));
                    let ok = if saves > 0 { same_read(&exp, &ans) } else { exp == ans };
                    if !ok {
                        let sig = if matches!(op, HOp::Get(_)) { "stale-get" } else { "stale-resolve" };
                        out.failures.push((sig.into(), format!("{:?} after writes: expected {} got {}", op, exp, ans)));
                    }
                }
            }
            HOp::Save => {
                saves += 1;
                let should_succeed = abs.pending.is_empty() && abs.bad.is_empty();
                out.kinds.push(if should_succeed { "save" } else { "save-must-fail" });
                if ans.starts_with("ok") {
                    out.n_saves_ok += 1;
                    if !should_succeed {
                        out.failures.push(("save-succeeded-with-unwritable-object".into(), format!("save succeeded although pending={:?} unserialisable={:?}", abs.pending, abs.bad)));
                    }
                    let bytes = ex.last_bytes.clone();
                    check_saved(base, &abs, &ex.values, &prev_bytes, &bytes, ap.as_ref(), cached, &mut out);
                    prev_bytes = bytes;
                    // the model reloads too
                    let c = rng.chance(1, 2);
                    let (tok, ans, _) = ex.apply(&HOp::Reload(c));
                    out.request_ops.push(tok);
                    out.answers.push(ans);
                    // xref stream and info objects of this save are now known numbers (read-only)
                } else {
                    out.n_saves_failed += 1;
                    if should_succeed {
                        out.failures.push(("save-failed".into(), format!("save failed although every pending object is serialisable and no promise is open (answer {})", ans)));
                    }
                }
            }
            HOp::Reload(_) => {}
        }
    }
    Ok(out)
}

pub fn parse_ref(a: &str) -> Option<(u64, u64)> {
    let s = a.strip_prefix('R')?;
    let mut it = s.split('.');
    Some((it.next()?.parse().ok()?, it.next()?.parse().ok()?))
}

/// The property on the saved bytes: prefix, independent reader, reload through the library.
fn check_saved(base: &Base, abs: &Abstract, values: &HashMap<u64, PVal>, prev: &[u8], bytes: &[u8], ap: Option<&Appended>, cached: bool, out: &mut Outcome) {
    if !bytes.starts_with(prev) {
        out.failures.push(("prefix-modified".into(), "the bytes of the previous revision are not a prefix of the saved bytes".into()));
    }
    // independent reader
    match ap.and_then(|a| a.xref.as_ref()) {
        None => out.failures.push(("saved-bytes-unreadable".into(), "the independent reader cannot read the appended revision".into())),
        Some(sec) => {
            let mut rows: BTreeMap<u64, Row> = BTreeMap::new();
            for (first, rs) in &sec.subs {
                for (i, r) in rs.iter().enumerate() {
                    rows.insert(first + i as u64, r.clone());
                }
            }
            for (id, m) in &abs.written {
                match rows.get(id) {
                    Some(Row::InUse { off, .. }) => match indirect_at(bytes, base.start + *off as usize, &|_, _| None) {
                        Ok(o) => {
                            if o.id != *id {
                                out.failures.push(("row-points-at-other-object".into(), format!("row of {} points at `{} {} obj`", id, o.id, o.gen)));
                            } else {
                                let got = o.val.canon();
                                let want = values[m].canon();
                                if got != want {
                                    out.failures.push(("saved-value-differs".into(), format!("object {} in the saved bytes is {} but the last value written is {}", id, got, want)));
                                }
                            }
                        }
                        Err(e) => out.failures.push(("row-points-at-no-object".into(), format!("row of written object {} (offset {} + header {}): {}", id, off, base.start, e))),
                    },
                    other => out.failures.push(("written-object-not-in-use".into(), format!("written object {} has row {:?}", id, other))),
                }
            }
            // untouched objects of the base: same row as in the newest base table
            let base_rows = merged_rows(base);
            for (id, row) in &base_rows {
                if abs.written.contains_key(id) {
                    continue;
                }
                match rows.get(id) {
                    Some(r) if r == row => {}
                    other => out.failures.push(("untouched-row-changed".into(), format!("untouched object {}: row {:?} in the base, {:?} after the save", id, row, other))),
                }
            }
        }
    }
    // reload through the library
    match reload_all(bytes, cached, values) {
        Err(e) => out.failures.push(("reload-failed".into(), format!("the saved bytes do not load: {}", e))),
        Ok(res) => {
            for (id, got) in res.iter().enumerate() {
                let id = id as u64;
                if id >= base.size && !abs.written.contains_key(&id) {
                    continue; // numbers the saves themselves allocated (info, cross-reference streams)
                }
                let exp = show_expect(&expect_of(base, abs, id));
                if !same_read(&exp, got) {
                    let sig = if abs.written.contains_key(&id) { "reload-misses-write" } else { "reload-changes-untouched" };
                    out.failures.push((sig.into(), format!("after reload object {} reads {} but {} was expected", id, got, exp)));
                }
            }
        }
    }
}

/// newest-wins merge of the base sections (the harness's own statement of C02), numbers below /Size
fn merged_rows(base: &Base) -> BTreeMap<u64, Row> {
    let mut m: BTreeMap<u64, Row> = BTreeMap::new();
    for s in base.secs.iter().rev() {
        for (first, es) in &s.subs {
            for (i, e) in es.iter().enumerate() {
                let id = first + i as u64;
                if id < base.size {
                    m.entry(id).or_insert(match e {
                        Entry::Free { next, gen } => Row::Free { next: *next, gen: *gen },
                        Entry::InUse { off, gen } => Row::InUse { off: *off, gen: *gen },
                        Entry::Compressed { stm, idx } => Row::Compressed { stm: *stm, idx: *idx },
                    });
                }
            }
        }
    }
    m
}

// ---------------------------------------------------------------------------------------------------
// streams

fn opts_for(rng: &mut Rng) -> BaseOpts {
    BaseOpts { format: rng.below(3) as u8, compressed: rng.chance(2, 3), prefix: rng.chance(1, 3), holes: rng.chance(1, 2), max_rev: 3, info: rng.chance(1, 2) }
}

fn one_case(seed: u64, stream: &str, case: u64, outside: bool) -> (String, Result<Outcome, String>, Base, bool) {
    let mut rng = Rng::derive(seed, stream, case);
    let o = opts_for(&mut rng);
    let base = gen_base(&mut rng, o);
    let cached = rng.chance(1, 2);
    let nops = 4 + rng.usize(9);
    let res = catch_unwind(AssertUnwindSafe(|| {
        if cached {
            run_history(&base, &mut rng, pdf::file::SyncCache::new(), pdf::file::SyncCache::new(), true, outside, nops)
        } else {
            run_history(&base, &mut rng, NoCache, NoCache, false, outside, nops)
        }
    }));
    let res = match res {
        Ok(r) => r,
        Err(_) => Err("panic outside an operation".into()),
    };
    let req = match &res {
        Ok(o) => format!("c09.hist {} {} {}", if cached { 1 } else { 0 }, base.request_fields(), if o.request_ops.is_empty() { "-".to_string() } else { o.request_ops.join(";") }),
        Err(_) => format!("c09.hist {} {} -", if cached { 1 } else { 0 }, base.request_fields()),
    };
    (req, res, base, cached)
}

fn histories(driver: &Driver, seed: u64, from: u64, to: u64, outside: bool) -> (Stream, Oracle) {
    let name = if outside { "c09.hist.outside" } else { "c09.hist" };
    let mut st = Stream::new(name, !outside);
    let mut or = Oracle::new(if outside { "c09.history.outside" } else { "c09.history" });
    let mut reqs = vec![];
    let mut imps = vec![];
    for case in from..to {
        let (req, res, base, cached) = one_case(seed, name, case, outside);
        let replay = json!({"stream": name, "seed": seed, "case": case, "base": base.desc, "cached": cached, "file_hex": crate::driver::hex(&base.bytes)});
        match res {
            Err(e) => {
                or.case(&req, true, || json!({"base": base.desc}));
                or.fail("base-does-not-load", &format!("well-formed generated base file does not open: {}", e), replay);
                reqs.push(req);
                imps.push("load-err".to_string());
            }
            Ok(o) => {
                st.count(&format!("cached={}", cached));
                st.count(&format!("saves_ok={}", o.n_saves_ok));
                st.count(&format!("saves_failed={}", o.n_saves_failed));
                st.count(&format!("revisions={}", base.secs.len()));
                st.count(&format!("prefix={}", base.start > 0));
                st.count(&format!("xref={}", if base.secs.iter().any(|s| s.subs.iter().any(|x| x.1.iter().any(|e| matches!(e, Entry::Compressed { .. })))) { "compressed" } else { "plain" }));
                for k in &o.kinds {
                    or.count(&format!("op={}", k));
                }
                or.case(&req, o.n_saves_ok > 0, || json!({"base": base.desc, "ops": o.request_ops, "answers": o.answers}));
                if !outside {
                    let mut seen = BTreeSet::new();
                    for (sig, what) in &o.failures {
                        if seen.insert(sig.clone()) {
                            let mut rp = replay.clone();
                            rp["ops"] = json!(o.request_ops);
                            rp["answers"] = json!(o.answers);
                            or.fail(sig, what, rp);
                        }
                    }
                }
                reqs.push(req);
                imps.push(o.answers.join(";"));
            }
        }
    }
    let resp = driver.ask(&reqs);
    for ((rq, m), i) in reqs.iter().zip(resp.iter()).zip(imps.iter()) {
        st.case(rq, m, i, rq.contains(";s:"));
    }
    (st, or)
}

// ---------------------------------------------------------------------------------------------------
// byte-for-byte: the model renders what `save` appends (lean/PdfModel/Model/SaveBytes.lean)

use crate::c03::render::{show_val, Val};

/// a generated value in the notation of the byte model (reals as `f32::to_string` text); a stream gets
/// the `/Length` that `Stream::to_pdf_stream` appends
pub fn pval_to_val(v: &PVal, top: bool) -> Val {
    let entries = |d: &[(String, PVal)]| -> Vec<(Vec<u8>, Val)> { d.iter().map(|(k, v)| (k.as_bytes().to_vec(), pval_to_val(v, false))).collect() };
    match v {
        PVal::Null => Val::Null,
        PVal::Bool(b) => Val::Bool(*b),
        PVal::Int(i) => Val::Int(*i),
        PVal::Real(t) => Val::Real(format!("{}", t.parse::<f32>().unwrap())),
        PVal::Str(s) => Val::Str(s.clone()),
        PVal::Name(n) => Val::Name(n.as_bytes().to_vec()),
        PVal::Arr(a) => Val::Arr(a.iter().map(|x| pval_to_val(x, false)).collect()),
        PVal::Dict(d) => Val::Dict(entries(d)),
        PVal::Ref(a, b) => Val::Ref(*a, *b),
        PVal::Stream(d, data) => {
            let _ = top;
            let mut e = entries(d);
            e.push((b"Length".to_vec(), Val::Int(data.len() as i64)));
            Val::StreamPending(e, data.clone())
        }
    }
}

fn bytes_stream(driver: &Driver, seed: u64, n: u64) -> Stream {
    let mut st = Stream::new("c09.bytes", true);
    let mut reqs = vec![];
    let mut imps = vec![];
    for case in 0..n {
        let mut rng = Rng::derive(seed, "c09.bytes", case);
        let o = opts_for(&mut rng);
        let base = gen_base(&mut rng, o);
        let r = catch_unwind(AssertUnwindSafe(|| -> Result<(Vec<String>, Vec<String>), String> {
            let mut ex = Exec::open(&base, NoCache, NoCache)?;
            let mut ops: Vec<String> = vec![];
            let mut ans: Vec<String> = vec![];
            let mut known: Vec<u64> = base.updatable.clone();
            let mut pending: Vec<u64> = vec![];
            let mut touched: BTreeSet<u64> = BTreeSet::new();
            let mut marker = 700_000u64;
            let nops = 3 + rng.usize(9);
            let mut saves = 0;
            let mut late = 0;
            for step in 0..nops + 1 {
                let last = step == nops;
                let k = if last { 99 } else { rng.below(100) };
                let mut fresh = |rng: &mut Rng, ex: &mut Exec<NoCache, NoCache>| -> (u64, Val) {
                    marker += 1;
                    let v = gen_val(rng, marker, true);
                    let val = pval_to_val(&v, true);
                    ex.values.insert(marker, v);
                    (marker, val)
                };
                // the catalog or the page tree root replaced by something that does not load as such — the next
                // save fails *after* writing its revision — or repaired again
                if !last && rng.chance(1, 8) {
                    let id = if rng.chance(2, 3) { 1 } else { 2 };
                    let (m, val) = if rng.chance(1, 2) {
                        fresh(&mut rng, &mut ex)
                    } else {
                        marker += 1;
                        let v = if id == 1 {
                            PVal::Dict(vec![("Type".into(), PVal::Name("Catalog".into())), ("Pages".into(), PVal::Ref(2, 0)), ("Marker".into(), PVal::Int(marker as i64))])
                        } else {
                            PVal::Dict(vec![("Type".into(), PVal::Name("Pages".into())), ("Kids".into(), PVal::Arr(vec![])), ("Count".into(), PVal::Int(0)), ("Marker".into(), PVal::Int(marker as i64))])
                        };
                        let val = pval_to_val(&v, true);
                        ex.values.insert(marker, v);
                        (marker, val)
                    };
                    let (_, a, _) = ex.apply(&HOp::Update(id, m, false));
                    touched.insert(id);
                    ops.push(format!("u={}={}", id, show_val(&val)));
                    ans.push(a);
                    continue;
                }
                if k < 20 {
                    let (m, val) = fresh(&mut rng, &mut ex);
                    let (_, a, _) = ex.apply(&HOp::Create(m));
                    if let Some((id, _)) = parse_ref(&a) { known.push(id); }
                    ops.push(format!("c={}", show_val(&val)));
                    ans.push(a);
                } else if k < 55 && !known.is_empty() {
                    let id = *rng.pick(&known);
                    let (m, val) = fresh(&mut rng, &mut ex);
                    let (_, a, _) = ex.apply(&HOp::Update(id, m, false));
                    touched.insert(id);
                    ops.push(format!("u={}={}", id, show_val(&val)));
                    ans.push(a);
                } else if k < 60 && !known.is_empty() && !base.streams.is_empty() {
                    // a stream of the base read and written back under another number: `InFile`, not serialisable
                    let id = *rng.pick(&known);
                    let sid = *rng.pick(&base.streams);
                    if touched.contains(&sid) { continue; }
                    if let Some(Expect::Val(m)) = base.expect.get(&sid) {
                        if let Some(PVal::Stream(d, _)) = base.values.get(m) {
                            let info: Vec<(Vec<u8>, Val)> = d.iter().map(|(k, v)| (k.as_bytes().to_vec(), pval_to_val(v, false))).collect();
                            let (_, a, _) = ex.apply(&HOp::Update(id, *m, true));
                            touched.insert(id);
                            ops.push(format!("u={}={}", id, show_val(&Val::StreamInFile(info, sid, 0, 0, 0))));
                            ans.push(a);
                        }
                    }
                } else if k < 68 {
                    let (_, a, _) = ex.apply(&HOp::Promise);
                    if let Some((id, _)) = parse_ref(&a) { pending.push(id); }
                    ops.push("p".into());
                    ans.push(a);
                } else if k < 80 && !pending.is_empty() {
                    let id = pending.remove(0);
                    let (m, val) = fresh(&mut rng, &mut ex);
                    let (_, a, _) = ex.apply(&HOp::Fulfil(id, m));
                    known.push(id);
                    ops.push(format!("f={}={}", id, show_val(&val)));
                    ans.push(a);
                } else if k >= 88 && (saves < 3 || last) {
                    saves += 1;
                    let before = ex.last_bytes.len();
                    // the last save is mostly a retry after repair: the revisions failed saves left behind show up
                    if last && rng.chance(3, 4) {
                        let broken = {
                            let root = ex.trailer.root.get_ref().get_inner();
                            let res = ex.storage.resolver();
                            res.get::<pdf::object::Catalog>(Ref::new(root)).is_err()
                        };
                        if broken {
                            for id in [1u64, 2] {
                                marker += 1;
                                let v = if id == 1 {
                                    PVal::Dict(vec![("Type".into(), PVal::Name("Catalog".into())), ("Pages".into(), PVal::Ref(2, 0)), ("Marker".into(), PVal::Int(marker as i64))])
                                } else {
                                    PVal::Dict(vec![("Type".into(), PVal::Name("Pages".into())), ("Kids".into(), PVal::Arr(vec![])), ("Count".into(), PVal::Int(0)), ("Marker".into(), PVal::Int(marker as i64))])
                                };
                                let val = pval_to_val(&v, true);
                                ex.values.insert(marker, v);
                                let (_, a, _) = ex.apply(&HOp::Update(id, marker, false));
                                touched.insert(id);
                                ops.push(format!("u={}={}", id, show_val(&val)));
                                ans.push(a);
                            }
                        }
                    }
                    // does the catalog load as a catalog (its page tree root included) in the current state? The
                    // typed reader's answer is an input of the model (`OpB.save typed`), asked independently of `save`
                    let typed = {
                        let root = ex.trailer.root.get_ref().get_inner();
                        let res = ex.storage.resolver();
                        res.get::<pdf::object::Catalog>(Ref::new(root)).is_ok()
                    };
                    let (_, a, _) = ex.apply(&HOp::Save);
                    ops.push(format!("s={}", if typed { 1 } else { 0 }));
                    if !typed { late += 1; }
                    if a.starts_with("ok") {
                        ans.push(format!("ok/{}", crate::driver::hex(&ex.last_bytes[before..])));
                    } else {
                        ans.push(a);
                    }
                }
            }
            let _ = late;
            Ok((ops, ans))
        }));
        let info = if base.has_info { show_val(&pval_to_val(&info_val(), false)) } else { "n".to_string() };
        let ids = if base.ids.is_empty() { "-".to_string() } else { base.ids.iter().map(|s| show_val(&Val::Str(s.clone()))).collect::<Vec<_>>().join("~") };
        match r {
            Ok(Ok((ops, ans))) => {
                st.count(&format!("saves={}", ans.iter().filter(|a| a.starts_with("ok/")).count()));
                st.count(&format!("failed-saves={}", ops.iter().zip(ans.iter()).filter(|(o, a)| o.starts_with("s=") && !a.starts_with("ok/")).count()));
                st.count(&format!("saves-failing-after-the-write={}", ops.iter().filter(|o| *o == "s=0").count()));
                let first_late = ops.iter().position(|o| o == "s=0");
                let retried = first_late.map(|p| ops.iter().zip(ans.iter()).skip(p + 1).any(|(o, a)| o.starts_with("s=") && a.starts_with("ok/"))).unwrap_or(false);
                if first_late.is_some() {
                    st.count(if retried { "late-failure=then-a-successful-save" } else { "late-failure=last-word" });
                }
                reqs.push(format!("c09.bytes {} {} {} {}", base.request_fields(), info, ids, if ops.is_empty() { "-".to_string() } else { ops.join(";") }));
                imps.push(ans.join(";"));
            }
            _ => {
                reqs.push(format!("c09.bytes {} {} {} -", base.request_fields(), info, ids));
                imps.push("harness-error".into());
            }
        }
    }
    let resp = driver.ask(&reqs);
    for ((rq, m), i) in reqs.iter().zip(resp.iter()).zip(imps.iter()) {
        st.case(rq, m, i, i.contains("ok/"));
    }
    st
}

/// the byte-level open path of the model (`OpenBytes.openB`) on whole files — generated bases and what
/// `save` made of them — against `Backend::read_xref_table_and_trailer`
fn open_stream(driver: &Driver, seed: u64, n: u64, thorough: bool) -> Stream {
    use pdf::backend::Backend;
    let mut st = Stream::new("c09.open", true);
    let real = |bytes: &Vec<u8>| -> String {
        let r = catch_unwind(AssertUnwindSafe(|| {
            let start = match bytes.locate_start_offset() { Ok(s) => s, Err(_) => return "err".to_string() };
            // a storage with an empty table: its resolver only serves the bytes of stream data
            let helper = match Storage::with_cache(bytes.clone(), ParseOptions::strict(), NoCache, NoCache, NoLog) { Ok(s) => s, Err(_) => return "err".to_string() };
            let rr = { let res = helper.resolver(); bytes.read_xref_table_and_trailer(start, &res) };
            match rr {
                Ok((t, tr)) => {
                    let size = tr.get("Size").and_then(|p| p.as_integer().ok()).map(|x| x.to_string()).unwrap_or("?".into());
                    let prev = match tr.get("Prev") { None => "n".to_string(), Some(p) => p.as_integer().map(|x| x.to_string()).unwrap_or("?".into()) };
                    let es: Vec<String> = (0..t.len()).map(|i| match t.get(i as u64).unwrap() {
                        XRef::Free { next_obj_nr, gen_nr } => format!("f.{}.{}", next_obj_nr, gen_nr),
                        XRef::Raw { pos, gen_nr } => format!("r.{}.{}", pos, gen_nr),
                        XRef::Stream { stream_id, index } => format!("s.{}.{}", stream_id, index),
                        XRef::Promised => "P".into(),
                        XRef::Invalid => "I".into(),
                    }).collect();
                    format!("ok {} {} {} {}", start, size, prev, es.join(","))
                }
                Err(_) => "err".to_string(),
            }
        }));
        r.unwrap_or_else(|_| "panic".into())
    };
    let mut reqs = vec![];
    let mut imps = vec![];
    for case in 0..n {
        let mut rng = Rng::derive(seed, "c09.open", case);
        let o = opts_for(&mut rng);
        let base = gen_base(&mut rng, o);
        st.count("file=base");
        reqs.push(format!("c09.open {}", crate::driver::hex(&base.bytes)));
        imps.push(real(&base.bytes));
        // one or two saves on top
        let r = catch_unwind(AssertUnwindSafe(|| -> Vec<Vec<u8>> {
            let mut out = vec![];
            if let Ok(mut ex) = Exec::open(&base, NoCache, NoCache) {
                let mut marker = 800_000u64;
                for _ in 0..1 + rng.usize(2) {
                    for _ in 0..1 + rng.usize(3) {
                        marker += 1;
                        let v = gen_val(&mut rng, marker, true);
                        ex.values.insert(marker, v);
                        if rng.chance(1, 2) || base.updatable.is_empty() {
                            ex.apply(&HOp::Create(marker));
                        } else {
                            ex.apply(&HOp::Update(*rng.pick(&base.updatable), marker, false));
                        }
                    }
                    let (_, a, _) = ex.apply(&HOp::Save);
                    if a.starts_with("ok") {
                        out.push(ex.last_bytes.clone());
                    }
                }
            }
            out
        }));
        for f in r.unwrap_or_default() {
            st.count("file=saved");
            reqs.push(format!("c09.open {}", crate::driver::hex(&f)));
            imps.push(real(&f));
        }
    }
    // large tables: sections of hundreds (thorough: thousands) of entries, classic and stream, one or two revisions
    // linked by /Prev, subsections cut at random places, freed numbers, members of object streams; and the one-section
    // stream `save` writes on top (`/Index [0 n]` with n in the thousands)
    let nbig = if thorough { 60 } else { 14 };
    for case in 0..nbig {
        let mut rng = Rng::derive(seed, "c09.open.big", case);
        let n = if thorough {
            match case % 4 { 0 => 41 + rng.usize(400), 1 => 400 + rng.usize(1200), 2 => 1500 + rng.usize(2000), _ => 3000 + rng.usize(2500) }
        } else {
            match case % 3 { 0 => 41 + rng.usize(80), 1 => 120 + rng.usize(200), _ => 300 + rng.usize(300) }
        } as u64;
        let bytes = big_file(&mut rng, n);
        st.count(&format!("file=big({})", match n { 0..=119 => "41-119 objects", 120..=399 => "120-399", 400..=1499 => "400-1499", 1500..=2999 => "1500-2999", _ => "3000+" }));
        reqs.push(format!("c09.open {}", crate::driver::hex(&bytes)));
        imps.push(real(&bytes));
        // a save on top: the whole table again as one stream section
        let saved = catch_unwind(AssertUnwindSafe(|| -> Option<Vec<u8>> {
            let (mut stg, mut tr) = open_plain(&bytes).ok()?;
            stg.update(PlainRef { id: 3, gen: 0 }, W(dict_val(900_000 + case as i64, "Big"))).ok()?;
            stg.create(W(dict_val(900_100 + case as i64, "New"))).ok()?;
            stg.save(&mut tr).ok().map(|b| b.to_vec())
        }));
        if let Ok(Some(f)) = saved {
            st.count("file=big-saved");
            reqs.push(format!("c09.open {}", crate::driver::hex(&f)));
            imps.push(real(&f));
        } else {
            st.count("file=big-save-failed");
        }
    }
    let resp = driver.ask(&reqs);
    for ((rq, m), i) in reqs.iter().zip(resp.iter()).zip(imps.iter()) {
        st.case(rq, m, i, i.starts_with("ok"));
    }
    st
}

/// a file with `n` numbers: catalog, page tree root, small dictionaries, some numbers freed, (stream format) some
/// compressed in object streams; optionally a second revision that rewrites and frees scattered numbers
fn big_file(rng: &mut Rng, n: u64) -> Vec<u8> {
    let stream_fmt = rng.chance(1, 2);
    let prefix: &[u8] = if rng.chance(1, 4) { b"%junk in front\n" } else { b"" };
    let mut w = PdfWriter::new(prefix, "1.7");
    w.free(0, 0, 65535);
    w.object(1, 0, b"<< /Type /Catalog /Pages 2 0 R >>");
    w.object(2, 0, b"<< /Type /Pages /Kids [] /Count 0 >>");
    w.object(3, 0, b"<< /Marker 3 >>");
    let mut id = 4u64;
    // object streams take their own number behind the members
    while id <= n {
        if stream_fmt && rng.chance(1, 12) && id + 12 < n {
            let k = 2 + rng.below(9);
            let members: Vec<(u64, Vec<u8>)> = (0..k).map(|j| (id + j, format!("<< /Marker {} >>", id + j).into_bytes())).collect();
            w.object_stream(id + k, &members, if rng.chance(1, 2) { StmFilter::Flate } else { StmFilter::None }, b"\n", "");
            id += k + 1;
        } else if rng.chance(1, 15) {
            w.free(id, 0, 1 + rng.below(3));
            id += 1;
        } else if rng.chance(1, 40) {
            // a number that is simply not mentioned: the section is split there
            id += 1;
        } else {
            w.object(id, 0, format!("<< /Marker {} >>", id).as_bytes());
            id += 1;
        }
    }
    let size = n + 2;
    let cuts: Vec<usize> = (0..rng.usize(6)).map(|_| rng.usize(n as usize)).collect();
    w.finish(if stream_fmt { XrefFormat::Stream } else { XrefFormat::Classic }, size, "/Root 1 0 R", &cuts, n + 1);
    if rng.chance(1, 2) {
        // second revision: every so-many-th number rewritten or freed, its own (sparse) section, /Prev
        let stride = 2 + rng.below(9);
        let mut j = 5 + rng.below(stride);
        while j <= n {
            if rng.chance(1, 6) {
                w.free(j, 0, 7);
            } else {
                w.object(j, 0, format!("<< /Marker {} /Rev 2 >>", j).as_bytes());
            }
            j += stride;
        }
        let fmt2 = if stream_fmt && rng.chance(2, 3) { XrefFormat::Stream } else { XrefFormat::Classic };
        let (size2, xid2) = if matches!(fmt2, XrefFormat::Stream) { (n + 3, n + 2) } else { (size, 0) };
        w.finish(fmt2, size2, "/Root 1 0 R", &[], xid2);
    }
    w.out.clone()
}

/// `byte_len` through `write_stream`: a table whose largest field is `n` gets /W [1 byte_len(n) …]
fn bytelen_stream(driver: &Driver, seed: u64, thorough: bool) -> Stream {
    let mut st = Stream::new("c09.bytelen", true);
    st.exhaustive = true;
    let mut ns: Vec<u64> = vec![];
    for k in 0..8u32 {
        let p = 1u64 << (8 * k);
        for d in [-2i64, -1, 0, 1, 2] {
            let v = p as i64 + d;
            if v >= 0 {
                ns.push(v as u64);
            }
        }
        ns.push(p.wrapping_mul(255));
        ns.push(p.wrapping_mul(256).wrapping_sub(1));
    }
    ns.push(u64::MAX >> 1);
    ns.push(usize::MAX as u64);
    let mut rng = Rng::derive(seed, "c09.bytelen", 0);
    for _ in 0..if thorough { 20000 } else { 500 } {
        let bits = rng.below(64);
        ns.push(rng.next() >> bits);
    }
    let mut reqs = vec![];
    let mut imps = vec![];
    for n in ns {
        let mut t = XRefTable::new(0);
        t.push(XRef::Raw { pos: n as usize, gen_nr: 0 });
        let imp = match catch_unwind(AssertUnwindSafe(|| t.write_stream(2))) {
            Ok(Ok(s)) => format!("{}", s.info.info.w[1]),
            Ok(Err(_)) => "err".into(),
            Err(_) => "panic".into(),
        };
        reqs.push(format!("c09.bytelen {}", n));
        imps.push(imp);
    }
    let resp = driver.ask(&reqs);
    for ((rq, m), i) in reqs.iter().zip(resp.iter()).zip(imps.iter()) {
        st.case(rq, m, i, true);
    }
    st
}

// ---------------------------------------------------------------------------------------------------
// deterministic witnesses of the defects found (regression witnesses once repaired)

struct WBase {
    bytes: Vec<u8>,
    start: usize,
}

/// objects 1 (catalog), 2 (pages), 3 = `<< /Marker 3 /Old true >>`; `compressed`: 3 lives in object stream 4
fn witness_base(prefix: &[u8], compressed: bool, hole: bool) -> WBase {
    let mut w = PdfWriter::new(prefix, "1.7");
    w.free(0, 0, 65535);
    w.object(1, 0, b"<< /Type /Catalog /Pages 2 0 R >>");
    w.object(2, 0, b"<< /Type /Pages /Kids [] /Count 0 >>");
    if compressed {
        w.object_stream(4, &[(3, b"<< /Marker 3 /Old true >>".to_vec())], StmFilter::None, b"\n", "");
        w.finish(XrefFormat::Stream, 6, "/Root 1 0 R", &[], 5);
    } else {
        w.object(3, 0, b"<< /Marker 3 /Old true >>");
        // `hole`: /Size 6 although 4 and 5 are never defined
        w.finish(XrefFormat::Classic, if hole { 6 } else { 4 }, "/Root 1 0 R", &[], 0);
    }
    WBase { bytes: w.out.clone(), start: w.header_pos }
}

fn open_plain(bytes: &[u8]) -> Result<(Storage<Vec<u8>, NoCache, NoCache, NoLog>, Trailer), String> {
    let mut st = Storage::with_cache(bytes.to_vec(), ParseOptions::strict(), NoCache, NoCache, NoLog).map_err(|e| format!("open: {}", e))?;
    let tr = st.load_storage_and_trailer().map_err(|e| format!("load: {}", e))?;
    let trailer = Trailer::from_primitive(Primitive::Dictionary(tr), &st.resolver()).map_err(|e| format!("trailer: {}", e))?;
    Ok((st, trailer))
}

fn resolved_canon(st: &Storage<Vec<u8>, impl Cache<OCv>, impl Cache<SCv>, NoLog>, id: u64) -> String {
    let res = st.resolver();
    match res.resolve(PlainRef { id, gen: 0 }) {
        Ok(p) => from_prim(&p, &res).canon(),
        Err(e) => format!("error:{}", err_show(&e)),
    }
}

fn reload_canon(bytes: &[u8], id: u64) -> String {
    match open_plain(bytes) {
        Ok((st, _)) => resolved_canon(&st, id),
        Err(e) => format!("reload-failed:{}", e),
    }
}

fn dict_val(marker: i64, key: &str) -> PVal {
    PVal::Dict(vec![("Marker".into(), PVal::Int(marker)), (key.into(), PVal::Bool(true))])
}

fn witnesses() -> Oracle {
    let mut or = Oracle::new("c09.witness");
    let mut run = |name: &str, sig: &str, f: &dyn Fn() -> Result<(), String>| {
        or.case(name, true, || json!({"witness": name}));
        or.count(&format!("witness={}", name));
        let r = catch_unwind(AssertUnwindSafe(f));
        let what = match r {
            Ok(Ok(())) => return,
            Ok(Err(e)) => e,
            Err(_) => "panic".to_string(),
        };
        or.fail(sig, &format!("{}: {}", name, what), json!({"stream": "c09.witness", "witness": name}));
    };
    // D22: update of a compressed object must keep the reference
    run("D22-update-compressed", "D22-update-of-compressed-object-creates-new-object", &|| {
        let b = witness_base(b"", true, false);
        let (mut st, mut tr) = open_plain(&b.bytes)?;
        let new = dict_val(33, "New");
        let r = st.update(PlainRef { id: 3, gen: 0 }, W(new.clone())).map_err(|e| format!("update: {}", e))?;
        let got = r.get_ref().get_inner();
        if got.id != 3 {
            return Err(format!("update(3 0 R) handed back {} {} R; 3 0 R still reads {}", got.id, got.gen, resolved_canon(&st, 3)));
        }
        let bytes = st.save(&mut tr).map_err(|e| format!("save: {}", e))?.to_vec();
        let after = reload_canon(&bytes, 3);
        if after != new.canon() {
            return Err(format!("after reload 3 0 R reads {} instead of {}", after, new.canon()));
        }
        Ok(())
    });
    // D23: junk before the header
    run("D23-prefix-save", "D23-save-ignores-header-offset", &|| {
        let b = witness_base(b"junk before the header\n", false, false);
        let (mut st, mut tr) = open_plain(&b.bytes)?;
        let new = dict_val(34, "New");
        st.update(PlainRef { id: 3, gen: 0 }, W(new.clone())).map_err(|e| format!("update: {}", e))?;
        let bytes = st.save(&mut tr).map_err(|e| format!("save: {}", e))?.to_vec();
        let after = reload_canon(&bytes, 3);
        if after != new.canon() {
            return Err(format!("file with {} bytes before %PDF-: after save and reload 3 0 R reads {}", b.start, after));
        }
        let x = last_startxref(&bytes)?;
        section_at(&bytes, b.start + x as usize).map_err(|e| format!("startxref {} is not relative to the header: {}", x, e))?;
        Ok(())
    });
    // D24: get after update through a caching storage
    run("D24-get-after-update", "D24-update-does-not-invalidate-cache", &|| {
        let b = witness_base(b"", false, false);
        let mut st = Storage::with_cache(b.bytes.clone(), ParseOptions::strict(), pdf::file::SyncCache::new(), pdf::file::SyncCache::new(), NoLog).map_err(|e| format!("{}", e))?;
        st.load_storage_and_trailer().map_err(|e| format!("{}", e))?;
        let r3 = PlainRef { id: 3, gen: 0 };
        let before = {
            let res = st.resolver();
            let v = res.get::<Primitive>(Ref::new(r3)).map_err(|e| format!("get: {}", e))?;
            from_prim(&v, &res).canon()
        };
        let new = dict_val(35, "New");
        st.update(r3, W(new.clone())).map_err(|e| format!("update: {}", e))?;
        let res = st.resolver();
        let v = res.get::<Primitive>(Ref::new(r3)).map_err(|e| format!("get: {}", e))?;
        let after = from_prim(&v, &res).canon();
        if after != new.canon() {
            return Err(format!("get(3 0 R) after update returns {} (the value before the update was {})", after, before));
        }
        Ok(())
    });
    run("D24-get-before-create", "D24-create-does-not-invalidate-cache", &|| {
        let b = witness_base(b"", false, false);
        let mut st = Storage::with_cache(b.bytes.clone(), ParseOptions::strict(), pdf::file::SyncCache::new(), pdf::file::SyncCache::new(), NoLog).map_err(|e| format!("{}", e))?;
        st.load_storage_and_trailer().map_err(|e| format!("{}", e))?;
        // the next number create() hands out is 5 (table of /Size 4 plus the trailing free entry)
        let r5 = PlainRef { id: 5, gen: 0 };
        if st.resolver().get::<Primitive>(Ref::new(r5)).is_ok() {
            return Err("object 5 exists in the witness base".into());
        }
        let new = dict_val(40, "New");
        let r = st.create(W(new.clone())).map_err(|e| format!("create: {}", e))?.get_ref().get_inner();
        if r != r5 {
            return Err(format!("create handed out {:?}, the witness expects 5 0 R", r));
        }
        let res = st.resolver();
        match res.get::<Primitive>(Ref::new(r5)) {
            Ok(v) if from_prim(&v, &res).canon() == new.canon() => Ok(()),
            Ok(v) => Err(format!("get of the created reference returns {}", from_prim(&v, &res).canon())),
            Err(e) => Err(format!("get of the reference create() just handed out fails with the error cached before the object existed: {}", err_show(&e))),
        }
    });
    // D25: a failed save must not poison later saves
    run("D25-save-after-failed-save", "D25-failed-save-leaves-promise", &|| {
        let b = witness_base(b"", false, false);
        let (mut st, mut tr) = open_plain(&b.bytes)?;
        let p = st.promise::<W>();
        let pid = p.get_inner().id;
        if st.save(&mut tr).is_ok() {
            return Err("save succeeded with an unfulfilled promise".into());
        }
        let v = dict_val(36, "New");
        st.fulfill(p, W(v.clone())).map_err(|e| format!("fulfill: {}", e))?;
        let bytes = st.save(&mut tr).map_err(|e| format!("second save, after the promise was fulfilled: {}", e))?.to_vec();
        if !bytes.starts_with(&b.bytes) {
            return Err("previous bytes are not a prefix".into());
        }
        let after = reload_canon(&bytes, pid);
        if after != v.canon() {
            return Err(format!("after reload the fulfilled promise reads {}", after));
        }
        // and an unserialisable object that is replaced
        let (mut st, mut tr) = open_plain(&witness_stream_base())?;
        let src = st.resolver().resolve(PlainRef { id: 4, gen: 0 }).map_err(|e| format!("{}", e))?;
        st.update(PlainRef { id: 3, gen: 0 }, src).map_err(|e| format!("update: {}", e))?;
        if st.save(&mut tr).is_ok() {
            return Err("save succeeded with a stream whose data is still in the file".into());
        }
        st.update(PlainRef { id: 3, gen: 0 }, W(v.clone())).map_err(|e| format!("update: {}", e))?;
        let bytes = st.save(&mut tr).map_err(|e| format!("save after the offending object was replaced: {}", e))?.to_vec();
        let after = reload_canon(&bytes, 3);
        if after != v.canon() {
            return Err(format!("after the retried save 3 0 R reads {}", after));
        }
        Ok(())
    });
    // D44: second update replaces
    run("D44-second-update", "D44-second-update-merges-dictionaries", &|| {
        let b = witness_base(b"", false, false);
        let (mut st, _tr) = open_plain(&b.bytes)?;
        let r3 = PlainRef { id: 3, gen: 0 };
        st.update(r3, W(dict_val(37, "First"))).map_err(|e| format!("{}", e))?;
        let second = dict_val(38, "Second");
        st.update(r3, W(second.clone())).map_err(|e| format!("{}", e))?;
        let got = resolved_canon(&st, 3);
        if got != second.canon() {
            return Err(format!("after update(A); update(B) the reference reads {} instead of B = {}", got, second.canon()));
        }
        Ok(())
    });
    // D45: object numbers below /Size that no section defines
    run("D45-hole-below-size", "D45-save-fails-on-undefined-number-below-size", &|| {
        let b = witness_base(b"", false, true);
        let (mut st, mut tr) = open_plain(&b.bytes)?;
        let new = dict_val(39, "New");
        st.update(PlainRef { id: 3, gen: 0 }, W(new.clone())).map_err(|e| format!("{}", e))?;
        let bytes = st.save(&mut tr).map_err(|e| format!("save of a file whose /Size 6 leaves 4 and 5 undefined: {}", e))?.to_vec();
        let after = reload_canon(&bytes, 3);
        if after != new.canon() {
            return Err(format!("after reload 3 0 R reads {}", after));
        }
        let hole = reload_canon(&bytes, 4);
        if hole != "error:N" && hole != "error:F" {
            return Err(format!("undefined object 4 reads {} after the save", hole));
        }
        Ok(())
    });
    // D46: a table beyond the reader's MAX_ID
    run("D46-table-over-max-id", "D46-save-writes-table-the-reader-refuses", &|| {
        for (size, must_save) in [(999_999u64, false), (999_997u64, false), (999_996u64, true), (999_990u64, true)] {
            let mut w = PdfWriter::new(b"", "1.7");
            w.free(0, 0, 65535);
            w.object(1, 0, b"<< /Type /Catalog /Pages 2 0 R >>");
            w.object(2, 0, b"<< /Type /Pages /Kids [] /Count 0 >>");
            w.finish(XrefFormat::Classic, size, "/Root 1 0 R", &[], 0);
            let (mut st, mut tr) = open_plain(&w.out)?;
            let v = dict_val(41, "New");
            let r = st.create(W(v.clone())).map_err(|e| format!("create: {}", e))?.get_ref().get_inner();
            match st.save(&mut tr) {
                Err(e) => {
                    if must_save {
                        return Err(format!("/Size {}: save fails although the table stays below MAX_ID: {}", size, e));
                    }
                }
                Ok(bytes) => {
                    let bytes = bytes.to_vec();
                    let after = reload_canon(&bytes, r.id);
                    if after != v.canon() {
                        return Err(format!("base /Size {}: save succeeded but the saved bytes read object {} as {}", size, r.id, after));
                    }
                }
            }
        }
        Ok(())
    });
    // D10 (repaired by the C04 package): an integer object followed by endobj
    run("D10-integer-object", "D10-no-separator-before-endobj", &|| {
        let b = witness_base(b"", false, false);
        let (mut st, mut tr) = open_plain(&b.bytes)?;
        st.update(PlainRef { id: 3, gen: 0 }, W(PVal::Int(7))).map_err(|e| format!("{}", e))?;
        let bytes = st.save(&mut tr).map_err(|e| format!("save: {}", e))?.to_vec();
        let after = reload_canon(&bytes, 3);
        if after != "7" {
            return Err(format!("after reload 3 0 R reads {}", after));
        }
        Ok(())
    });
    // late failure: `Trailer::from_dict` after the revision was appended (the catalog no longer loads)
    for (name, victim, junk) in [
        ("late-failure-root-not-a-catalog", 1u64, dict_val(50, "NoPages")),
        ("late-failure-page-tree-root-not-a-tree", 2u64, PVal::Int(7)),
    ] {
        run(name, "late-save-failure-breaks-the-document", &|| late_failure_witness(victim, &junk, false));
        run(&format!("{}-cached", name), "late-save-failure-breaks-the-document", &|| late_failure_witness(victim, &junk, true));
    }
    // an info dictionary the writer refuses (a date out of range): the save fails *before* anything is written
    run("info-date-invalid-fails-before-the-write", "save-with-unwritable-info-leaves-garbage", &|| {
        use pdf::object::InfoDict;
        use pdf::primitive::{Date, TimeRel};
        let b = witness_base(b"", false, false);
        let (mut st, mut tr) = open_plain(&b.bytes)?;
        let new3 = dict_val(54, "New");
        st.update(PlainRef { id: 3, gen: 0 }, W(new3.clone())).map_err(|e| format!("update: {}", e))?;
        let date = |month: u8| Date { year: 2024, month, day: 2, hour: 3, minute: 4, second: 5, rel: TimeRel::Universal, tz_hour: 0, tz_minute: 0 };
        tr.info_dict = Some(InfoDict { creation_date: Some(date(100)), ..Default::default() });
        if st.save(&mut tr).is_ok() {
            return Err("save succeeded with month 100 in /CreationDate".into());
        }
        if resolved_canon(&st, 3) != new3.canon() {
            return Err("the pending update is gone after the failed save".into());
        }
        tr.info_dict = Some(InfoDict { creation_date: Some(date(12)), ..Default::default() });
        let bytes = st.save(&mut tr).map_err(|e| format!("save after the date was corrected: {}", e))?.to_vec();
        if !bytes.starts_with(&b.bytes) {
            return Err("the base file is not a prefix".into());
        }
        // exactly one revision was appended: the failed attempt left nothing
        let n = bytes.windows(9).filter(|w| *w == b"startxref").count();
        if n != 2 {
            return Err(format!("{} startxref in the output, expected the base's and one more", n));
        }
        if reload_canon(&bytes, 3) != new3.canon() {
            return Err(format!("after reload 3 0 R reads {}", reload_canon(&bytes, 3)));
        }
        Ok(())
    });
    or
}

/// `save` fails after its revision was appended because object `victim` (catalog or page tree root) was replaced
/// by `junk`; the caller repairs the object and saves again
fn late_failure_witness(victim: u64, junk: &PVal, cached: bool) -> Result<(), String> {
    let b = witness_base(b"junk\n", false, false);
    let original = reload_canon(&b.bytes, victim);
    let good: PVal = if victim == 1 {
        PVal::Dict(vec![("Type".into(), PVal::Name("Catalog".into())), ("Pages".into(), PVal::Ref(2, 0)), ("Marker".into(), PVal::Int(52))])
    } else {
        PVal::Dict(vec![("Type".into(), PVal::Name("Pages".into())), ("Kids".into(), PVal::Arr(vec![])), ("Count".into(), PVal::Int(0)), ("Marker".into(), PVal::Int(53))])
    };
    let new3 = dict_val(51, "New");
    // what the backend holds after the failed save (a second, identical run: `into_inner` consumes the storage)
    let failed_backend = {
        let (mut st, mut tr) = open_plain(&b.bytes)?;
        st.update(PlainRef { id: victim, gen: 0 }, W(junk.clone())).map_err(|e| format!("update: {}", e))?;
        st.update(PlainRef { id: 3, gen: 0 }, W(new3.clone())).map_err(|e| format!("update: {}", e))?;
        if st.save(&mut tr).is_ok() {
            return Err(format!("save succeeded although {} 0 R is {}", victim, junk.canon()));
        }
        st.into_inner()
    };
    let go = |cached: bool| -> Result<(Vec<u8>, String, String), String> {
        if cached {
            let mut st = Storage::with_cache(b.bytes.clone(), ParseOptions::strict(), pdf::file::SyncCache::new(), pdf::file::SyncCache::new(), NoLog).map_err(|e| format!("{}", e))?;
            let trd = st.load_storage_and_trailer().map_err(|e| format!("{}", e))?;
            let mut tr = Trailer::from_primitive(Primitive::Dictionary(trd), &st.resolver()).map_err(|e| format!("trailer: {}", e))?;
            late_failure_steps(&mut st, &mut tr, victim, junk, &good, &new3)
        } else {
            let (mut st, mut tr) = open_plain(&b.bytes)?;
            late_failure_steps(&mut st, &mut tr, victim, junk, &good, &new3)
        }
    };
    let (bytes, mid3, midv) = go(cached)?;
    if mid3 != new3.canon() {
        return Err(format!("after the failed save 3 0 R reads {} in the open document, written {}", mid3, new3.canon()));
    }
    if midv != junk.canon() {
        return Err(format!("after the failed save {} 0 R reads {} in the open document, written {}", victim, midv, junk.canon()));
    }
    if !bytes.starts_with(&b.bytes) {
        return Err("the base file is not a prefix of the output of the retried save".into());
    }
    if !failed_backend.starts_with(&b.bytes) {
        return Err("the base file is not a prefix of the backend after the failed save".into());
    }
    if failed_backend.len() == b.bytes.len() {
        return Err("the save failed before anything was appended: this witness is about the failure after the write".into());
    }
    if !bytes.starts_with(&failed_backend) {
        return Err(format!("the backend after the failed save ({} bytes, base {}) is not a prefix of the output of the retried save ({} bytes)", failed_backend.len(), b.bytes.len(), bytes.len()));
    }
    let after3 = reload_canon(&bytes, 3);
    if after3 != new3.canon() {
        return Err(format!("after the retried save and reload 3 0 R reads {}", after3));
    }
    let afterv = reload_canon(&bytes, victim);
    if afterv != good.canon() {
        return Err(format!("after the retried save and reload {} 0 R reads {} instead of {}", victim, afterv, good.canon()));
    }
    let other = if victim == 1 { 2 } else { 1 };
    let untouched = reload_canon(&bytes, other);
    if untouched != reload_canon(&b.bytes, other) {
        return Err(format!("untouched {} 0 R changed: {}", other, untouched));
    }
    let _ = original;
    // the bytes left by the failed save: the last revision names a catalog that does not load — a reader is told
    // so (an error), it does not see a half-written file
    match open_plain(&failed_backend) {
        Ok(_) => Err("the backend left by the failed save loads although its catalog is broken".into()),
        Err(e) if e.starts_with("trailer:") => {
            // the table of that revision is complete: every object resolves as written
            let mut st = Storage::with_cache(failed_backend.clone(), ParseOptions::strict(), NoCache, NoCache, NoLog).map_err(|e| format!("{}", e))?;
            st.load_storage_and_trailer().map_err(|e| format!("table of the failed revision: {}", e))?;
            let got = resolved_canon(&st, 3);
            if got != new3.canon() {
                return Err(format!("in the bytes left by the failed save 3 0 R reads {}", got));
            }
            Ok(())
        }
        Err(e) => Err(format!("the bytes left by the failed save do not even load as a table: {}", e)),
    }
}

fn late_failure_steps<OC: Cache<OCv>, SC: Cache<SCv>>(st: &mut Storage<Vec<u8>, OC, SC, NoLog>, tr: &mut Trailer, victim: u64, junk: &PVal, good: &PVal, new3: &PVal)
    -> Result<(Vec<u8>, String, String), String> {
    st.update(PlainRef { id: victim, gen: 0 }, W(junk.clone())).map_err(|e| format!("update: {}", e))?;
    st.update(PlainRef { id: 3, gen: 0 }, W(new3.clone())).map_err(|e| format!("update: {}", e))?;
    if st.save(tr).is_ok() {
        return Err(format!("save succeeded although {} 0 R is {}", victim, junk.canon()));
    }
    let mid3 = resolved_canon(st, 3);
    let midv = resolved_canon(st, victim);
    // a second attempt without repair fails the same way and must not make things worse
    if st.save(tr).is_ok() {
        return Err("the second save succeeded without a repair".into());
    }
    st.update(PlainRef { id: victim, gen: 0 }, W(good.clone())).map_err(|e| format!("repair: {}", e))?;
    let bytes = st.save(tr).map_err(|e| format!("save after the catalog was repaired: {}", e))?.to_vec();
    Ok((bytes, mid3, midv))
}

fn witness_stream_base() -> Vec<u8> {
    let mut w = PdfWriter::new(b"", "1.7");
    w.free(0, 0, 65535);
    w.object(1, 0, b"<< /Type /Catalog /Pages 2 0 R >>");
    w.object(2, 0, b"<< /Type /Pages /Kids [] /Count 0 >>");
    w.object(3, 0, b"<< /Marker 3 >>");
    w.object(4, 0, &stream_body("/Marker 4", b"stream data"));
    w.finish(XrefFormat::Classic, 5, "/Root 1 0 R", &[], 0);
    w.out.clone()
}

pub fn run(driver: &Driver, seed: u64, thorough: bool, replay: Option<&Value>) -> Report {
    let mut rep = Report::new("C09");
    if let Some(r) = replay {
        let seed = r["seed"].as_u64().unwrap_or(seed);
        let case = r["case"].as_u64().unwrap_or(0);
        let stream = r["stream"].as_str().unwrap_or("c09.hist");
        if stream == "c09.witness" {
            rep.oracles.push(witnesses());
        } else {
            let (st, or) = histories(driver, seed, case, case + 1, stream.ends_with("outside"));
            rep.streams.push(st);
            rep.oracles.push(or);
        }
        return rep;
    }
    rep.oracles.push(witnesses());
    rep.streams.push(bytelen_stream(driver, seed, thorough));
    rep.streams.push(bytes_stream(driver, seed, if thorough { 20_000 } else { 1500 }));
    rep.streams.push(open_stream(driver, seed, if thorough { 5_000 } else { 300 }, thorough));
    let (st, or) = histories(driver, seed, 0, if thorough { 60_000 } else { 6000 }, false);
    rep.streams.push(st);
    rep.oracles.push(or);
    let (st, or) = histories(driver, seed, 0, if thorough { 6000 } else { 500 }, true);
    rep.streams.push(st);
    rep.oracles.push(or);
    let _ = NoUpdate;
    rep
}
