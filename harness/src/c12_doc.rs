//! Generated documents shared by the C12 and C13 checks, with their description in the notation of
//! `lean/PdfModel/Drv/C12.lean` (`Model/CacheDoc.lean` says what the library's typed loads do on them).
//!
//! A document is a list of objects: a catalog, page-tree nodes linked by /Parent (the typed loads that
//! nest), pages, integers, plain dictionaries, streams and image XObjects with filter chains, object
//! streams with members, free and missing numbers. Every stream is *built by encoding*: the generator
//! knows the bytes after each prefix of the filter chain without asking the library's decoders.

use crate::pdfwrite::*;
use crate::rng::Rng;

pub const F_AHX: u8 = 1;
pub const F_A85: u8 = 2;
pub const F_FLATE: u8 = 4;
pub const F_RL: u8 = 5;
pub const F_DCT: u8 = 6;

pub fn filter_name(f: u8) -> &'static str {
    match f {
        F_AHX => "ASCIIHexDecode",
        F_A85 => "ASCII85Decode",
        F_FLATE => "FlateDecode",
        F_RL => "RunLengthDecode",
        F_DCT => "DCTDecode",
        _ => "Unknown",
    }
}

pub fn fnv_hex(data: &[u8]) -> String {
    let mut h: u64 = 0xcbf29ce484222325;
    for b in data {
        h ^= *b as u64;
        h = h.wrapping_mul(0x100000001b3);
    }
    format!("{:016x}", h)
}

pub fn a85_encode(data: &[u8]) -> Vec<u8> {
    let mut out = Vec::new();
    for chunk in data.chunks(4) {
        let mut c = [0u8; 4];
        c[..chunk.len()].copy_from_slice(chunk);
        let mut n = u32::from_be_bytes(c) as u64;
        let mut d = [0u8; 5];
        for i in (0..5).rev() {
            d[i] = (n % 85) as u8 + 0x21;
            n /= 85;
        }
        out.extend_from_slice(&d[..chunk.len() + 1]);
    }
    out.extend_from_slice(b"~>");
    out
}

pub fn rl_encode(data: &[u8]) -> Vec<u8> {
    let mut out = Vec::new();
    let mut i = 0;
    while i < data.len() {
        // a run of equal bytes (2..=128) or a literal block (1..=128)
        let mut run = 1;
        while i + run < data.len() && data[i + run] == data[i] && run < 128 {
            run += 1;
        }
        if run >= 2 {
            out.push((257 - run) as u8);
            out.push(data[i]);
            i += run;
        } else {
            let start = i;
            let mut len = 1;
            while start + len < data.len() && len < 128 && !(start + len + 1 < data.len() && data[start + len] == data[start + len + 1]) {
                len += 1;
            }
            out.push((len - 1) as u8);
            out.extend_from_slice(&data[start..start + len]);
            i += len;
        }
    }
    out.push(128);
    out
}

fn encode_one(f: u8, data: &[u8]) -> Vec<u8> {
    match f {
        F_AHX => ascii_hex(data),
        F_A85 => a85_encode(data),
        F_FLATE => zlib(data),
        F_RL => rl_encode(data),
        _ => data.to_vec(),
    }
}

/// `plain`: the bytes in front of the first DCT filter (garbage for a JPEG decoder), or the fully decoded
/// data when the chain has no DCT. Returns the bytes to put into the file and the table
/// `stages[j] = Some(data after decoding j filters)` / `None` (that decoder fails).
pub fn build_stages(plain: &[u8], filters: &[u8]) -> (Vec<u8>, Vec<Option<Vec<u8>>>) {
    let k = filters.iter().position(|&f| f == F_DCT).unwrap_or(filters.len());
    let mut stages: Vec<Option<Vec<u8>>> = vec![None; filters.len() + 1];
    stages[k] = Some(plain.to_vec());
    for i in (0..k).rev() {
        let next = stages[i + 1].clone().unwrap();
        stages[i] = Some(encode_one(filters[i], &next));
    }
    (stages[0].clone().unwrap(), stages)
}

#[derive(Clone, Debug)]
pub enum GKind {
    Int(i64),
    Dict,
    Pages { parent: u64, kids: Vec<u64>, count: u64 },
    Page { parent: u64 },
    Cat { pages: u64 },
    Stream { filters: Vec<u8>, plain: Vec<u8> },
    Image { filters: Vec<u8>, plain: Vec<u8> },
    ObjStm { members: Vec<u64>, filters: Vec<u8> },
    /// annotation dictionary; `page` = /P (0: none)
    Annot { page: u64 },
    /// array object `[a 0 R b 0 R …]` (what an indirect /Annots points at)
    AnnotArr { ids: Vec<u64> },
}

/// how the /Annots entry of a page is written (the primitive kept by `Page::annotations : Lazy<_>`)
#[derive(Clone, Debug, PartialEq)]
pub enum AForm {
    Direct(Vec<u64>),
    Ref(u64),
    Absent,
}

#[derive(Clone, Debug, PartialEq)]
pub enum GPlace {
    Direct,
    InStm(u64, usize),
    Free,
}

#[derive(Clone, Debug)]
pub struct GObj {
    pub id: u64,
    pub kind: GKind,
    pub place: GPlace,
}

#[derive(Clone, Debug)]
pub struct GDoc {
    pub size: u64,
    pub root: u64,
    pub tolerant: bool,
    pub objs: Vec<GObj>,
    pub xref_stream: bool,
    /// (page, form of its /Annots)
    pub annots: Vec<(u64, AForm)>,
}

fn list(xs: &[u64]) -> String {
    if xs.is_empty() { "-".into() } else { xs.iter().map(|x| x.to_string()).collect::<Vec<_>>().join(".") }
}
fn flist(xs: &[u8]) -> String {
    if xs.is_empty() { "-".into() } else { xs.iter().map(|x| x.to_string()).collect::<Vec<_>>().join(".") }
}
fn stage_list(st: &[Option<Vec<u8>>]) -> String {
    st.iter().map(|s| match s { Some(b) => fnv_hex(b), None => "E".to_string() }).collect::<Vec<_>>().join(".")
}

impl GDoc {
    pub fn get(&self, id: u64) -> Option<&GObj> {
        self.objs.iter().find(|o| o.id == id)
    }

    fn body(&self, o: &GObj) -> Vec<u8> {
        match &o.kind {
            GKind::Int(v) => format!("{}", v).into_bytes(),
            GKind::Dict => format!("<< /Marker {} >>", o.id).into_bytes(),
            GKind::Pages { parent, kids, count } => {
                let p = if *parent != 0 { format!(" /Parent {} 0 R", parent) } else { String::new() };
                let ks: Vec<String> = kids.iter().map(|k| format!("{} 0 R", k)).collect();
                format!("<< /Type /Pages /Marker {} /MediaBox [0 0 {} 1]{} /Kids [{}] /Count {} >>", o.id, o.id, p, ks.join(" "), count).into_bytes()
            }
            GKind::Page { parent } => {
                let annots = match self.annots.iter().find(|(p, _)| *p == o.id).map(|(_, f)| f) {
                    Some(AForm::Direct(ids)) => format!(" /Annots [{}]", ids.iter().map(|i| format!("{} 0 R", i)).collect::<Vec<_>>().join(" ")),
                    Some(AForm::Ref(r)) => format!(" /Annots {} 0 R", r),
                    _ => String::new(),
                };
                format!("<< /Type /Page /Marker {} /Parent {} 0 R{} >>", o.id, parent, annots).into_bytes()
            }
            GKind::Annot { page } => {
                let p = if *page != 0 { format!(" /P {} 0 R", page) } else { String::new() };
                format!("<< /Type /Annot /Subtype /Text /Marker {}{} >>", o.id, p).into_bytes()
            }
            GKind::AnnotArr { ids } => format!("[{}]", ids.iter().map(|i| format!("{} 0 R", i)).collect::<Vec<_>>().join(" ")).into_bytes(),
            GKind::Cat { pages } => format!("<< /Type /Catalog /Version /M{} /Marker {} /Pages {} 0 R >>", o.id, o.id, pages).into_bytes(),
            GKind::Stream { filters, plain } => {
                let (data, _) = build_stages(plain, filters);
                stream_body(&format!("/Marker {}{}", o.id, filter_entry(filters)), &data)
            }
            GKind::Image { filters, plain } => {
                let (data, _) = build_stages(plain, filters);
                stream_body(&format!("/Type /XObject /Subtype /Image /Width 2 /Height 2 /BitsPerComponent 8 /Marker {}{}", o.id, filter_entry(filters)), &data)
            }
            GKind::ObjStm { members, filters } => {
                let (plain, first) = self.objstm_plain(members);
                let (data, _) = build_stages(&plain, filters);
                stream_body(&format!("/Type /ObjStm /Marker {} /N {} /First {}{}", o.id, members.len(), first, filter_entry(filters)), &data)
            }
        }
    }

    fn objstm_plain(&self, members: &[u64]) -> (Vec<u8>, usize) {
        let mut body = Vec::new();
        let mut head = String::new();
        for m in members {
            let o = self.get(*m).expect("member");
            head.push_str(&format!("{} {} ", m, body.len()));
            body.extend_from_slice(&self.body(o));
            body.push(b'\n');
        }
        let first = head.len();
        let mut data = head.into_bytes();
        data.extend_from_slice(&body);
        (data, first)
    }

    pub fn stages(&self, o: &GObj) -> Vec<Option<Vec<u8>>> {
        match &o.kind {
            GKind::Stream { filters, plain } | GKind::Image { filters, plain } => build_stages(plain, filters).1,
            GKind::ObjStm { members, filters } => build_stages(&self.objstm_plain(members).0, filters).1,
            _ => vec![],
        }
    }

    pub fn filters(&self, id: u64) -> Vec<u8> {
        match self.get(id).map(|o| &o.kind) {
            Some(GKind::Stream { filters, .. }) | Some(GKind::Image { filters, .. }) | Some(GKind::ObjStm { filters, .. }) => filters.clone(),
            _ => vec![],
        }
    }

    /// the PDF file
    pub fn bytes(&self) -> Vec<u8> {
        let mut w = PdfWriter::new(b"", "1.7");
        w.free(0, 0, 65535);
        for o in &self.objs {
            match o.place {
                GPlace::Direct => {
                    let b = self.body(o);
                    w.object(o.id, 0, &b);
                    if let GKind::ObjStm { members, .. } = &o.kind {
                        for (i, m) in members.iter().enumerate() {
                            w.record(*m, Entry::Compressed { stm: o.id, idx: i as u64 });
                        }
                    }
                }
                GPlace::Free => w.free(o.id, 0, 1),
                GPlace::InStm(..) => {}
            }
        }
        let fmt = if self.xref_stream { XrefFormat::Stream } else { XrefFormat::Classic };
        w.finish(fmt, self.size, &format!("/Root {} 0 R", self.root), &[], self.size - 1);
        w.out
    }

    /// `<size> <root> <objs>` in the notation of Drv/C12.lean
    pub fn desc(&self) -> String {
        let objs: Vec<String> = self.objs.iter().map(|o| {
            let place = match o.place {
                GPlace::Direct => "d".to_string(),
                GPlace::Free => "f".to_string(),
                GPlace::InStm(s, i) => format!("s{}.{}", s, i),
            };
            let kind = match &o.kind {
                GKind::Int(v) => format!("i,{}", v),
                GKind::Dict => "d".to_string(),
                GKind::Pages { parent, kids, count } => format!("P,{},{},{}", parent, list(kids), count),
                GKind::Page { parent } => format!("p,{}", parent),
                GKind::Annot { page } => format!("A,{}", page),
                GKind::AnnotArr { ids } => format!("V,{}", list(ids)),
                GKind::Cat { pages } => format!("c,{}", pages),
                GKind::Stream { filters, .. } => format!("S,{},{}", flist(filters), stage_list(&self.stages(o))),
                GKind::Image { filters, .. } => format!("X,{},{}", flist(filters), stage_list(&self.stages(o))),
                GKind::ObjStm { members, filters } => format!("O,{},{},{}", members.len(), flist(filters), stage_list(&self.stages(o))),
            };
            format!("{},{},{}", o.id, place, kind)
        }).collect();
        format!("{} {} {}", self.size, self.root, if objs.is_empty() { "-".to_string() } else { objs.join(";") })
    }

    /// `<page>:a:<ids>;<page>:r:<id>;<page>:n` — the cells of `c13.lazy`, in the order of `self.annots`
    pub fn cells_desc(&self) -> String {
        if self.annots.is_empty() { return "-".into(); }
        self.annots.iter().map(|(p, f)| match f {
            AForm::Direct(ids) => format!("{}:a:{}", p, list(ids)),
            AForm::Ref(r) => format!("{}:r:{}", p, r),
            AForm::Absent => format!("{}:n", p),
        }).collect::<Vec<_>>().join(";")
    }

    /// is the /Parent relation (the nested typed loads) free of cycles?
    pub fn acyclic(&self) -> bool {
        for o in &self.objs {
            let mut cur = o.id;
            let mut steps = 0;
            loop {
                let next = match self.get(cur).map(|x| &x.kind) {
                    Some(GKind::Pages { parent, .. }) if *parent != 0 => *parent,
                    Some(GKind::Page { parent }) => *parent,
                    Some(GKind::Cat { pages }) => *pages,
                    _ => break,
                };
                cur = next;
                steps += 1;
                if steps > self.objs.len() + 1 {
                    return false;
                }
            }
        }
        true
    }
}

fn filter_entry(filters: &[u8]) -> String {
    match filters.len() {
        0 => String::new(),
        1 => format!(" /Filter /{}", filter_name(filters[0])),
        _ => format!(" /Filter [{}]", filters.iter().map(|f| format!("/{}", filter_name(*f))).collect::<Vec<_>>().join(" ")),
    }
}

pub struct GenOpts {
    /// make the /Parent links of the page tree cyclic (D43 / D30 territory)
    pub cyclic: bool,
    /// /Parent links that point at a page, an integer, a plain dictionary (type errors, never dangling)
    pub odd_parents: bool,
    pub objstms: bool,
}

fn rand_chain(rng: &mut Rng, image: bool) -> Vec<u8> {
    let plain_filters = [F_AHX, F_A85, F_FLATE, F_RL];
    if image {
        // the shapes raw_image_data distinguishes
        match rng.below(10) {
            0 => vec![],
            1 => vec![F_FLATE],
            2 => vec![F_AHX, F_FLATE],
            3 => vec![F_DCT],
            4 => vec![F_A85, F_DCT],
            5 => vec![F_RL],
            6 => vec![F_FLATE, F_AHX],
            7 => vec![F_FLATE, F_FLATE],
            8 => vec![F_FLATE, F_DCT],
            _ => vec![F_A85, F_RL, F_FLATE],
        }
    } else {
        let n = rng.usize(4);
        let mut v: Vec<u8> = (0..n).map(|_| *rng.pick(&plain_filters)).collect();
        if rng.chance(1, 6) {
            v.push(F_DCT);
        }
        v
    }
}

fn rand_plain(rng: &mut Rng) -> Vec<u8> {
    let n = 1 + rng.usize(40);
    if rng.chance(1, 3) {
        // runs, so that RunLength has something to do
        let mut v = Vec::new();
        while v.len() < n {
            let b = rng.byte();
            let r = 1 + rng.usize(6);
            v.extend(std::iter::repeat(b).take(r));
        }
        v
    } else {
        rng.bytes(n)
    }
}

/// A random document. Object 1 is the catalog, object 2 the root of the page tree.
pub fn gen_doc(rng: &mut Rng, opts: &GenOpts) -> GDoc {
    let mut objs: Vec<GObj> = vec![];
    let mut next = 3u64;
    // page tree: nodes[0] = 2 is the root
    let n_inner = rng.usize(4);
    let mut nodes: Vec<u64> = vec![2];
    let mut parent_of: Vec<(u64, u64)> = vec![]; // (node, parent)
    for _ in 0..n_inner {
        let id = next;
        next += 1;
        let p = *rng.pick(&nodes);
        parent_of.push((id, p));
        nodes.push(id);
    }
    let n_leaves = 1 + rng.usize(4);
    let mut leaves: Vec<(u64, u64)> = vec![];
    for _ in 0..n_leaves {
        let id = next;
        next += 1;
        leaves.push((id, *rng.pick(&nodes)));
    }
    // kids and counts
    let kids_of = |n: u64| -> Vec<u64> {
        let mut k: Vec<u64> = parent_of.iter().filter(|(_, p)| *p == n).map(|(c, _)| *c).collect();
        k.extend(leaves.iter().filter(|(_, p)| *p == n).map(|(c, _)| *c));
        k.sort();
        k
    };
    fn count_of(n: u64, parent_of: &[(u64, u64)], leaves: &[(u64, u64)]) -> u64 {
        let mut c = leaves.iter().filter(|(_, p)| *p == n).count() as u64;
        for (ch, p) in parent_of {
            if *p == n {
                c += count_of(*ch, parent_of, leaves);
            }
        }
        c
    }
    // other objects first, so that odd parents can point at them
    let n_int = 1 + rng.usize(3);
    let mut ints = vec![];
    for _ in 0..n_int {
        ints.push(next);
        objs.push(GObj { id: next, kind: GKind::Int(1000 + next as i64), place: GPlace::Direct });
        next += 1;
    }
    let n_dict = 1 + rng.usize(2);
    let mut dicts = vec![];
    for _ in 0..n_dict {
        dicts.push(next);
        objs.push(GObj { id: next, kind: GKind::Dict, place: GPlace::Direct });
        next += 1;
    }
    let n_stream = 1 + rng.usize(3);
    for _ in 0..n_stream {
        objs.push(GObj { id: next, kind: GKind::Stream { filters: rand_chain(rng, false), plain: rand_plain(rng) }, place: GPlace::Direct });
        next += 1;
    }
    let n_img = 1 + rng.usize(2);
    for _ in 0..n_img {
        objs.push(GObj { id: next, kind: GKind::Image { filters: rand_chain(rng, true), plain: rand_plain(rng) }, place: GPlace::Direct });
        next += 1;
    }
    // the tree
    let mut root_parent = 0u64;
    if opts.cyclic && !parent_of.is_empty() {
        root_parent = parent_of[rng.usize(parent_of.len())].0;
    }
    objs.push(GObj { id: 1, kind: GKind::Cat { pages: 2 }, place: GPlace::Direct });
    for &n in &nodes {
        let mut parent = if n == 2 { root_parent } else { parent_of.iter().find(|(c, _)| *c == n).unwrap().1 };
        if opts.odd_parents && n != 2 && rng.chance(1, 5) {
            parent = match rng.below(3) {
                0 => leaves[rng.usize(leaves.len())].0,
                1 => ints[rng.usize(ints.len())],
                _ => dicts[rng.usize(dicts.len())],
            };
        }
        objs.push(GObj { id: n, kind: GKind::Pages { parent, kids: kids_of(n), count: count_of(n, &parent_of, &leaves) }, place: GPlace::Direct });
    }
    for &(l, p) in &leaves {
        let mut parent = p;
        if opts.odd_parents && rng.chance(1, 8) {
            parent = match rng.below(2) {
                0 => ints[rng.usize(ints.len())],
                _ => leaves[rng.usize(leaves.len())].0,
            };
            if parent == l {
                parent = p;
            }
        }
        objs.push(GObj { id: l, kind: GKind::Page { parent }, place: GPlace::Direct });
    }
    // object streams: move some non-stream objects into them
    let mut xref_stream = rng.chance(1, 2);
    if opts.objstms && rng.chance(2, 3) {
        let n_stm = 1 + rng.usize(2);
        for _ in 0..n_stm {
            let sid = next;
            next += 1;
            let mut members = vec![];
            for o in objs.iter_mut() {
                let movable = matches!(o.kind, GKind::Int(_) | GKind::Dict | GKind::Pages { .. } | GKind::Page { .. } | GKind::Cat { .. });
                if movable && o.place == GPlace::Direct && rng.chance(1, 3) {
                    o.place = GPlace::InStm(sid, members.len());
                    members.push(o.id);
                }
            }
            let filters = match rng.below(5) {
                0 => vec![],
                1 => vec![F_FLATE],
                2 => vec![F_AHX, F_FLATE],
                3 => vec![F_A85],
                _ => vec![F_RL],
            };
            objs.push(GObj { id: sid, kind: GKind::ObjStm { members, filters }, place: GPlace::Direct });
            xref_stream = true;
        }
    }
    if rng.chance(1, 2) {
        objs.push(GObj { id: next, kind: GKind::Int(0), place: GPlace::Free });
        next += 1;
    }
    if rng.chance(1, 2) {
        next += 1; // a number that no section mentions
    }
    let size = next + 1; // the last number is kept for the cross-reference stream
    objs.sort_by_key(|o| o.id);
    GDoc { size, root: 1, tolerant: rng.chance(1, 2), objs, xref_stream, annots: vec![] }
}
