//! C14 — hostile but well-formed object graphs end in an error, not a crash. (work in progress)

#[path = "walker.rs"]
pub mod walker;

use crate::driver::Driver;
use crate::pdfwrite::*;
use crate::report::*;
use serde_json::json;
use walker::*;

pub fn build_doc(objs: &[(u64, Vec<u8>)], trailer_extra: &str) -> Vec<u8> {
    let mut w = PdfWriter::new(b"", "1.7");
    w.free(0, 0, 65535);
    let mut max = 0;
    for (id, body) in objs {
        w.object(*id, 0, body);
        max = max.max(*id);
    }
    w.finish(XrefFormat::Classic, max + 1, trailer_extra, &[], 0);
    w.out
}

pub fn base_objects() -> Vec<(u64, Vec<u8>)> {
    let content = b"BT /F1 12 Tf (hi) Tj ET";
    vec![
        (1, b"<< /Type /Catalog /Pages 2 0 R >>".to_vec()),
        (2, b"<< /Type /Pages /Kids [3 0 R] /Count 1 /MediaBox [0 0 100 100] /Resources << /Font << /F1 5 0 R >> >> >>".to_vec()),
        (3, b"<< /Type /Page /Parent 2 0 R /Contents 4 0 R >>".to_vec()),
        (4, stream_body("", content)),
        (5, b"<< /Type /Font /Subtype /Type1 /BaseFont /Helvetica /FirstChar 32 /Widths [500.0 600.0] >>".to_vec()),
    ]
}

pub fn run(_driver: &Driver, _seed: u64, _thorough: bool, replay: Option<&serde_json::Value>) -> Report {
    if let Some(r) = replay {
        maybe_child(r);
    }
    let mut rep = Report::new("C14");
    let mut or = Oracle::new("c14.walk");
    let doc = build_doc(&base_objects(), "/Root 1 0 R");
    let docs: Vec<Doc> = [(false, false), (true, false), (false, true), (true, true)].iter().map(|&(t, c)| Doc { bytes: doc.clone(), tolerant: t, cached: c }).collect();
    let res = run_batch("C14", &docs, Limits::default());
    for (d, r) in docs.iter().zip(res.iter()) {
        or.case("base", true, || json!({"outcome": format!("{:?}", r.outcome), "calls": r.calls}));
        if r.outcome != Outcome::Returned {
            or.fail("walk", &format!("{:?}", r.outcome), json!({"hex": crate::driver::hex(&d.bytes)}));
        }
        for (k, v) in &r.calls {
            for _ in 0..*v { or.count(k); }
        }
    }
    rep.oracles.push(or);
    rep
}
