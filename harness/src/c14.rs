//! C14 — hostile but well-formed object graphs end in an error, not a crash.
//!
//! Oracle (the real library against the property itself):
//!   c14.walk      planted documents (c14_plant.rs: per schema fragment every reference field pointed at
//!                 every object, every numeric field at the boundary values) × {strict, tolerant} ×
//!                 {cached, uncached}, each walked by `walker.rs` in a child process with stack, time and
//!                 address-space limits. Failure = panic, process death (stack overflow, abort, allocation
//!                 failure) or time-out. Deterministic witnesses of the fixed defects and of the open
//!                 findings run first.
//! Correspondence streams (model = lean/PdfModel/Model/TypedLoad.lean, Numeric.lean): see `corr` below.

#[path = "walker.rs"]
pub mod walker;
#[path = "c14_plant.rs"]
pub mod plant;
#[path = "c14_corr.rs"]
mod corr;
#[path = "c14_guards.rs"]
pub mod guards;
#[path = "c14_numeric.rs"]
pub mod numeric;
#[path = "c14_corr_num.rs"]
mod corr_num;

use crate::driver::Driver;
use crate::report::*;
use crate::rng::Rng;
use plant::*;
use serde_json::json;
use walker::*;

pub const CONFIGS: [(bool, bool); 4] = [(false, false), (true, false), (false, true), (true, true)];

fn cfg_name(t: bool, c: bool) -> String {
    format!("{}/{}", if t { "tolerant" } else { "strict" }, if c { "cached" } else { "uncached" })
}

/// After this many documents that cost a time-out or a dead child process the search stops: the verdict
/// is a violation anyway, and every further one costs seconds.
const EXPENSIVE_FAILURES: usize = 12;

/// Walk many documents in parallel child processes. The first `keep_first` documents (the deterministic
/// witnesses) are walked first, the others in a scattered order (so that documents of one kind, which
/// fail together, are spread over the workers), in batches of 32. `None`: not walked because the search
/// was stopped after `EXPENSIVE_FAILURES` time-outs / crashes.
pub fn walk_some(docs: &[Doc], limits: Limits, keep_first: usize) -> Vec<Option<DocResult>> {
    let n = docs.len();
    let threads = std::thread::available_parallelism().map(|n| n.get()).unwrap_or(4).clamp(2, 8);
    // order: witnesses, then a stride permutation of the rest
    let mut order: Vec<usize> = (0..keep_first.min(n)).collect();
    let rest = n - order.len();
    if rest > 0 {
        let mut stride = 7919usize;
        while gcd(stride, rest) != 1 {
            stride += 1;
        }
        order.extend((0..rest).map(|i| keep_first + (i * stride) % rest));
    }
    // small batches for the witnesses (those of one defect fail together and each failure costs seconds)
    let kf = keep_first.min(n);
    let mut batches: Vec<&[usize]> = order[..kf].chunks(4).collect();
    batches.extend(order[kf..].chunks(32));
    let next = std::sync::atomic::AtomicUsize::new(0);
    let expensive = std::sync::atomic::AtomicUsize::new(0);
    let results: std::sync::Mutex<Vec<Option<DocResult>>> = std::sync::Mutex::new(vec![None; n]);
    std::thread::scope(|s| {
        for _ in 0..threads {
            s.spawn(|| loop {
                let i = next.fetch_add(1, std::sync::atomic::Ordering::SeqCst);
                if i >= batches.len() || expensive.load(std::sync::atomic::Ordering::SeqCst) >= EXPENSIVE_FAILURES {
                    break;
                }
                let batch: Vec<Doc> = batches[i].iter().map(|k| docs[*k].clone()).collect();
                let r = run_batch("C14", &batch, limits);
                let bad = r.iter().filter(|x| matches!(x.outcome, Outcome::Timeout | Outcome::Crash { .. })).count();
                expensive.fetch_add(bad, std::sync::atomic::Ordering::SeqCst);
                let mut g = results.lock().unwrap();
                for (k, x) in batches[i].iter().zip(r.into_iter()) {
                    g[*k] = Some(x);
                }
            });
        }
    });
    results.into_inner().unwrap()
}

fn gcd(a: usize, b: usize) -> usize {
    if b == 0 { a } else { gcd(b, a % b) }
}

/// all documents, in order
pub fn walk_all(docs: &[Doc], limits: Limits) -> Vec<DocResult> {
    walk_some(docs, limits, docs.len()).into_iter().map(|r| r.unwrap_or(DocResult { outcome: Outcome::NotRun("search stopped".into()), ms: 0, calls: Default::default(), peak_bytes: 0, decoded_bytes: 0 })).collect()
}

fn custom_docs(thorough: bool, rng: &mut Rng) -> Vec<Planted> {
    let mut out = vec![];
    let b = BOUNDARY;
    // every document below is written behind 0, 13 and SECTION_SPACING junk bytes
    for px in [0usize, 13, SECTION_SPACING] {
        let mut push = |frag: &'static str, desc: String, bytes: Vec<u8>| out.push(Planted { frag, desc: if px == 0 { desc } else { format!("{}|prefix={}", desc, px) }, bytes });
        // ---- cross-reference stream numerics: /W, /Index, /Size, /Prev
        let b = BOUNDARY;
        push("xref-stream", "default".into(), xref_stream_doc_at(px, ["1", "4", "2"], None, "5", [1, 4, 2], 0, None));
        for k in 0..3 {
            for v in b.iter() {
                let mut w = ["1", "4", "2"];
                w[k] = v;
                push("xref-stream", format!("W[{}]={}", k, v), xref_stream_doc_at(px, w, None, "5", [1, 4, 2], 0, None));
                push("xref-stream", format!("W[{}]={} index 0 2147483647", k, v), xref_stream_doc_at(px, w, Some("0 2147483647"), "5", [1, 4, 2], 0, None));
            }
        }
        for v in b.iter() {
            push("xref-stream", format!("W=all {}", v), xref_stream_doc_at(px, [v, v, v], None, "5", [1, 4, 2], 0, None));
            push("xref-stream", format!("W=all {} index 0 2147483647", v), xref_stream_doc_at(px, [v, v, v], Some("0 2147483647"), "5", [1, 4, 2], 0, None));
            push("xref-stream", format!("Size={}", v), xref_stream_doc_at(px, ["1", "4", "2"], None, v, [1, 4, 2], 0, None));
            push("xref-stream", format!("Prev={}", v), xref_stream_doc_at(px, ["1", "4", "2"], None, "5", [1, 4, 2], 0, Some(v)));
            for v2 in b.iter() {
                push("xref-stream", format!("Index={} {}", v, v2), xref_stream_doc_at(px, ["1", "4", "2"], Some(&format!("{} {}", v, v2)), "5", [1, 4, 2], 0, None));
            }
            push("xref-stream", format!("Index odd {}", v), xref_stream_doc_at(px, ["1", "4", "2"], Some(&format!("0 1 {}", v)), "5", [1, 4, 2], 0, None));
        }
        push("xref-stream", "W=0 0 0 count 2147483647".into(), xref_stream_doc_at(px, ["0", "0", "0"], Some("0 2147483647"), "5", [1, 4, 2], 0, None));
        push("xref-stream", "W=0 0 0 count 2147483647 size 1000000".into(), xref_stream_doc_at(px, ["0", "0", "0"], Some("0 2147483647"), "1000000", [1, 4, 2], 0, None));
        push("xref-stream", "W=8 8 8".into(), xref_stream_doc_at(px, ["8", "8", "8"], None, "5", [8, 8, 8], 0, None));
        push("xref-stream", "W=9 1 1".into(), xref_stream_doc_at(px, ["9", "1", "1"], None, "5", [1, 4, 2], 8, None));
        push("xref-stream", "W=0 4 2 (type defaults to 1)".into(), xref_stream_doc_at(px, ["0", "4", "2"], None, "5", [0, 4, 2], 0, None));
        push("xref-stream", "W short array".into(), xref_stream_doc_at(px, ["1", "4", "2 7"], None, "5", [1, 4, 2], 0, None));

        // ---- object streams
        let member = |n: &str, first: &str, header: &str, body: &[u8]| ObjStmSpec { n: n.into(), first: first.into(), header: header.into(), body: body.to_vec(), extends: None };
        let good = member("2", "10", "20 0 21 3 ", b"11 [22] ");
        let mem = [(20u64, 10u64, 0u64), (21, 10, 1)];
        push("objstm", "default".into(), objstm_doc_at(px, &good, None, &mem, None, None));
        push("objstm", "stream 10 stored in itself".into(), objstm_doc_at(px, &good, None, &mem, Some((10, 0)), None));
        push("objstm", "stream 10 stored in itself at index 1".into(), objstm_doc_at(px, &good, None, &mem, Some((10, 1)), None));
        let other = member("1", "5", "30 0 ", b"77 ");
        push("objstm", "10 in 11, 11 in 10".into(), objstm_doc_at(px, &good, Some(&other), &mem, Some((11, 0)), Some((10, 0))));
        push("objstm", "10 in 11 (11 plain)".into(), objstm_doc_at(px, &good, Some(&other), &mem, Some((11, 0)), None));
        push("objstm", "member in a stream that is not an object stream".into(), objstm_doc_at(px, &good, None, &[(20, 3, 0), (21, 1, 0)], None, None));
        push("objstm", "member in a missing stream, huge index".into(), objstm_doc_at(px, &good, None, &[(20, 15, 0), (21, 10, 65535)], None, None));
        let mut ext = member("2", "10", "20 0 21 3 ", b"11 [22] ");
        ext.extends = Some(10);
        push("objstm", "extends itself".into(), objstm_doc_at(px, &ext, None, &mem, None, None));
        for v in b.iter() {
            push("objstm", format!("N={}", v), objstm_doc_at(px, &member(v, "10", "20 0 21 3 ", b"11 [22] "), None, &mem, None, None));
            push("objstm", format!("First={}", v), objstm_doc_at(px, &member("2", v, "20 0 21 3 ", b"11 [22] "), None, &mem, None, None));
            push("objstm", format!("offset0={}", v), objstm_doc_at(px, &member("2", "10", &format!("20 {} 21 3 ", v), b"11 [22] "), None, &mem, None, None));
            push("objstm", format!("offset1={}", v), objstm_doc_at(px, &member("2", "10", &format!("20 0 21 {} ", v), b"11 [22] "), None, &mem, None, None));
            push("objstm", format!("objnr={}", v), objstm_doc_at(px, &member("2", "10", &format!("{} 0 21 3 ", v), b"11 [22] "), None, &mem, None, None));
            for v2 in b.iter() {
                if thorough || rng.chance(1, 3) {
                    push("objstm", format!("First={} offset1={}", v, v2), objstm_doc_at(px, &member("2", v, &format!("20 0 21 {} ", v2), b"11 [22] "), None, &mem, None, None));
                }
            }
        }
        push("objstm", "First=2147483647 offset0=18446744073709551615".into(), objstm_doc_at(px, &member("2", "2147483647", "20 18446744073709551615 21 3 ", b"11 [22] "), None, &mem, None, None));
        push("objstm", "First=1 offset1=18446744073709551615".into(), objstm_doc_at(px, &member("2", "1", "20 0 21 18446744073709551615 ", b"11 [22] "), None, &mem, None, None));
        push("objstm", "offsets decreasing".into(), objstm_doc_at(px, &member("2", "10", "20 5 21 0 ", b"11 [22] "), None, &mem, None, None));

    }
    let mut push = |frag: &'static str, desc: String, bytes: Vec<u8>| out.push(Planted { frag, desc, bytes });

    // ---- /Prev chains and startxref, behind junk prefixes. Every number in the file is relative to the
    // header; `+prefix` / `-prefix` values are what a writer (or a reader) gets when it mixes the two
    // coordinate systems. Sections start SECTION_SPACING bytes apart: with a prefix of that length a wrongly
    // based offset lands on the neighbouring section.
    let d = SECTION_SPACING as i64;
    for px in [0usize, 1, 13, SECTION_SPACING, 2 * SECTION_SPACING, 1019] {
        let pxi = px as i64;
        for stream in [false, true] {
            let mut chains: Vec<(String, Vec<Pv>, Pv)> = vec![
                ("none".into(), vec![Pv::None], Pv::Sec(0)),
                ("self".into(), vec![Pv::Sec(0)], Pv::Sec(0)),
                ("two, second to first".into(), vec![Pv::Sec(1), Pv::Sec(0)], Pv::Sec(0)),
                ("two, second to itself".into(), vec![Pv::Sec(1), Pv::Sec(1)], Pv::Sec(0)),
                ("three in a ring".into(), vec![Pv::Sec(1), Pv::Sec(2), Pv::Sec(0)], Pv::Sec(0)),
                ("three, last to middle".into(), vec![Pv::Sec(1), Pv::Sec(2), Pv::Sec(1)], Pv::Sec(0)),
                ("chain of 3".into(), vec![Pv::Sec(1), Pv::Sec(2), Pv::None], Pv::Sec(0)),
                ("four in a ring".into(), vec![Pv::Sec(1), Pv::Sec(2), Pv::Sec(3), Pv::Sec(0)], Pv::Sec(0)),
                ("four, ring of the last three".into(), vec![Pv::Sec(1), Pv::Sec(2), Pv::Sec(3), Pv::Sec(1)], Pv::Sec(0)),
                // offsets in the wrong coordinate system
                ("prev absolute".into(), vec![Pv::SecPlus(1, pxi), Pv::None], Pv::Sec(0)),
                ("prev absolute, ring".into(), vec![Pv::SecPlus(1, pxi), Pv::SecPlus(0, pxi)], Pv::Sec(0)),
                ("prev minus prefix, ring".into(), vec![Pv::SecPlus(1, -pxi), Pv::SecPlus(0, -pxi)], Pv::Sec(0)),
                ("prev one section off, ring".into(), vec![Pv::SecPlus(1, d), Pv::SecPlus(1, -d), Pv::Sec(0)], Pv::Sec(0)),
                ("startxref absolute".into(), vec![Pv::Sec(1), Pv::None], Pv::SecPlus(0, pxi)),
                ("startxref minus prefix".into(), vec![Pv::Sec(1), Pv::Sec(0)], Pv::SecPlus(0, -pxi)),
                ("startxref at the older section".into(), vec![Pv::Sec(1), Pv::Sec(0)], Pv::Sec(1)),
                ("startxref one byte off".into(), vec![Pv::Sec(0)], Pv::SecPlus(0, 1)),
            ];
            for v in b.iter() {
                chains.push((format!("Prev={}", v), vec![Pv::Lit(v.to_string())], Pv::Sec(0)));
                chains.push((format!("second Prev={}", v), vec![Pv::Sec(1), Pv::Lit(v.to_string())], Pv::Sec(0)));
                chains.push((format!("startxref={}", v), vec![Pv::Sec(0)], Pv::Lit(v.to_string())));
                // 2^64 - 1 - prefix + k: `start_offset + offset` wraps or just does not
                if let Ok(n) = v.parse::<u64>() {
                    chains.push((format!("Prev={}-prefix", v), vec![Pv::Lit(n.wrapping_sub(px as u64).to_string())], Pv::Sec(0)));
                }
            }
            for (name, prevs, sx) in chains {
                let doc = prev_doc_at(px, &prevs, stream, &sx);
                push("prev", format!("{} stream={}|prefix={}", name, stream, px), doc.bytes);
            }
        }
    }

    // ---- entries of the table: the offset of one object pointed everywhere, classic table and stream
    // (8-byte offset field), behind junk prefixes
    for px in [0usize, 1, 13, 200, 1019] {
        let pxi = px as i64;
        for stream in [false, true] {
            for victim in [1u64, 2, 3, 5] {
                let mut offsets: Vec<(String, Off)> = vec![
                    ("true".into(), Off::Of(victim)),
                    ("absolute".into(), Off::OfPlus(victim, pxi)),
                    ("minus prefix".into(), Off::OfPlus(victim, -pxi)),
                    ("one byte early".into(), Off::OfPlus(victim, -1)),
                    ("one byte late".into(), Off::OfPlus(victim, 1)),
                    ("inside its dictionary".into(), Off::OfPlus(victim, 12)),
                ];
                for other in [1u64, 2, 3, 5] {
                    if other != victim {
                        offsets.push((format!("of object {}", other), Off::Of(other)));
                    }
                }
                for v in [0u64, 9, 15, 2147483647, 4294967295, 9999999999, 1 << 63, u64::MAX - 1019, u64::MAX - px as u64, (u64::MAX - px as u64).wrapping_add(1), u64::MAX] {
                    // a classic table cannot hold more than the reader's usize parse accepts: still written
                    offsets.push((format!("{}", v), Off::Lit(v)));
                }
                for (name, off) in offsets {
                    if !thorough && px != 0 && px != 13 && !name.contains("prefix") && !name.contains("absolute") && !name.starts_with("1844") && !name.starts_with("922") { continue; }
                    push("xref-offsets", format!("object {} offset {} stream={}|prefix={}", victim, name, stream, px), xref_offsets_doc(px, stream, victim, &off, None));
                }
            }
            let mut sxs: Vec<String> = vec!["@X".into(), "0".into(), "15".into(), "-1".into(), "@x junk".into(), "junk".into()];
            sxs.extend(b.iter().map(|v| v.to_string()));
            for sx in sxs {
                push("xref-offsets", format!("startxref {} stream={}|prefix={}", sx, stream, px), xref_offsets_doc(px, stream, 99, &Off::Lit(0), Some(&sx)));
            }
        }
    }
    let _ = thorough;
    out
}

pub struct Gen {
    pub docs: Vec<Planted>,
    pub exhaustive: Vec<(String, bool, usize)>,
}

pub fn generate(seed: u64, thorough: bool) -> Gen {
    let mut rng = Rng::derive(seed, "c14.plant", 0);
    let mut docs: Vec<Planted> = vec![];
    let mut exhaustive = vec![];
    let k = if thorough { 4 } else { 3 };
    let lim = if thorough { 70_000 } else { 3_000 };
    let joint = if thorough { 2_000 } else { 60 };
    // Every document is generated in the plain layout (header at byte 0, classic table, objects stored
    // directly). In addition every `every`-th one is generated again in one of these layouts, in turn:
    // junk before the header (all offsets then differ from buffer positions) and / or the plain objects
    // stored in an object stream behind a cross-reference stream.
    let variants = [
        Variant { prefix: 9, compressed: false },
        Variant { prefix: 0, compressed: true },
        Variant { prefix: SECTION_SPACING, compressed: false },
        Variant { prefix: 200, compressed: true },
        Variant { prefix: 1019, compressed: false },
    ];
    let every = if thorough { 2 } else { 6 };
    let mut add_v = |f: Frag, limit: usize, joint: usize, every: usize, rng: &mut Rng, docs: &mut Vec<Planted>| {
        let (d, ex) = f.enumerate_with(limit, joint, rng, &variants, every);
        exhaustive.push((f.name.to_string(), ex, d.len()));
        docs.extend(d);
    };
    let mut add = |f: Frag, limit: usize, joint: usize, rng: &mut Rng, docs: &mut Vec<Planted>| add_v(f, limit, joint, every, rng, docs);
    add(pagetree(k), lim, joint, &mut rng, &mut docs);
    if !thorough {
        // the 4-object page tree is sampled in the quick tier
        add(pagetree(4), 150, 30, &mut rng, &mut docs);
    }
    // quick: every node one kid / the root two kids exhaustively, two kids everywhere sampled
    add(tree(k, false, false), lim, 0, &mut rng, &mut docs);
    if !thorough {
        add(tree(k, false, true), 1_500, 0, &mut rng, &mut docs);
    }
    add(tree(k, true, false), if thorough { lim } else { 400 }, 0, &mut rng, &mut docs);
    if !thorough {
        add(tree(4, false, false), 150, 0, &mut rng, &mut docs);
    }
    add(tree_numbers(), 10, joint, &mut rng, &mut docs);
    add(outlines(k), if thorough { 20_000 } else { 200 }, joint, &mut rng, &mut docs);
    add(fonts(k), if thorough { lim } else { 1_300 }, if thorough { 2_000 } else { 100 }, &mut rng, &mut docs);
    add(font_numbers(), 10, joint, &mut rng, &mut docs);
    add(font_widths(), 100, 0, &mut rng, &mut docs);
    add(encoding_differences(), 10, joint / 2, &mut rng, &mut docs);
    add(colorspaces(k), if thorough { lim } else { 5_500 }, if thorough { 2_000 } else { 100 }, &mut rng, &mut docs);
    add(colorspace_numbers(), 10, 10, &mut rng, &mut docs);
    for n in [1, 4, 5, 6, 7, 19, 20, 21] {
        docs.push(colorspace_depth(n));
    }
    drop(add);
    add_v(stream_lengths(), 3_000, 0, if thorough { 1 } else { 2 }, &mut rng, &mut docs);
    add_v(trailer_refs(), if thorough { 6_000 } else { 300 }, 0, 1, &mut rng, &mut docs);
    let mut add = |f: Frag, limit: usize, joint: usize, rng: &mut Rng, docs: &mut Vec<Planted>| add_v(f, limit, joint, every, rng, docs);
    add(ref_chains(), if thorough { 80_000 } else { 600 }, 0, &mut rng, &mut docs);
    docs.extend(functions());
    add(annotations(k), if thorough { lim } else { 1_200 }, if thorough { 2_000 } else { 100 }, &mut rng, &mut docs);
    for kind in ["nametree", "numbertree", "fonts"] {
        for levels in [3, 12, 40, 70] {
            docs.push(ladder(kind, levels));
        }
    }
    for kind in ["parents", "fonts"] {
        for n in [20, 70, 3000] {
            docs.push(deep_chain(kind, n));
        }
    }
    add(page_numbers(), 10, joint, &mut rng, &mut docs);
    for n in [1, 18, 19, 20, 21, 22, 200, 20_000] {
        docs.push(parser_depth(n, false));
        docs.push(parser_depth(n, true));
    }
    add(images(), 10, joint, &mut rng, &mut docs);
    add(predictor(), 10, joint / 2, &mut rng, &mut docs);
    add(runlength(), 10, 0, &mut rng, &mut docs);
    add(crypt(), 10, joint / 2, &mut rng, &mut docs);
    drop(add);
    // two hostile constructs in one document, in three layouts
    let ks = kits();
    for i in 0..ks.len() {
        for j in i + 1..ks.len() {
            for v in [PLAIN, Variant { prefix: 77, compressed: true }, Variant { prefix: SECTION_SPACING, compressed: false }] {
                docs.push(combo(&ks[i], &ks[j], v));
            }
        }
    }
    docs.extend(custom_docs(thorough, &mut rng));
    Gen { docs, exhaustive }
}

/// classification of one failed walk: the signature names the construct / call site
pub fn classify(p: &Planted, r: &DocResult) -> Option<(String, String)> {
    let loc_file = |m: &str| -> String {
        // "...message @ path/file.rs:123"
        m.rsplit(" @ ").next().unwrap_or("").rsplit('/').next().unwrap_or("").to_string()
    };
    match &r.outcome {
        Outcome::Returned => None,
        Outcome::Panic(m) => {
            let lf = loc_file(m);
            let file = lf.split(':').next().unwrap_or("").to_string();
            // (the pending-D33 / D18 / D13 / D14 classes are gone: those defects are repaired on main)
            let _ = file;
            let sig = format!("panic@{}", lf);
            Some((sig, format!("panic: {}", m)))
        }
        Outcome::Crash { status, stderr_tail } => {
            let kind = if stderr_tail.contains("overflowed its stack") { "stack-overflow" }
                else if stderr_tail.contains("memory allocation of") || stderr_tail.contains("capacity overflow") { "alloc-failure" }
                else { "abort" };
            let sig = format!("{}:{}", kind, p.frag);
            Some((sig, format!("process died ({}; {}): {}", kind, status, stderr_tail)))
        }
        Outcome::Timeout => {
            let sig = format!("timeout:{}", p.frag);
            Some((sig, "time limit exceeded".to_string()))
        }
        Outcome::NotRun(m) => Some(("harness".to_string(), format!("not run: {}", m))),
    }
}

/// What a document may make the library allocate at one time: 32 MiB (the table for the largest accepted
/// /Size, 10^6 entries, is 24 MB; weezl's LZW decoder takes 16 MiB per stream) plus 16 bytes per byte of the
/// file and of the decoded stream data handed out. (The address-space limit of the child, 768 MiB, stays as
/// the backstop for allocations that would take the machine down.)
pub fn memory_allowance(file_len: u64, decoded: u64) -> u64 {
    (32 << 20) + 16 * (file_len + decoded)
}

/// a failed walk, or a walk that returned but allocated out of proportion
pub fn verdict(p: &Planted, r: &DocResult) -> Option<(String, String)> {
    classify(p, r).or_else(|| {
        let allowed = memory_allowance(p.bytes.len() as u64, r.decoded_bytes);
        if r.outcome == Outcome::Returned && r.peak_bytes > allowed {
            Some((format!("memory-out-of-proportion:{}", p.frag),
                format!("peak allocation {} MiB for a file of {} bytes ({} bytes of decoded stream data); allowance {} MiB", r.peak_bytes >> 20, p.bytes.len(), r.decoded_bytes, allowed >> 20)))
        } else { None }
    })
}

/// walk one family of documents under every configuration and record the outcomes
fn walk_family(or: &mut Oracle, family: &[Planted], configs: &[(bool, bool)], keep_first: usize, limits: Limits, seed: u64, thorough: bool, slowest: &mut u64, per_sig: &mut std::collections::BTreeMap<String, u32>) {
    let mut docs = vec![];
    let mut meta = vec![];
    for p in family.iter() {
        for &(t, c) in configs.iter() {
            docs.push(Doc { bytes: p.bytes.clone(), tolerant: t, cached: c });
            meta.push((p, t, c));
        }
    }
    let t0 = std::time::Instant::now();
    let res = walk_some(&docs, limits, keep_first * configs.len());
    or.count(&format!("family of {} documents (first: {}): {} walks in {} s", family.len(), family.first().map(|p| p.frag).unwrap_or("-"), docs.len(), t0.elapsed().as_secs()));
    let not_walked = res.iter().filter(|r| r.is_none()).count();
    if not_walked > 0 {
        or.count(&format!("not walked: the search stopped after {} time-outs / dead processes ({} documents left)", EXPENSIVE_FAILURES, not_walked));
    }
    for ((p, t, c), r) in meta.iter().zip(res.iter()) {
        let r = match r { Some(r) => r, None => continue };
        or.count(&format!("docs fragment={}", p.frag));
        or.count(&format!("config={}", cfg_name(*t, *c)));
        *slowest = (*slowest).max(r.ms);
        or.count(&format!("peak allocation < {} MiB", match r.peak_bytes >> 20 { 0 => 1, 1..=3 => 4, 4..=15 => 16, 16..=31 => 32, 32..=63 => 64, 64..=255 => 256, _ => 1 << 20 }));
        if std::env::var("VERIF_DEBUG").is_ok() && r.peak_bytes > (8 << 20) {
            eprintln!("peak {} MiB (file {} bytes, decoded {}): {} [{}]", r.peak_bytes >> 20, p.bytes.len(), r.decoded_bytes, p.desc.chars().take(150).collect::<String>(), cfg_name(*t, *c));
        }
        let key = format!("{}|{}", p.desc, cfg_name(*t, *c));
        or.case(&key, true, || json!({"doc": p.desc, "config": cfg_name(*t, *c), "outcome": format!("{:?}", r.outcome), "calls": r.calls.len()}));
        for (k, v) in &r.calls {
            *or.histogram.entry(format!("call {}", k)).or_insert(0) += *v;
        }
        // memory in proportion to the file: the walk returned, but how much did it allocate at one time?
        match verdict(p, r) {
            None => or.count("outcome=returned"),
            Some((sig, what)) => {
                or.count(&format!("outcome={}", sig));
                let n = per_sig.entry(sig.clone()).or_insert(0);
                *n += 1;
                // at most three replays per signature (the histogram has the totals)
                if *n <= 3 { or.fail(&sig, &format!("{} [{}]: {}", p.desc, cfg_name(*t, *c), what),
                    json!({"stream": "c14.walk", "seed": seed, "thorough": thorough, "doc": p.desc, "tolerant": t, "cached": c, "max_objects": limits.max_objects, "file_hex": crate::driver::hex(&p.bytes)})); }
            }
        }
    }
}

fn oracle_walk(seed: u64, thorough: bool) -> Oracle {
    let mut or = Oracle::new("c14.walk");
    let gen = generate(seed, thorough);
    for (name, ex, n) in &gen.exhaustive {
        or.count(&format!("fragment {} docs={} refs-exhaustive={}", name, n, ex));
    }
    let mut slowest = 0u64;
    let mut per_sig: std::collections::BTreeMap<String, u32> = Default::default();
    // family 1: witnesses, reference graphs, hand-laid documents, encrypted documents
    let mut family = corr::witness_docs();
    let n_witness_docs = family.len();
    family.extend(gen.docs);
    family.extend(numeric::layout_docs());
    let limits = Limits { max_objects: 24, time_limit_ms: 10_000, mem_limit_mb: 768, with_scan: true };
    walk_family(&mut or, &family, &CONFIGS, n_witness_docs, limits, seed, thorough, &mut slowest, &mut per_sig);
    // shared sub-structure behind several independent fan-outs (a·f²·m·l loads from a + 2f + m + 2l objects): a small
    // one under every configuration, and the 8 KB witness of the open finding `timeout:fanout` (one typed load of its
    // appearance dictionary takes 22 s without a cache, 18 ms with the cache) under strict/uncached and strict/cached
    walk_family(&mut or, &[fanout(2, 6, 6, 6), fanout(1, 12, 12, 12)], &CONFIGS, 0, limits, seed, thorough, &mut slowest, &mut per_sig);
    walk_family(&mut or, &[fanout(1, 60, 60, 30)], &[(false, false), (false, true)], 0, limits, seed, thorough, &mut slowest, &mut per_sig);
    let crypt = numeric::crypt_docs(thorough);
    let crypt_cfg: &[(bool, bool)] = if thorough { &CONFIGS } else { &[(false, false), (true, true)] };
    walk_family(&mut or, &crypt, crypt_cfg, 0, limits, seed, thorough, &mut slowest, &mut per_sig);
    // family 2: dense documents (grids of hostile streams / functions / fonts), with a larger object budget
    let mut dense = numeric::predictor_docs(thorough);
    dense.extend(numeric::ccitt_docs());
    dense.extend(numeric::function_docs());
    dense.extend(numeric::font_docs());
    let limits = Limits { max_objects: numeric::DENSE_OBJECTS, time_limit_ms: 20_000, mem_limit_mb: 768, with_scan: false };
    walk_family(&mut or, &dense, crypt_cfg, 0, limits, seed, thorough, &mut slowest, &mut per_sig);
    or.count(&format!("slowest-walk-ms<={}", (slowest / 100 + 1) * 100));
    or
}

pub fn run(driver: &Driver, seed: u64, thorough: bool, replay: Option<&serde_json::Value>) -> Report {
    if let Some(r) = replay {
        maybe_child(r);
    }
    if std::env::var("VERIF_DEBUG").is_ok() {
        // (main silences the panic hook; a panic of the harness itself is easier to find with a message)
        std::panic::set_hook(Box::new(|info| { eprintln!("harness panic: {}", info); }));
    }
    if let Ok(spec) = std::env::var("VERIF_C14_PROBE") {
        // measurement aid: `VERIF_C14_PROBE=a,f,m,l` walks the one fan-out document under the four configurations
        // and prints time, peak and the number of read calls (no verdict)
        let v: Vec<usize> = spec.split(',').filter_map(|x| x.parse().ok()).collect();
        if v.len() == 4 {
            let p = fanout(v[0], v[1], v[2], v[3]);
            {
                // the library alone: ONE typed load of the appearance dictionary (object 5), nothing else
                use pdf::file::FileOptions;
                use pdf::object::{AppearanceStreamEntry, PlainRef, Ref, Resolve};
                let r5: Ref<AppearanceStreamEntry> = Ref::new(PlainRef { id: 5, gen: 0 });
                let t0 = std::time::Instant::now();
                let f = FileOptions::uncached().load(p.bytes.clone()).expect("fan-out document loads");
                let res = f.resolver().get(r5);
                eprintln!("{} uncached: one get::<AppearanceStreamEntry>: ok={} in {} ms", p.desc, res.is_ok(), t0.elapsed().as_millis());
                let t0 = std::time::Instant::now();
                let f = FileOptions::cached().load(p.bytes.clone()).expect("fan-out document loads");
                let res = f.resolver().get(r5);
                eprintln!("{} cached: one get::<AppearanceStreamEntry>: ok={} in {} ms", p.desc, res.is_ok(), t0.elapsed().as_millis());
            }
            for &(t, c) in CONFIGS.iter() {
                let res = walk_all(&[Doc { bytes: p.bytes.clone(), tolerant: t, cached: c }], Limits { max_objects: 24, time_limit_ms: 60_000, mem_limit_mb: 768, with_scan: true });
                eprintln!("{} ({} bytes) [{}]: {:?} in {} ms, peak {} KiB, {} read calls", p.desc, p.bytes.len(), cfg_name(t, c), res[0].outcome, res[0].ms, res[0].peak_bytes >> 10, res[0].calls.values().sum::<u64>());
            }
        }
    }
    let mut rep = Report::new("C14");
    if let Some(r) = replay {
        if r["stream"] == "c14.walk" {
            // re-run exactly that document under that configuration
            let bytes = crate::driver::unhex(r["file_hex"].as_str().unwrap_or("-")).unwrap_or_default();
            let p = Planted { frag: "replay", desc: r["doc"].as_str().unwrap_or("replay").to_string(), bytes };
            let frag = p.desc.split('[').next().unwrap_or("").to_string();
            let frag_static: &'static str = Box::leak(frag.into_boxed_str());
            let p = Planted { frag: frag_static, ..p };
            let (t, c) = (r["tolerant"].as_bool().unwrap_or(false), r["cached"].as_bool().unwrap_or(false));
            let res = walk_all(&[Doc { bytes: p.bytes.clone(), tolerant: t, cached: c }], Limits { max_objects: r["max_objects"].as_u64().unwrap_or(24), time_limit_ms: 20_000, mem_limit_mb: 768, with_scan: true });
            let mut or = Oracle::new("c14.walk");
            or.case(&p.desc, true, || json!({"doc": p.desc, "outcome": format!("{:?}", res[0].outcome)}));
            if let Some((sig, what)) = verdict(&p, &res[0]) {
                or.fail(&sig, &format!("{} [{}]: {}", p.desc, cfg_name(t, c), what), r.clone());
            }
            rep.oracles.push(or);
            return rep;
        }
        if let Some(st) = corr::replay(driver, seed, thorough, r) {
            rep.streams.push(st);
            return rep;
        }
    }
    // the oracle runs first: it is protected by child processes. If it saw the library overflow the stack
    // or hang outside the constructs owned by other packages, the in-process correspondence would die
    // with it: it is skipped then (the oracle failures are the verdict).
    let t0 = std::time::Instant::now();
    let or = oracle_walk(seed, thorough);
    rep.notes.push(format!("seconds: oracle {:.1}", t0.elapsed().as_secs_f64()));
    let dangerous = or.histogram.keys().any(|k| k.starts_with("outcome=stack-overflow") || k.starts_with("outcome=timeout") || k.starts_with("outcome=alloc-failure") || k.starts_with("outcome=abort"));
    if dangerous {
        rep.notes.push("correspondence streams skipped: the walker saw the library overflow the stack / abort / hang".into());
    } else {
        let t1 = std::time::Instant::now();
        rep.streams.extend(corr::streams(driver, seed, thorough));
        let t2 = std::time::Instant::now();
        rep.streams.extend(corr_num::streams(driver, seed, thorough));
        rep.notes.push(format!("seconds: graph / layout streams {:.1}, numeric streams {:.1}", (t2 - t1).as_secs_f64(), t2.elapsed().as_secs_f64()));
    }
    rep.oracles.push(or);
    rep
}
