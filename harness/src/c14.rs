//! C14 — hostile but well-formed object graphs end in an error, not a crash.
//!
//! Oracle (the real library against the property itself):
//!   c14.walk      planted documents (c14_plant.rs: per schema fragment every reference field pointed at
//!                 every object, every numeric field at the boundary values) × {strict, tolerant} ×
//!                 {cached, uncached}, each walked by `walker.rs` in a child process with stack, time and
//!                 address-space limits. Failure = panic, process death (stack overflow, abort, allocation
//!                 failure) or time-out. Deterministic witnesses of the fixed defects and of the open
//!                 findings run first.
//! Correspondence streams (model = lean/PdfModel/Model/TypedLoad.lean, Numeric.lean): see `corr` below.

#[path = "walker.rs"]
pub mod walker;
#[path = "c14_plant.rs"]
pub mod plant;
#[path = "c14_corr.rs"]
mod corr;

use crate::driver::Driver;
use crate::report::*;
use crate::rng::Rng;
use plant::*;
use serde_json::json;
use walker::*;

pub const CONFIGS: [(bool, bool); 4] = [(false, false), (true, false), (false, true), (true, true)];

fn cfg_name(t: bool, c: bool) -> String {
    format!("{}/{}", if t { "tolerant" } else { "strict" }, if c { "cached" } else { "uncached" })
}

/// walk many documents: chunks run in parallel child processes
pub fn walk_all(docs: &[Doc], limits: Limits) -> Vec<DocResult> {
    let threads = std::thread::available_parallelism().map(|n| n.get()).unwrap_or(4).clamp(2, 8);
    let chunk = ((docs.len() + threads * 4 - 1) / (threads * 4)).clamp(1, 400);
    let chunks: Vec<&[Doc]> = docs.chunks(chunk).collect();
    let next = std::sync::atomic::AtomicUsize::new(0);
    let results: Vec<std::sync::Mutex<Vec<DocResult>>> = chunks.iter().map(|_| std::sync::Mutex::new(vec![])).collect();
    std::thread::scope(|s| {
        for _ in 0..threads {
            s.spawn(|| loop {
                let i = next.fetch_add(1, std::sync::atomic::Ordering::SeqCst);
                if i >= chunks.len() {
                    break;
                }
                let r = run_batch("C14", chunks[i], limits);
                *results[i].lock().unwrap() = r;
            });
        }
    });
    results.into_iter().flat_map(|m| m.into_inner().unwrap()).collect()
}

fn custom_docs(thorough: bool, rng: &mut Rng) -> Vec<Planted> {
    let mut out = vec![];
    let mut push = |frag: &'static str, desc: String, bytes: Vec<u8>| out.push(Planted { frag, desc, bytes });
    // ---- cross-reference stream numerics: /W, /Index, /Size, /Prev
    let b = BOUNDARY;
    push("xref-stream", "default".into(), xref_stream_doc(["1", "4", "2"], None, "5", [1, 4, 2], 0, None));
    for k in 0..3 {
        for v in b.iter() {
            let mut w = ["1", "4", "2"];
            w[k] = v;
            push("xref-stream", format!("W[{}]={}", k, v), xref_stream_doc(w, None, "5", [1, 4, 2], 0, None));
            push("xref-stream", format!("W[{}]={} index 0 2147483647", k, v), xref_stream_doc(w, Some("0 2147483647"), "5", [1, 4, 2], 0, None));
        }
    }
    for v in b.iter() {
        push("xref-stream", format!("W=all {}", v), xref_stream_doc([v, v, v], None, "5", [1, 4, 2], 0, None));
        push("xref-stream", format!("W=all {} index 0 2147483647", v), xref_stream_doc([v, v, v], Some("0 2147483647"), "5", [1, 4, 2], 0, None));
        push("xref-stream", format!("Size={}", v), xref_stream_doc(["1", "4", "2"], None, v, [1, 4, 2], 0, None));
        push("xref-stream", format!("Prev={}", v), xref_stream_doc(["1", "4", "2"], None, "5", [1, 4, 2], 0, Some(v)));
        for v2 in b.iter() {
            push("xref-stream", format!("Index={} {}", v, v2), xref_stream_doc(["1", "4", "2"], Some(&format!("{} {}", v, v2)), "5", [1, 4, 2], 0, None));
        }
        push("xref-stream", format!("Index odd {}", v), xref_stream_doc(["1", "4", "2"], Some(&format!("0 1 {}", v)), "5", [1, 4, 2], 0, None));
    }
    push("xref-stream", "W=0 0 0 count 2147483647".into(), xref_stream_doc(["0", "0", "0"], Some("0 2147483647"), "5", [1, 4, 2], 0, None));
    push("xref-stream", "W=0 0 0 count 2147483647 size 1000000".into(), xref_stream_doc(["0", "0", "0"], Some("0 2147483647"), "1000000", [1, 4, 2], 0, None));
    push("xref-stream", "W=8 8 8".into(), xref_stream_doc(["8", "8", "8"], None, "5", [8, 8, 8], 0, None));
    push("xref-stream", "W=9 1 1".into(), xref_stream_doc(["9", "1", "1"], None, "5", [1, 4, 2], 8, None));
    push("xref-stream", "W=0 4 2 (type defaults to 1)".into(), xref_stream_doc(["0", "4", "2"], None, "5", [0, 4, 2], 0, None));
    push("xref-stream", "W short array".into(), xref_stream_doc(["1", "4", "2 7"], None, "5", [1, 4, 2], 0, None));

    // ---- object streams
    let member = |n: &str, first: &str, header: &str, body: &[u8]| ObjStmSpec { n: n.into(), first: first.into(), header: header.into(), body: body.to_vec(), extends: None };
    let good = member("2", "10", "20 0 21 3 ", b"11 [22] ");
    let mem = [(20u64, 10u64, 0u64), (21, 10, 1)];
    push("objstm", "default".into(), objstm_doc(&good, None, &mem, None, None));
    push("objstm", "stream 10 stored in itself".into(), objstm_doc(&good, None, &mem, Some((10, 0)), None));
    push("objstm", "stream 10 stored in itself at index 1".into(), objstm_doc(&good, None, &mem, Some((10, 1)), None));
    let other = member("1", "5", "30 0 ", b"77 ");
    push("objstm", "10 in 11, 11 in 10".into(), objstm_doc(&good, Some(&other), &mem, Some((11, 0)), Some((10, 0))));
    push("objstm", "10 in 11 (11 plain)".into(), objstm_doc(&good, Some(&other), &mem, Some((11, 0)), None));
    push("objstm", "member in a stream that is not an object stream".into(), objstm_doc(&good, None, &[(20, 3, 0), (21, 1, 0)], None, None));
    push("objstm", "member in a missing stream, huge index".into(), objstm_doc(&good, None, &[(20, 15, 0), (21, 10, 65535)], None, None));
    let mut ext = member("2", "10", "20 0 21 3 ", b"11 [22] ");
    ext.extends = Some(10);
    push("objstm", "extends itself".into(), objstm_doc(&ext, None, &mem, None, None));
    for v in b.iter() {
        push("objstm", format!("N={}", v), objstm_doc(&member(v, "10", "20 0 21 3 ", b"11 [22] "), None, &mem, None, None));
        push("objstm", format!("First={}", v), objstm_doc(&member("2", v, "20 0 21 3 ", b"11 [22] "), None, &mem, None, None));
        push("objstm", format!("offset0={}", v), objstm_doc(&member("2", "10", &format!("20 {} 21 3 ", v), b"11 [22] "), None, &mem, None, None));
        push("objstm", format!("offset1={}", v), objstm_doc(&member("2", "10", &format!("20 0 21 {} ", v), b"11 [22] "), None, &mem, None, None));
        push("objstm", format!("objnr={}", v), objstm_doc(&member("2", "10", &format!("{} 0 21 3 ", v), b"11 [22] "), None, &mem, None, None));
        for v2 in b.iter() {
            if thorough || rng.chance(1, 3) {
                push("objstm", format!("First={} offset1={}", v, v2), objstm_doc(&member("2", v, &format!("20 0 21 {} ", v2), b"11 [22] "), None, &mem, None, None));
            }
        }
    }
    push("objstm", "First=2147483647 offset0=18446744073709551615".into(), objstm_doc(&member("2", "2147483647", "20 18446744073709551615 21 3 ", b"11 [22] "), None, &mem, None, None));
    push("objstm", "First=1 offset1=18446744073709551615".into(), objstm_doc(&member("2", "1", "20 0 21 18446744073709551615 ", b"11 [22] "), None, &mem, None, None));
    push("objstm", "offsets decreasing".into(), objstm_doc(&member("2", "10", "20 5 21 0 ", b"11 [22] "), None, &mem, None, None));

    // ---- /Prev chains
    let p = |s: &str| Some(s.to_string());
    for stream in [false, true] {
        push("prev", format!("none stream={}", stream), prev_doc(&[None], stream));
        push("prev", format!("self stream={}", stream), prev_doc(&[p("@0")], stream));
        push("prev", format!("two, second to first stream={}", stream), prev_doc(&[p("@1"), p("@0")], stream));
        push("prev", format!("three in a ring stream={}", stream), prev_doc(&[p("@1"), p("@2"), p("@0")], stream));
        push("prev", format!("three, last to middle stream={}", stream), prev_doc(&[p("@1"), p("@2"), p("@1")], stream));
        push("prev", format!("chain of 3 stream={}", stream), prev_doc(&[p("@1"), p("@2"), None], stream));
        for v in b.iter() {
            push("prev", format!("Prev={} stream={}", v, stream), prev_doc(&[p(v)], stream));
            push("prev", format!("second Prev={} stream={}", v, stream), prev_doc(&[p("@1"), p(v)], stream));
        }
    }
    out
}

pub struct Gen {
    pub docs: Vec<Planted>,
    pub exhaustive: Vec<(String, bool, usize)>,
}

pub fn generate(seed: u64, thorough: bool) -> Gen {
    let mut rng = Rng::derive(seed, "c14.plant", 0);
    let mut docs: Vec<Planted> = vec![];
    let mut exhaustive = vec![];
    let k = if thorough { 4 } else { 3 };
    let lim = if thorough { 70_000 } else { 3_000 };
    let joint = if thorough { 2_000 } else { 60 };
    let mut add = |f: Frag, limit: usize, joint: usize, rng: &mut Rng, docs: &mut Vec<Planted>| {
        let (d, ex) = f.enumerate(limit, joint, rng);
        exhaustive.push((f.name.to_string(), ex, d.len()));
        docs.extend(d);
    };
    add(pagetree(k), lim, joint, &mut rng, &mut docs);
    if !thorough {
        // the 4-object page tree is sampled in the quick tier
        add(pagetree(4), 150, 30, &mut rng, &mut docs);
    }
    add(tree(k, false, !thorough), if thorough { lim } else { 7_000 }, 0, &mut rng, &mut docs);
    add(tree(k, true, false), if thorough { lim } else { 400 }, 0, &mut rng, &mut docs);
    if !thorough {
        add(tree(4, false, false), 150, 0, &mut rng, &mut docs);
    }
    add(tree_numbers(), 10, joint, &mut rng, &mut docs);
    add(outlines(k), if thorough { 20_000 } else { 200 }, joint, &mut rng, &mut docs);
    add(fonts(k), if thorough { lim } else { 1_300 }, if thorough { 2_000 } else { 100 }, &mut rng, &mut docs);
    add(font_numbers(), 10, joint, &mut rng, &mut docs);
    add(font_widths(), 100, 0, &mut rng, &mut docs);
    add(encoding_differences(), 10, joint / 2, &mut rng, &mut docs);
    add(colorspaces(k), if thorough { lim } else { 5_500 }, if thorough { 2_000 } else { 100 }, &mut rng, &mut docs);
    add(colorspace_numbers(), 10, 10, &mut rng, &mut docs);
    for n in [1, 4, 5, 6, 7, 19, 20, 21] {
        docs.push(colorspace_depth(n));
    }
    add(stream_lengths(), 3_000, 0, &mut rng, &mut docs);
    add(ref_chains(), if thorough { 80_000 } else { 600 }, 0, &mut rng, &mut docs);
    docs.extend(functions());
    add(annotations(k), if thorough { lim } else { 1_200 }, if thorough { 2_000 } else { 100 }, &mut rng, &mut docs);
    for kind in ["nametree", "numbertree", "fonts"] {
        for levels in [3, 12, 40, 70] {
            docs.push(ladder(kind, levels));
        }
    }
    for kind in ["parents", "fonts"] {
        for n in [20, 70, 3000] {
            docs.push(deep_chain(kind, n));
        }
    }
    add(page_numbers(), 10, joint, &mut rng, &mut docs);
    for n in [1, 18, 19, 20, 21, 22, 200, 20_000] {
        docs.push(parser_depth(n, false));
        docs.push(parser_depth(n, true));
    }
    add(images(), 10, joint, &mut rng, &mut docs);
    add(predictor(), 10, joint / 2, &mut rng, &mut docs);
    add(runlength(), 10, 0, &mut rng, &mut docs);
    add(crypt(), 10, joint / 2, &mut rng, &mut docs);
    docs.extend(custom_docs(thorough, &mut rng));
    Gen { docs, exhaustive }
}

/// classification of one failed walk: the signature names the construct / call site
pub fn classify(p: &Planted, r: &DocResult) -> Option<(String, String)> {
    let loc_file = |m: &str| -> String {
        // "...message @ path/file.rs:123"
        m.rsplit(" @ ").next().unwrap_or("").rsplit('/').next().unwrap_or("").to_string()
    };
    match &r.outcome {
        Outcome::Returned => None,
        Outcome::Panic(m) => {
            let lf = loc_file(m);
            let file = lf.split(':').next().unwrap_or("").to_string();
            let sig = if file == "font.rs" { "pending-D33".to_string() }
                else if file == "crypt.rs" { "pending-D18".to_string() }
                else if file == "enc.rs" && p.frag == "runlength" { "pending-D13".to_string() }
                else if file == "enc.rs" && p.frag == "predictor" { "pending-D14".to_string() }
                else { format!("panic@{}", lf) };
            Some((sig, format!("panic: {}", m)))
        }
        Outcome::Crash { status, stderr_tail } => {
            let kind = if stderr_tail.contains("overflowed its stack") { "stack-overflow" }
                else if stderr_tail.contains("memory allocation of") || stderr_tail.contains("capacity overflow") { "alloc-failure" }
                else { "abort" };
            let sig = if p.frag == "font-widths" && kind == "alloc-failure" { "pending-D33".to_string() }
                else if p.frag == "predictor" && kind == "alloc-failure" { "pending-D14".to_string() }
                else { format!("{}:{}", kind, p.frag) };
            Some((sig, format!("process died ({}; {}): {}", kind, status, stderr_tail)))
        }
        Outcome::Timeout => {
            let sig = if p.frag == "font-widths" { "pending-D33".to_string() } else { format!("timeout:{}", p.frag) };
            Some((sig, "time limit exceeded".to_string()))
        }
        Outcome::NotRun(m) => Some(("harness".to_string(), format!("not run: {}", m))),
    }
}

fn oracle_walk(seed: u64, thorough: bool, only: Option<(&str, bool, bool)>) -> Oracle {
    let mut or = Oracle::new("c14.walk");
    let gen = generate(seed, thorough);
    for (name, ex, n) in &gen.exhaustive {
        or.count(&format!("fragment {} docs={} refs-exhaustive={}", name, n, ex));
    }
    let mut docs = vec![];
    let mut meta = vec![];
    let mut witnesses = corr::witness_docs();
    witnesses.extend(gen.docs);
    for p in witnesses.iter() {
        for &(t, c) in CONFIGS.iter() {
            if let Some((d, tt, cc)) = only {
                if d != p.desc || tt != t || cc != c {
                    continue;
                }
            }
            docs.push(Doc { bytes: p.bytes.clone(), tolerant: t, cached: c });
            meta.push((p, t, c));
        }
    }
    let limits = Limits { max_objects: 24, time_limit_ms: 20_000, mem_limit_mb: 768, with_scan: true };
    let res = walk_all(&docs, limits);
    let mut slowest = 0u64;
    let mut per_sig: std::collections::BTreeMap<String, u32> = Default::default();
    for ((p, t, c), r) in meta.iter().zip(res.iter()) {
        or.count(&format!("docs fragment={}", p.frag));
        or.count(&format!("config={}", cfg_name(*t, *c)));
        slowest = slowest.max(r.ms);
        let key = format!("{}|{}", p.desc, cfg_name(*t, *c));
        or.case(&key, true, || json!({"doc": p.desc, "config": cfg_name(*t, *c), "outcome": format!("{:?}", r.outcome), "calls": r.calls.len()}));
        for (k, v) in &r.calls {
            *or.histogram.entry(format!("call {}", k)).or_insert(0) += *v;
        }
        match classify(p, r) {
            None => or.count("outcome=returned"),
            Some((sig, what)) => {
                or.count(&format!("outcome={}", sig));
                let n = per_sig.entry(sig.clone()).or_insert(0);
                *n += 1;
                // at most three replays per signature (the histogram has the totals)
                if *n <= 3 { or.fail(&sig, &format!("{} [{}]: {}", p.desc, cfg_name(*t, *c), what),
                    json!({"stream": "c14.walk", "seed": seed, "thorough": thorough, "doc": p.desc, "tolerant": t, "cached": c, "file_hex": crate::driver::hex(&p.bytes)})); }
            }
        }
    }
    or.count(&format!("slowest-walk-ms<={}", (slowest / 100 + 1) * 100));
    or
}

pub fn run(driver: &Driver, seed: u64, thorough: bool, replay: Option<&serde_json::Value>) -> Report {
    if let Some(r) = replay {
        maybe_child(r);
    }
    let mut rep = Report::new("C14");
    if let Some(r) = replay {
        if r["stream"] == "c14.walk" {
            // re-run exactly that document under that configuration
            let bytes = crate::driver::unhex(r["file_hex"].as_str().unwrap_or("-")).unwrap_or_default();
            let p = Planted { frag: "replay", desc: r["doc"].as_str().unwrap_or("replay").to_string(), bytes };
            let frag = p.desc.split('[').next().unwrap_or("").to_string();
            let frag_static: &'static str = Box::leak(frag.into_boxed_str());
            let p = Planted { frag: frag_static, ..p };
            let (t, c) = (r["tolerant"].as_bool().unwrap_or(false), r["cached"].as_bool().unwrap_or(false));
            let res = walk_all(&[Doc { bytes: p.bytes.clone(), tolerant: t, cached: c }], Limits { max_objects: 24, time_limit_ms: 20_000, mem_limit_mb: 768, with_scan: true });
            let mut or = Oracle::new("c14.walk");
            or.case(&p.desc, true, || json!({"doc": p.desc, "outcome": format!("{:?}", res[0].outcome)}));
            if let Some((sig, what)) = classify(&p, &res[0]) {
                or.fail(&sig, &format!("{} [{}]: {}", p.desc, cfg_name(t, c), what), r.clone());
            }
            rep.oracles.push(or);
            return rep;
        }
        if let Some(st) = corr::replay(driver, seed, thorough, r) {
            rep.streams.push(st);
            return rep;
        }
    }
    // the oracle runs first: it is protected by child processes. If it saw the library overflow the stack
    // or hang outside the constructs owned by other packages, the in-process correspondence would die
    // with it: it is skipped then (the oracle failures are the verdict).
    let or = oracle_walk(seed, thorough, None);
    let dangerous = or.histogram.keys().any(|k| k.starts_with("outcome=stack-overflow") || k.starts_with("outcome=timeout") || k.starts_with("outcome=alloc-failure") || k.starts_with("outcome=abort"));
    if dangerous {
        rep.notes.push("correspondence streams skipped: the walker saw the library overflow the stack / abort / hang".into());
    } else {
        rep.streams.extend(corr::streams(driver, seed, thorough));
    }
    rep.oracles.push(or);
    rep
}
