//! C16 — every encoder is inverted by its decoder and emits the standard format.
//!
//! Model = lean/PdfModel/Model/Enc.lean (`encodeHex`, `encode85`, `encode`; driver handler Drv/C16.lean).
//!
//! Correspondence streams (model vs `enc::encode` of the real library):
//!   c16.hex.short / c16.a85.short   every input of ≤ 2 bytes                                  (exhaustive)
//!   c16.hex.random / c16.a85.random random and structured data, all single-value runs up to 1024
//!   c16.dispatch                    `encode` for every filter kind (third-party encoders as given)
//! Oracle:
//!   c16.witness                     regression witnesses of the repaired defects (D15, D16, LZW code size)
//!   c16.roundtrip                   `decode(encode x) = x` on the real code and `reference_decoder(encode x) = x`
//!                                   with the harness's own decoders (hex, 85, LZW) and flate2's zlib decoder:
//!                                   all inputs up to length 2 (thorough: 3) for every encodable filter, all
//!                                   inputs up to length 3 for hex and 85, single-value runs, random up to 64 KiB

use crate::c05::codecs::*;
use crate::c05::{payload, real};
use crate::driver::{hex, Driver};
use crate::report::*;
use crate::rng::Rng;
use pdf::enc::{self, LZWFlateParams, StreamFilter};
use serde_json::{json, Value};

fn lzw_params(early: i32) -> LZWFlateParams {
    LZWFlateParams { predictor: 1, n_components: 1, bits_per_component: 8, columns: 1, early_change: early }
}

#[derive(Clone, Copy, Debug, PartialEq)]
enum K {
    Hex,
    A85,
    Lzw,
    Flate,
}

impl K {
    fn filter(self) -> StreamFilter {
        match self {
            K::Hex => StreamFilter::ASCIIHexDecode,
            K::A85 => StreamFilter::ASCII85Decode,
            K::Lzw => StreamFilter::LZWDecode(lzw_params(0)),
            K::Flate => StreamFilter::FlateDecode(lzw_params(1)),
        }
    }
    fn name(self) -> &'static str {
        match self { K::Hex => "hex", K::A85 => "a85", K::Lzw => "lzw", K::Flate => "flate" }
    }
    fn reference_decode(self, enc: &[u8]) -> Option<Vec<u8>> {
        match self {
            K::Hex => hex_decode_ref(enc),
            K::A85 => a85_decode_ref(enc),
            K::Lzw => {
                // the standard format ends with the EOD code
                lzw_decode_ref(enc, false)
            }
            K::Flate => inflate_zlib_ref(enc),
        }
    }
}

/// None = holds; Some(what) = the property fails on `x`
fn check_one(k: K, x: &[u8]) -> Option<String> {
    let f = k.filter();
    // fast path without formatting: everything as expected
    let fast = std::panic::catch_unwind(std::panic::AssertUnwindSafe(|| {
        match enc::encode(x, &f) {
            Ok(e) => match enc::decode(&e, &f) { Ok(d) if d == x => Some(e), _ => None },
            Err(_) => None,
        }
    }));
    let enc_bytes = match fast {
        Ok(Some(e)) => e,
        _ => {
            let encoded = real(|| enc::encode(x, &f));
            let enc_bytes = match encoded.strip_prefix("ok ") {
                Some(h) => crate::driver::unhex(h).unwrap(),
                None => return Some(format!("encode returned {}", encoded)),
            };
            let back = real(|| enc::decode(&enc_bytes, &f));
            return Some(format!("decode(encode(x)) = {} for x = {} (encoded: {})", trunc(&back), trunc(&hex(x)), trunc(&hex(&enc_bytes))));
        }
    };
    match k.reference_decode(&enc_bytes) {
        Some(v) if v == x => {}
        other => return Some(format!("the reference {} decoder reads the encoder's output {} as {} (x = {})", k.name(), trunc(&hex(&enc_bytes)),
            other.map(|v| trunc(&hex(&v))).unwrap_or_else(|| "invalid".into()), trunc(&hex(x)))),
    }
    // standard format details the reference decoders are lenient about
    match k {
        K::Hex => if enc_bytes.last() != Some(&b'>') { return Some("ASCIIHex output does not end with the EOD marker '>'".into()); },
        K::A85 => if !enc_bytes.ends_with(b"~>") { return Some("ASCII85 output does not end with the EOD marker '~>'".into()); },
        K::Lzw => {
            // must end with EOD (257): decoding the output minus its last byte must not give the same bytes *and* report EOD;
            // checked structurally instead: first code is clear-table (0x80 0x.. with 9-bit code 256)
            if enc_bytes.len() < 2 || enc_bytes[0] != 0x80 || enc_bytes[1] & 0x80 != 0 { return Some(format!("LZW output does not start with the 9-bit clear-table code: {}", trunc(&hex(&enc_bytes)))); }
        }
        K::Flate => if enc_bytes.len() < 6 || enc_bytes[0] & 0x0f != 8 || ((enc_bytes[0] as u32) << 8 | enc_bytes[1] as u32) % 31 != 0 { return Some(format!("Flate output has no zlib header: {}", trunc(&hex(&enc_bytes)))); },
    }
    None
}

/// all byte strings of length 0, 1, 2, 3 in one index space
fn index_to_bytes(i: u64) -> Vec<u8> {
    if i == 0 { vec![] }
    else if i <= 256 { vec![(i - 1) as u8] }
    else if i <= 256 + 65536 { let j = i - 257; vec![(j >> 8) as u8, j as u8] }
    else { let j = i - 257 - 65536; vec![(j >> 16) as u8, (j >> 8) as u8, j as u8] }
}
const UPTO2: u64 = 1 + 256 + 65536;
const UPTO3: u64 = UPTO2 + 16777216;

/// check `gen(i)` for i in 0..n on all cores; returns the number of cases and the first failures
fn par_run(k: K, n: u64, gen: &(dyn Fn(u64) -> Vec<u8> + Sync), group: &str, seed: u64, or: &mut Oracle) {
    let t0 = std::time::Instant::now();
    let threads = std::thread::available_parallelism().map(|n| n.get()).unwrap_or(4).min(16) as u64;
    let fails: Vec<Vec<(Vec<u8>, String)>> = std::thread::scope(|sc| {
        let hs: Vec<_> = (0..threads).map(|t| sc.spawn(move || {
            let mut local = vec![];
            let mut i = t;
            while i < n {
                let x = gen(i);
                if let Some(what) = check_one(k, &x) {
                    if local.len() < 3 { local.push((x, what)); }
                }
                i += threads;
            }
            local
        })).collect();
        hs.into_iter().map(|h| h.join().expect("worker")).collect()
    });
    or.cases += n;
    or.histogram.insert(format!("ms {} {}", k.name(), group), (t0.elapsed().as_secs_f64() * 1000.0) as u64);
    let mut shown = 0;
    for (x, what) in fails.into_iter().flatten() {
        if shown < 3 {
            or.fail(&format!("roundtrip:{}", k.name()), &what, json!({"stream": "c16.roundtrip", "seed": seed, "filter": k.name(), "group": group, "x_hex": hex(&x)}));
            shown += 1;
        }
    }
}

fn roundtrip_oracle(seed: u64, thorough: bool, only: Option<(K, Vec<u8>)>) -> Oracle {
    let mut or = Oracle::new("c16.roundtrip");
    if let Some((k, x)) = only {
        or.cases += 1;
        if let Some(what) = check_one(k, &x) {
            or.fail(&format!("roundtrip:{}", k.name()), &what, json!({"stream": "c16.roundtrip", "seed": seed, "filter": k.name(), "group": "replay", "x_hex": hex(&x)}));
        }
        return or;
    }
    let all = [K::Hex, K::A85, K::Lzw, K::Flate];
    for k in all {
        // exhaustive short inputs: up to length 3 for the two ASCII encoders, up to length 2 (+ a sample of
        // length 3) for the compressors in the quick tier, everything up to length 3 in the thorough tier
        // LZW: pdf-rs drives weezl through `into_stream`, which allocates a 16 MiB buffer per call (≈ 2.4 ms);
        // all 2^24 inputs of length 3 take ≈ 45 min on 16 cores and run only with VERIF_C16_LZW_FULL=1
        let lzw_full = std::env::var("VERIF_C16_LZW_FULL").map(|v| v == "1").unwrap_or(false);
        let full3 = (thorough && (k != K::Lzw || lzw_full)) || matches!(k, K::Hex | K::A85);
        if full3 {
            par_run(k, UPTO3, &index_to_bytes, "len0-3", seed, &mut or);
            or.count(&format!("{}: all inputs of length 0..3 = {}", k.name(), UPTO3));
        } else if k == K::Lzw && thorough {
            par_run(k, UPTO2, &index_to_bytes, "len0-2", seed, &mut or);
            // every length-3 input over a 64-value alphabet (all equality patterns, both ends of the byte range)
            let cube = |i: u64| -> Vec<u8> { let a = |j: u64| -> u8 { let v = (j % 64) as u8; if v < 32 { v } else { 255 - (v - 32) } }; vec![a(i / 4096), a(i / 64), a(i)] };
            par_run(k, 64 * 64 * 64, &cube, "len3-cube64", seed, &mut or);
            let gen3 = move |i: u64| { let mut rng = Rng::derive(seed, "c16.len3", i * 4 + k as u64); rng.bytes(3) };
            par_run(k, 400_000, &gen3, "len3-sample", seed, &mut or);
            or.count("lzw: all inputs of length 0..2 = 65793, all length-3 inputs over a 64-value alphabet = 262144, 400000 sampled inputs of length 3 (all 2^24 with VERIF_C16_LZW_FULL=1)");
        } else if k == K::Lzw {
            // weezl sets up its tables on every call (~0.5 ms): the quick tier samples lengths 2 and 3
            par_run(k, 257, &index_to_bytes, "len0-1", seed, &mut or);
            let gen2 = move |i: u64| { let mut rng = Rng::derive(seed, "c16.lzw.short", i); let n = 2 + (i % 2) as usize; rng.bytes(n) };
            par_run(k, 12_000, &gen2, "len2-3-sample", seed, &mut or);
            or.count("lzw: all inputs of length 0..1 = 257, 12000 sampled inputs of length 2 and 3 (all of them in the thorough tier)");
        } else {
            par_run(k, UPTO2, &index_to_bytes, "len0-2", seed, &mut or);
            or.count(&format!("{}: all inputs of length 0..2 = {}", k.name(), UPTO2));
            let gen3 = move |i: u64| { let mut rng = Rng::derive(seed, "c16.len3", i * 4 + k as u64); rng.bytes(3) };
            par_run(k, 100_000, &gen3, "len3-sample", seed, &mut or);
            or.count(&format!("{}: 100000 sampled inputs of length 3 (all of them in the thorough tier)", k.name()));
        }
        // single-value runs up to 1024: every length for five values, every value for six lengths
        let runs = |i: u64| -> Vec<u8> {
            if i < 5 * 1024 { vec![[0u8, 1, 0x20, 0x7e, 0xff][(i / 1024) as usize]; (i % 1024) as usize + 1] }
            else { let j = i - 5 * 1024; vec![(j / 6) as u8; [4usize, 5, 127, 128, 129, 1024][(j % 6) as usize]] }
        };
        let nruns = if k == K::Lzw && !thorough { 2 * 1024 } else { 5 * 1024 + 256 * 6 };
        par_run(k, nruns, &runs, "run", seed, &mut or);
        or.count(&format!("{}: single-value runs = {}", k.name(), nruns));
        // random and structured data up to 64 KiB
        let n = if thorough { 40_000 } else { 2_000 };
        let rnd = move |case: u64| { let mut rng = Rng::derive(seed, "c16.random", case * 4 + k as u64); let max = if case % 25 == 0 { 65536 } else { 2000 }; payload(&mut rng, max) };
        par_run(k, n, &rnd, "random", seed, &mut or);
        or.count(&format!("{}: random/structured up to 64 KiB = {}", k.name(), n));
    }
    // a requested predictor: the encoder has to refuse it or to produce something its decoder inverts
    for case in 0..2000u64 {
        let mut rng = Rng::derive(seed, "c16.predictor", case);
        let x = payload(&mut rng, 200);
        let mut p = lzw_params(if rng.chance(1, 2) { 0 } else { 1 });
        p.predictor = *rng.pick(&[2, 10, 11, 12, 13, 14, 15]);
        p.columns = 1 + rng.below(8) as i32;
        p.n_components = 1 + rng.below(3) as i32;
        let f = if rng.chance(1, 2) { StreamFilter::FlateDecode(p.clone()) } else { StreamFilter::LZWDecode(p.clone()) };
        or.cases += 1;
        if let Ok(e) = enc::encode(&x, &f) {
            let back = real(|| enc::decode(&e, &f));
            if back != format!("ok {}", hex(&x)) {
                or.fail("roundtrip:predictor", &format!("encode accepted {:?} but decode(encode(x)) = {} for x = {}", f, trunc(&back), trunc(&hex(&x))),
                    json!({"stream": "c16.roundtrip", "seed": seed, "filter": format!("{:?}", f), "group": "predictor", "x_hex": hex(&x)}));
            }
        }
    }
    or.count("predictor requests = 2000");
    or.distinct_nontrivial = or.cases;
    or
}

fn witness_oracle() -> Oracle {
    let mut or = Oracle::new("c16.witness");
    let cases: Vec<(&str, K, Vec<u8>)> = vec![
        ("D16 hex encoder writes the EOD marker", K::Hex, vec![0x01, 0xff]),
        ("D15 Flate encoder output is a complete zlib stream", K::Flate, b"hello hello hello".to_vec()),
        ("LZW encoder writes 9-bit codes starting with clear-table", K::Lzw, b"aaaa".to_vec()),
        ("ASCII85 zero group and partial tail", K::A85, vec![0, 0, 0, 0, 0]),
    ];
    for (name, k, x) in cases {
        let r = check_one(k, &x);
        or.case(name, true, || json!({"witness": name, "result": r.clone().unwrap_or_else(|| "holds".into())}));
        or.count(if r.is_none() { "holds" } else { "fails" });
        if let Some(what) = r {
            or.fail(&format!("witness:{}", name.split(' ').next().unwrap()), &format!("regression witness '{}': {}", name, what), json!({"stream": "c16.witness", "filter": k.name(), "x_hex": hex(&x)}));
        }
    }
    or
}

fn enc_stream(driver: &Driver, seed: u64, k: K, short: bool, n: u64) -> Stream {
    let sname = format!("c16.{}.{}", k.name(), if short { "short" } else { "random" });
    let mut st = Stream::new(&sname, true);
    st.exhaustive = short;
    let mut inputs: Vec<Vec<u8>> = vec![];
    if short {
        inputs.push(vec![]);
        for a in 0..=255u8 { inputs.push(vec![a]); }
        for a in 0..=255u8 { for b in 0..=255u8 { inputs.push(vec![a, b]); } }
    } else {
        for case in 0..n {
            let mut rng = Rng::derive(seed, &sname, case);
            inputs.push(payload(&mut rng, 300));
        }
        for len in [3usize, 4, 5, 7, 8, 9, 64, 127, 128, 129, 1024] { for v in [0u8, 1, 0xff] { inputs.push(vec![v; len]); } }
    }
    let f = k.filter();
    let reqs: Vec<String> = inputs.iter().map(|x| format!("c16.{} {}", k.name(), hex(x))).collect();
    let imps: Vec<String> = inputs.iter().map(|x| real(|| enc::encode(x, &f))).collect();
    let resp = driver.ask(&reqs);
    for (((rq, m), i), x) in reqs.iter().zip(resp.iter()).zip(imps.iter()).zip(inputs.iter()) {
        st.case(rq, m, i, x.len() >= 2);
    }
    st
}

/// weezl's LZW encoder (as `lzw_encode` drives it) must emit a *conforming* stream: the driver's sound
/// membership test for the encoder relation of Spec/Lzw.lean (EarlyChange 0) has to accept it. This is the
/// obligation `hlzw` of the theorem `decode_encode`; it does not ask for the greedy instance's bytes.
fn lzw_encode_stream(driver: &Driver, seed: u64, n_short: u64, n_long: u64) -> Stream {
    let mut st = Stream::new("c16.lzw.encode", true);
    let f = StreamFilter::LZWDecode(lzw_params(0));
    let mut inputs: Vec<Vec<u8>> = vec![vec![]];
    for a in 0..=255u8 { inputs.push(vec![a]); }
    for a in (0..=255u8).step_by(5) { for b in (0..=255u8).step_by(51) { inputs.push(vec![a, b]); inputs.push(vec![a, a, b]); inputs.push(vec![a, a, a, a]); } }
    for case in 0..(n_short + n_long) {
        let mut rng = Rng::derive(seed, "c16.lzw.encode", case);
        inputs.push(crate::c05::lzw_payload(&mut rng, case >= n_short));
    }
    let mut reqs = vec![];
    let mut imps = vec![];
    let mut nontrivial = vec![];
    let encoded = crate::c05::par_map(&inputs, &|x: &Vec<u8>| enc::encode(x, &f).ok());
    for (x, e) in inputs.iter().zip(encoded.into_iter()) {
        match e {
            Some(e) => {
                st.count(match x.len() { 0 => "len=0", 1..=4 => "len=1-4", 5..=300 => "len=5-300", _ => "len>2000 (code widths 9-12, table reset)" });
                reqs.push(format!("c05.lzwconf 0 {} {}", hex(x), hex(&e)));
                imps.push("1".to_string());
                nontrivial.push(x.len() >= 2);
            }
            None => {
                st.count("encode=err");
                reqs.push(format!("c05.lzwconf 0 {} -", hex(x)));
                imps.push("encode returned an error".to_string());
                nontrivial.push(true);
            }
        }
    }
    let resp = driver.ask(&reqs);
    for (((rq, m), i), nt) in reqs.iter().zip(resp.iter()).zip(imps.iter()).zip(nontrivial.iter()) {
        st.case(rq, m, i, *nt);
    }
    st
}

/// `encode` dispatch: the filters without an encoder report an error, LZW with EarlyChange ≠ 0 too
fn dispatch_stream(driver: &Driver, seed: u64, n: u64) -> Stream {
    let mut st = Stream::new("c16.dispatch", true);
    let mut reqs = vec![];
    let mut imps = vec![];
    for case in 0..n {
        let mut rng = Rng::derive(seed, "c16.dispatch", case);
        let x = payload(&mut rng, 60);
        let early = *rng.pick(&[0, 0, 1, 2, -1]);
        let pred = *rng.pick(&[1, 1, 1, 0, 2, 10, 12, 15, -3]);
        let with_pred = |mut p: LZWFlateParams| { p.predictor = pred; p.columns = 3; p };
        let (proto, f): (String, StreamFilter) = match rng.below(8) {
            0 => ("hex".into(), StreamFilter::ASCIIHexDecode),
            1 => ("a85".into(), StreamFilter::ASCII85Decode),
            2 => ("rl".into(), StreamFilter::RunLengthDecode),
            3 => ("jpx".into(), StreamFilter::JPXDecode),
            4 => ("crypt".into(), StreamFilter::Crypt),
            5 => (format!("fl:{}:1:8:3:1", pred), StreamFilter::FlateDecode(with_pred(lzw_params(1)))),
            _ => (format!("lzw:{}:1:8:3:{}", pred, early), StreamFilter::LZWDecode(with_pred(lzw_params(early)))),
        };
        st.count(&format!("filter={}", proto.split(':').next().unwrap()));
        let imp = real(|| enc::encode(&x, &f));
        // what the third-party encoder returned is taken from the real run (Flate, LZW with EarlyChange 0)
        let tp = match (&f, imp.strip_prefix("ok ")) {
            (StreamFilter::FlateDecode(_), Some(h)) | (StreamFilter::LZWDecode(_), Some(h)) => h.to_string(),
            _ => "!".to_string(),
        };
        reqs.push(format!("c16.enc {} {} {}", proto, hex(&x), tp));
        imps.push(imp);
    }
    let resp = driver.ask(&reqs);
    for ((rq, m), i) in reqs.iter().zip(resp.iter()).zip(imps.iter()) {
        st.case(rq, m, i, true);
    }
    st
}

pub fn run(driver: &Driver, seed: u64, thorough: bool, replay: Option<&Value>) -> Report {
    let mut rep = Report::new("C16");
    if let Err(e) = self_test() {
        panic!("reference codec self-test failed (broken oracle, not a finding): {}", e);
    }
    if let Some(r) = replay {
        match r["stream"].as_str().unwrap_or("") {
            "c16.roundtrip" => {
                let k = match r["filter"].as_str().unwrap_or("") { "hex" => K::Hex, "a85" => K::A85, "lzw" => K::Lzw, _ => K::Flate };
                let x = crate::driver::unhex(r["x_hex"].as_str().unwrap_or("-")).unwrap_or_default();
                rep.oracles.push(roundtrip_oracle(seed, false, Some((k, x))));
            }
            "c16.witness" => rep.oracles.push(witness_oracle()),
            _ => return run(driver, r["seed"].as_u64().unwrap_or(seed), false, None),
        }
        return rep;
    }
    rep.oracles.push(witness_oracle());
    for k in [K::Hex, K::A85] {
        rep.streams.push(enc_stream(driver, seed, k, true, 0));
        rep.streams.push(enc_stream(driver, seed, k, false, if thorough { 40_000 } else { 2_000 }));
    }
    rep.streams.push(dispatch_stream(driver, seed, if thorough { 20_000 } else { 1_500 }));
    rep.streams.push(lzw_encode_stream(driver, seed, if thorough { 4000 } else { 400 }, if thorough { 1200 } else { 40 }));
    rep.oracles.push(roundtrip_oracle(seed, thorough, None));
    rep
}
