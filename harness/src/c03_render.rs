//! Rust twin of `lean/PdfModel/Spec/Render.lean` (the randomized, specification-conformant printer of
//! C03) and of the value text codec of `lean/PdfModel/Drv/Obj.lean`.
//!
//! The twin draws the same numbers from the same tape in the same ORDER as the Lean printer (which
//! renders right to left: the rest first, then the gap, then the element), so that both outputs are equal
//! byte for byte (stream `c03.render`).  On top of the Lean functions the twin reports offsets: where the
//! value's own text ends (`render_with_tail`, `render_indirect`) and where every object of a sequence
//! starts and ends (`render_seq`).

use crate::rng::Rng;

#[derive(Clone, Debug, PartialEq)]
pub enum Val {
    Null,
    Int(i64),
    /// decimal text (`f32::to_string` of the number for printer input; the token text in model answers;
    /// `#xxxxxxxx` = the f32 bits for values read back from the implementation)
    Real(String),
    Bool(bool),
    Str(Vec<u8>),
    Name(Vec<u8>),
    Ref(u64, u64),
    Arr(Vec<Val>),
    Dict(Vec<(Vec<u8>, Val)>),
    StreamPending(Vec<(Vec<u8>, Val)>, Vec<u8>),
    StreamInFile(Vec<(Vec<u8>, Val)>, u64, u64, usize, usize),
}

// ---------------------------------------------------------------------------------------------------
// text codec (Drv/Obj.lean)

fn hex(bs: &[u8]) -> String {
    crate::driver::hex(bs)
}

fn show_entries(kvs: &[(Vec<u8>, Val)], canon: bool, out: &mut String) {
    for (i, (k, v)) in kvs.iter().enumerate() {
        if i > 0 {
            out.push(',');
        }
        out.push_str(&hex(k));
        out.push(':');
        show_into(v, canon, out);
    }
}

/// f32 bits of a real's text: `#xxxxxxxx` (bits) or a decimal text accepted by `f32::from_str`
pub fn real_bits(text: &str) -> Option<u32> {
    if let Some(h) = text.strip_prefix('#') {
        return u32::from_str_radix(h, 16).ok();
    }
    text.parse::<f32>().ok().map(|f| f.to_bits())
}

fn show_into(v: &Val, canon: bool, out: &mut String) {
    match v {
        Val::Null => out.push('n'),
        Val::Int(i) => out.push_str(&format!("i{}", i)),
        Val::Real(t) => {
            if canon {
                match real_bits(t) {
                    Some(b) => out.push_str(&format!("r#{:08x}", b)),
                    None => out.push_str(&format!("r!{}", hex(t.as_bytes()))),
                }
            } else {
                out.push('r');
                out.push_str(&hex(t.as_bytes()));
            }
        }
        Val::Bool(b) => out.push_str(if *b { "b1" } else { "b0" }),
        Val::Str(s) => {
            out.push('s');
            out.push_str(&hex(s));
        }
        Val::Name(s) => {
            out.push('N');
            out.push_str(&hex(s));
        }
        Val::Ref(i, g) => out.push_str(&format!("R{}.{}", i, g)),
        Val::Arr(xs) => {
            out.push_str("A[");
            for (i, x) in xs.iter().enumerate() {
                if i > 0 {
                    out.push(',');
                }
                show_into(x, canon, out);
            }
            out.push(']');
        }
        Val::Dict(kvs) => {
            out.push_str("D[");
            show_entries(kvs, canon, out);
            out.push(']');
        }
        Val::StreamPending(kvs, d) => {
            out.push_str("P[");
            show_entries(kvs, canon, out);
            out.push(']');
            out.push_str(&hex(d));
        }
        Val::StreamInFile(kvs, i, g, lo, hi) => {
            out.push_str("F[");
            show_entries(kvs, canon, out);
            out.push_str(&format!("]{}.{}.{}.{}", i, g, lo, hi));
        }
    }
}

/// the protocol text of a value (reals as hex of their text)
pub fn show_val(v: &Val) -> String {
    let mut s = String::new();
    show_into(v, false, &mut s);
    s
}

/// canonical text for comparisons: reals as f32 bits (`r#3f800000`; `r!<hex>` if the text is no f32)
pub fn show_canon(v: &Val) -> String {
    let mut s = String::new();
    show_into(v, true, &mut s);
    s
}

struct Rd<'a> {
    b: &'a [u8],
    i: usize,
}

impl<'a> Rd<'a> {
    fn peek(&self) -> Option<u8> {
        self.b.get(self.i).copied()
    }
    fn eat(&mut self, c: u8) -> bool {
        if self.peek() == Some(c) {
            self.i += 1;
            true
        } else {
            false
        }
    }
    fn take_hex(&mut self) -> Option<Vec<u8>> {
        let st = self.i;
        while let Some(c) = self.peek() {
            if c.is_ascii_digit() || (b'a'..=b'f').contains(&c) || c == b'-' {
                self.i += 1;
            } else {
                break;
            }
        }
        crate::driver::unhex(std::str::from_utf8(&self.b[st..self.i]).ok()?)
    }
    fn take_nat<T: std::str::FromStr>(&mut self) -> Option<T> {
        let st = self.i;
        while let Some(c) = self.peek() {
            if c.is_ascii_digit() {
                self.i += 1;
            } else {
                break;
            }
        }
        std::str::from_utf8(&self.b[st..self.i]).ok()?.parse::<T>().ok()
    }
    fn entries(&mut self) -> Option<Vec<(Vec<u8>, Val)>> {
        let mut kvs = vec![];
        loop {
            if self.eat(b']') {
                return Some(kvs);
            }
            self.eat(b',');
            let k = self.take_hex()?;
            if !self.eat(b':') {
                return None;
            }
            let v = self.val()?;
            kvs.push((k, v));
        }
    }
    fn val(&mut self) -> Option<Val> {
        let c = self.peek()?;
        self.i += 1;
        match c {
            b'n' => Some(Val::Null),
            b'i' => {
                let neg = self.eat(b'-');
                let n: i64 = self.take_nat()?;
                Some(Val::Int(if neg { -n } else { n }))
            }
            b'r' => {
                let b = self.take_hex()?;
                Some(Val::Real(String::from_utf8(b).ok()?))
            }
            b'b' => {
                if self.eat(b'0') {
                    Some(Val::Bool(false))
                } else if self.eat(b'1') {
                    Some(Val::Bool(true))
                } else {
                    None
                }
            }
            b's' => Some(Val::Str(self.take_hex()?)),
            b'N' => Some(Val::Name(self.take_hex()?)),
            b'R' => {
                let i: u64 = self.take_nat()?;
                if !self.eat(b'.') {
                    return None;
                }
                let g: u64 = self.take_nat()?;
                Some(Val::Ref(i, g))
            }
            b'A' => {
                if !self.eat(b'[') {
                    return None;
                }
                let mut xs = vec![];
                loop {
                    if self.eat(b']') {
                        return Some(Val::Arr(xs));
                    }
                    self.eat(b',');
                    xs.push(self.val()?);
                }
            }
            b'D' => {
                if !self.eat(b'[') {
                    return None;
                }
                Some(Val::Dict(self.entries()?))
            }
            b'P' => {
                if !self.eat(b'[') {
                    return None;
                }
                let kvs = self.entries()?;
                let d = self.take_hex()?;
                Some(Val::StreamPending(kvs, d))
            }
            b'F' => {
                if !self.eat(b'[') {
                    return None;
                }
                let kvs = self.entries()?;
                let i: u64 = self.take_nat()?;
                if !self.eat(b'.') {
                    return None;
                }
                let g: u64 = self.take_nat()?;
                if !self.eat(b'.') {
                    return None;
                }
                let lo: usize = self.take_nat()?;
                if !self.eat(b'.') {
                    return None;
                }
                let hi: usize = self.take_nat()?;
                Some(Val::StreamInFile(kvs, i, g, lo, hi))
            }
            _ => None,
        }
    }
}

/// inverse of `show_val` (the whole string must be one value)
pub fn read_val(s: &str) -> Option<Val> {
    let mut r = Rd { b: s.as_bytes(), i: 0 };
    let v = r.val()?;
    if r.i == s.len() {
        Some(v)
    } else {
        None
    }
}

// ---------------------------------------------------------------------------------------------------
// tape

macro_rules! freedoms {
    ($($id:ident => $name:expr),* $(,)?) => {
        /// one layout freedom of the syntax that the printer can exercise (evidence histogram of `c03.render`)
        #[allow(non_camel_case_types)]
        #[derive(Clone, Copy, Debug, PartialEq)]
        #[repr(usize)]
        pub enum F { $($id),* }
        /// histogram key of every freedom, indexed by `F as usize`
        pub const FREEDOM_KEYS: &[&str] = &[$($name),*];
    };
}

freedoms! {
    WsSp => "freedom.ws=SP", WsLf => "freedom.ws=LF", WsCr => "freedom.ws=CR", WsHt => "freedom.ws=HT", WsFf => "freedom.ws=FF", WsNul => "freedom.ws=NUL",
    CommentLf => "freedom.comment.eol=LF", CommentCr => "freedom.comment.eol=CR", CommentCrLf => "freedom.comment.eol=CRLF",
    GapEmpty => "freedom.gap.empty", GapForced => "freedom.gap.forced",
    IntPlus => "freedom.int.sign=plus", IntMinusZero => "freedom.int.sign=minus-zero", IntNoSign => "freedom.int.sign=none", IntMinus => "freedom.int.sign=minus",
    IntLeadingZeros => "freedom.int.leading-zeros", RefLeadingZeros => "freedom.ref.leading-zeros",
    RealD => "freedom.real.form=d.", RealDotD => "freedom.real.form=.d", RealDD => "freedom.real.form=d.d",
    RealPlus => "freedom.real.plus", RealTrailingZeros => "freedom.real.trailing-zeros", RealLeadingZeros => "freedom.real.leading-zeros",
    NameHashMandatory => "freedom.name.hash=mandatory", NameHashOptional => "freedom.name.hash=optional", NameRaw => "freedom.name.raw",
    NameHexUpper => "freedom.name.hexcase=upper", NameHexLower => "freedom.name.hexcase=lower",
    StrLiteral => "freedom.string.form=literal", StrHex => "freedom.string.form=hex",
    Octal1 => "freedom.lit.octal.digits=1", Octal2 => "freedom.lit.octal.digits=2", Octal3 => "freedom.lit.octal.digits=3",
    OctalForced3 => "freedom.lit.octal.forced3", OctalOverflow => "freedom.lit.octal.overflow",
    LitNamedEscape => "freedom.lit.named-escape", LitIgnoredBackslash => "freedom.lit.ignored-backslash",
    ParenRaw => "freedom.lit.paren=raw-balanced", ParenEscaped => "freedom.lit.paren=escaped", ParenOctal => "freedom.lit.paren=octal",
    ContLf => "freedom.lit.continuation=LF", ContCr => "freedom.lit.continuation=CR", ContCrLf => "freedom.lit.continuation=CRLF",
    EolAsLf => "freedom.lit.eol-written-as=LF", EolAsCr => "freedom.lit.eol-written-as=CR", EolAsCrLf => "freedom.lit.eol-written-as=CRLF", EolAsEscape => "freedom.lit.eol-written-as=escape",
    LitRaw => "freedom.lit.raw",
    HexWs => "freedom.hex.ws", HexWsNul => "freedom.hex.ws=NUL", HexWsFf => "freedom.hex.ws=FF", HexWsOther => "freedom.hex.ws=other",
    HexOdd => "freedom.hex.odd", HexDigitUpper => "freedom.hex.digit=upper", HexDigitLower => "freedom.hex.digit=lower",
    StreamEolLf => "freedom.stream.eol=LF", StreamEolCrLf => "freedom.stream.eol=CRLF", StreamCommentBeforeKeyword => "freedom.stream.comment-before-keyword",
    Adjacent => "freedom.adjacent",
    // freedoms that proved fragile in other readers (counted only; the bytes rendered do not depend on them)
    CommentGlued => "freedom.comment.glued", CommentConsecutive => "freedom.comment.consecutive", CommentAdjacent => "freedom.comment.adjacent",
    NameMultiHash => "freedom.name.multi-hash", NameHash1 => "freedom.name.hash-count=1", NameHash2 => "freedom.name.hash-count=2", NameHash3 => "freedom.name.hash-count=3+",
    ParenDepth1 => "freedom.lit.paren-depth=1", ParenDepth2 => "freedom.lit.paren-depth=2", ParenDepth3 => "freedom.lit.paren-depth=3+",
    OctalBefore89 => "freedom.lit.octal.before-8-9", OctalBeforeOctal => "freedom.lit.octal.before-octal-digit",
}

#[derive(Clone, Debug)]
pub struct RenderStats {
    pub gaps: u64,
    pub gaps_empty: u64,
    pub gaps_forced: u64,
    pub gaps_comment: u64,
    pub str_hex: u64,
    pub str_lit: u64,
    /// (string bytes, written in hexadecimal form?) in the order the strings were spelled
    pub forms: Vec<(Vec<u8>, bool)>,
    /// how often every layout freedom was exercised (index: `F as usize`, key: `FREEDOM_KEYS`); counting only,
    /// the bytes rendered and the numbers drawn from the tape do not depend on it
    pub freedom: Vec<u64>,
}

impl Default for RenderStats {
    fn default() -> RenderStats {
        RenderStats { gaps: 0, gaps_empty: 0, gaps_forced: 0, gaps_comment: 0, str_hex: 0, str_lit: 0, forms: vec![], freedom: vec![0; FREEDOM_KEYS.len()] }
    }
}

/// `Tape := List Nat`, consumed front to back; `draw n`: exhausted ⇒ 0, else `x % n`.
/// A *lazy* tape grows from a PRNG while it is consumed; `consumed()` is then the fixed tape that
/// reproduces the rendering.
pub struct Tape {
    xs: Vec<u64>,
    i: usize,
    src: Option<Rng>,
    pub stats: RenderStats,
}

impl Tape {
    pub fn fixed(xs: Vec<u64>) -> Tape {
        Tape { xs, i: 0, src: None, stats: RenderStats::default() }
    }
    pub fn lazy(rng: Rng) -> Tape {
        Tape { xs: vec![], i: 0, src: Some(rng), stats: RenderStats::default() }
    }
    pub fn draw(&mut self, n: u64) -> u64 {
        if self.i >= self.xs.len() {
            match self.src.as_mut() {
                Some(r) => {
                    let x = r.below(1 << 16);
                    self.xs.push(x);
                }
                None => return 0,
            }
        }
        let x = self.xs[self.i];
        self.i += 1;
        x % n
    }
    /// counts one exercised layout freedom
    #[inline]
    pub fn f(&mut self, k: F) {
        self.stats.freedom[k as usize] += 1;
    }
    /// the numbers drawn so far
    pub fn consumed(&self) -> &[u64] {
        &self.xs[..self.i]
    }
    pub fn all(&self) -> &[u64] {
        &self.xs
    }
}

pub fn show_tape(xs: &[u64]) -> String {
    if xs.is_empty() {
        "-".into()
    } else {
        xs.iter().map(|x| x.to_string()).collect::<Vec<_>>().join(",")
    }
}

pub fn read_tape(s: &str) -> Option<Vec<u64>> {
    if s == "-" {
        return Some(vec![]);
    }
    s.split(',').map(|x| x.parse::<u64>().ok()).collect()
}

// ---------------------------------------------------------------------------------------------------
// character classes (Model/Lexer.lean, Model/StrLexer.lean, Model/Serialize.lean)

pub fn is_whitespace(b: u8) -> bool {
    b == 0 || b == 32 || b == 13 || b == 10 || b == 9 || b == 12
}
pub fn is_delimiter(b: u8) -> bool {
    matches!(b, 40 | 41 | 60 | 62 | 91 | 93 | 123 | 125 | 47 | 37)
}
pub fn is_regular(b: u8) -> bool {
    !is_whitespace(b) && !is_delimiter(b)
}
pub fn is_octal(b: u8) -> bool {
    (48..=55).contains(&b)
}
pub fn name_verbatim(b: u8) -> bool {
    (33..=126).contains(&b) && !is_delimiter(b) && b != 35
}

// ---------------------------------------------------------------------------------------------------
// the printer

pub fn ws_byte(i: u64) -> u8 {
    match i {
        0 => 32,
        1 => 10,
        2 => 13,
        3 => 9,
        4 => 12,
        _ => 0,
    }
}

pub fn comment_body(k: u64, t: &mut Tape) -> Vec<u8> {
    let mut out = vec![];
    for _ in 0..k {
        let x = t.draw(256);
        out.push(if x == 10 || x == 13 { 120 } else { x as u8 });
    }
    out
}

pub fn gap_piece(t: &mut Tape) -> (Vec<u8>, bool) {
    let c = t.draw(8);
    if c < 6 {
        t.f([F::WsSp, F::WsLf, F::WsCr, F::WsHt, F::WsFf, F::WsNul][c as usize]);
        (vec![ws_byte(c)], false)
    } else {
        let k = t.draw(4);
        let body = comment_body(k, t);
        let e = t.draw(3);
        let mut out = vec![37];
        out.extend(body);
        match e {
            0 => { t.f(F::CommentLf); out.push(10) }
            1 => { t.f(F::CommentCr); out.push(13) }
            _ => { t.f(F::CommentCrLf); out.extend([13, 10]) }
        }
        (out, true)
    }
}

pub fn gap(must: bool, t: &mut Tape) -> Vec<u8> {
    gap_ex(must, true, t).0
}

/// `gap` for the statistics: `between_tokens` = a token stands on either side (an empty gap then makes two
/// tokens adjacent); second component: does the gap contain a comment?
pub fn gap_ex(must: bool, between_tokens: bool, t: &mut Tape) -> (Vec<u8>, bool) {
    let k = t.draw(4);
    let mut g = vec![];
    let mut comment = false;
    let mut prev_piece_comment = false;
    for _ in 0..k {
        let (p, c) = gap_piece(t);
        if c && comment {
            // a second comment in the same gap: only white-space pieces (or nothing) can stand between the two
            t.f(F::CommentConsecutive);
            if prev_piece_comment {
                // `%a<EOL>%b`: no byte between the end of line and the next `%`
                t.f(F::CommentAdjacent);
            }
        }
        prev_piece_comment = c;
        comment |= c;
        g.extend(p);
    }
    t.stats.gaps += 1;
    if comment {
        t.stats.gaps_comment += 1;
    }
    if g.is_empty() {
        if must {
            t.stats.gaps_forced += 1;
            t.f(F::GapForced);
            return (vec![32], false);
        }
        t.stats.gaps_empty += 1;
        t.f(F::GapEmpty);
        if between_tokens {
            t.f(F::Adjacent);
        }
    }
    (g, comment)
}

/// statistics: the gap `g` written directly behind the token text `prev` begins with `%` and `prev` ends in a
/// regular character (`12%c`): the comment is the only thing that ends the token
pub fn note_glued(prev: &[u8], g: &[u8], t: &mut Tape) {
    if g.first() == Some(&37) && prev.last().map(|&b| is_regular(b)).unwrap_or(false) {
        t.f(F::CommentGlued);
    }
}

/// does a token start `s` (neither white-space nor a comment nor the end of the input)?
pub fn starts_token(s: &[u8]) -> bool {
    match s.first() {
        None => false,
        Some(&b) => !is_whitespace(b) && b != 37,
    }
}

pub fn starts_regular(s: &[u8]) -> bool {
    match s.first() {
        None => false,
        Some(&b) => is_regular(b),
    }
}

/// values whose spelling ends in a regular character (a stream ends in `endstream`)
pub fn needs_bnd(v: &Val) -> bool {
    matches!(v, Val::Null | Val::Int(_) | Val::Real(_) | Val::Bool(_) | Val::Ref(_, _) | Val::Name(_) | Val::StreamPending(..) | Val::StreamInFile(..))
}

pub fn zeros(k: u64) -> Vec<u8> {
    vec![48; k as usize]
}

pub fn fmt_nat(n: u64) -> Vec<u8> {
    n.to_string().into_bytes()
}

pub fn nat_tok(n: u64, t: &mut Tape) -> Vec<u8> {
    nat_tok_z(n, t).0
}

/// `nat_tok` and the number of leading zeros written
fn nat_tok_z(n: u64, t: &mut Tape) -> (Vec<u8>, u64) {
    let z = t.draw(3);
    let mut out = zeros(z);
    out.extend(fmt_nat(n));
    (out, z)
}

pub fn int_tok(i: i64, t: &mut Tape) -> Vec<u8> {
    let s = t.draw(3);
    let mut out: Vec<u8> = if i < 0 {
        t.f(F::IntMinus);
        vec![45]
    } else if s == 1 {
        t.f(F::IntPlus);
        vec![43]
    } else if s == 2 && i == 0 {
        t.f(F::IntMinusZero);
        vec![45]
    } else {
        t.f(F::IntNoSign);
        vec![]
    };
    let (d, z) = nat_tok_z(i.unsigned_abs(), t);
    if z > 0 {
        t.f(F::IntLeadingZeros);
    }
    out.extend(d);
    out
}

fn split_dot(b: &[u8]) -> Option<(&[u8], &[u8])> {
    b.iter().position(|&c| c == 46).map(|i| (&b[..i], &b[i + 1..]))
}

/// variants of a decimal text `-?digits(.digits)?` that denote the same number
pub fn real_tok(base: &[u8], t: &mut Tape) -> Vec<u8> {
    let neg = base.first() == Some(&45);
    let body = if neg { &base[1..] } else { base };
    let (ip, fp) = match split_dot(body) {
        Some((a, c)) => (a, c),
        None => (body, &body[0..0]),
    };
    let s = t.draw(2);
    let mut out: Vec<u8> = if neg {
        vec![45]
    } else if s == 1 {
        t.f(F::RealPlus);
        vec![43]
    } else {
        vec![]
    };
    let z = t.draw(3);
    let tz = t.draw(3);
    let drop_zero = t.draw(2);
    let mut fp2 = fp.to_vec();
    fp2.extend(zeros(tz));
    if tz > 0 {
        t.f(F::RealTrailingZeros);
    }
    if drop_zero == 1 && ip.iter().all(|&c| c == 48) && !fp2.is_empty() {
        // integer part dropped
        t.f(F::RealDotD);
    } else {
        if z > 0 {
            t.f(F::RealLeadingZeros);
        }
        t.f(if fp2.is_empty() { F::RealD } else { F::RealDD });
        out.extend(zeros(z));
        out.extend_from_slice(ip);
    }
    out.push(46);
    out.extend(fp2);
    out
}

pub fn hex_digit_case(n: u8, upper: bool) -> u8 {
    if n < 10 {
        48 + n
    } else if upper {
        55 + n
    } else {
        87 + n
    }
}

pub fn hex2_case(b: u8, t: &mut Tape) -> [u8; 2] {
    let u1 = t.draw(2);
    let u2 = t.draw(2);
    [hex_digit_case(b >> 4, u1 == 1), hex_digit_case(b & 15, u2 == 1)]
}

/// concatenates pieces that were produced right to left
fn join_rev(mut pieces: Vec<Vec<u8>>) -> Vec<u8> {
    pieces.reverse();
    let n = pieces.iter().map(|p| p.len()).sum();
    let mut out = Vec::with_capacity(n);
    for p in pieces {
        out.extend(p);
    }
    out
}

pub fn name_body(s: &[u8], t: &mut Tape) -> Vec<u8> {
    let mut pieces = vec![];
    let mut hashes = 0u32;
    for &b in s.iter().rev() {
        let c = t.draw(4);
        if name_verbatim(b) && c != 3 {
            t.f(F::NameRaw);
            pieces.push(vec![b]);
        } else {
            t.f(if name_verbatim(b) { F::NameHashOptional } else { F::NameHashMandatory });
            let h = hex2_case(b, t);
            for d in h {
                if d.is_ascii_uppercase() { t.f(F::NameHexUpper); } else if d.is_ascii_lowercase() { t.f(F::NameHexLower); }
            }
            pieces.push(vec![35, h[0], h[1]]);
            hashes += 1;
        }
    }
    if hashes >= 1 {
        t.f(match hashes { 1 => F::NameHash1, 2 => F::NameHash2, _ => F::NameHash3 });
    }
    if hashes >= 2 {
        t.f(F::NameMultiHash);
    }
    join_rev(pieces)
}

pub fn name_tok(s: &[u8], t: &mut Tape) -> Vec<u8> {
    let mut out = vec![47];
    out.extend(name_body(s, t));
    out
}

pub fn hex_ws(t: &mut Tape) -> Vec<u8> {
    let k = t.draw(4);
    if k == 0 {
        let a = t.draw(6);
        vec![ws_byte(a)]
    } else if k == 1 {
        let a = t.draw(6);
        let b = t.draw(6);
        vec![ws_byte(a), ws_byte(b)]
    } else {
        vec![]
    }
}

/// statistics of white-space that is written inside a hexadecimal string
fn note_hex_ws(w: &[u8], t: &mut Tape) {
    if !w.is_empty() {
        t.f(F::HexWs);
    }
    for &b in w {
        t.f(match b { 0 => F::HexWsNul, 12 => F::HexWsFf, _ => F::HexWsOther });
    }
}

/// the digits of a hexadecimal string up to and including `>`
pub fn hex_body(s: &[u8], t: &mut Tape) -> Vec<u8> {
    let mut pieces = vec![];
    let mut last = hex_ws(t);
    note_hex_ws(&last, t);
    last.push(62);
    pieces.push(last);
    let n = s.len();
    for (idx, &b) in s.iter().enumerate().rev() {
        let h = hex2_case(b, t);
        let w1 = hex_ws(t);
        let w2 = hex_ws(t);
        let odd = t.draw(2);
        let is_last = idx + 1 == n;
        note_hex_ws(&w1, t);
        let mut p = w1;
        p.push(h[0]);
        let case = |d: u8, t: &mut Tape| if d.is_ascii_uppercase() { t.f(F::HexDigitUpper); } else if d.is_ascii_lowercase() { t.f(F::HexDigitLower); };
        case(h[0], t);
        if !(is_last && b & 15 == 0 && odd == 1) {
            note_hex_ws(&w2, t);
            p.extend(w2);
            p.push(h[1]);
            case(h[1], t);
        } else {
            t.f(F::HexOdd);
        }
        pieces.push(p);
    }
    join_rev(pieces)
}

pub fn hex_str_tok(s: &[u8], t: &mut Tape) -> Vec<u8> {
    let mut out = vec![60];
    out.extend(hex_body(s, t));
    out
}

/// for every byte of a string: is it a parenthesis that has a partner (left-to-right matching)?
pub fn match_parens(s: &[u8]) -> Vec<bool> {
    let mut m = vec![false; s.len()];
    let mut stack = vec![];
    for (i, &b) in s.iter().enumerate() {
        if b == 40 {
            stack.push(i);
        } else if b == 41 {
            if let Some(j) = stack.pop() {
                m[j] = true;
                m[i] = true;
            }
        }
    }
    m
}

pub fn oct_digit(n: u32) -> u8 {
    (48 + n % 8) as u8
}

pub fn octal_esc(v: u32, digits: u32, next: Option<u8>) -> Vec<u8> {
    let need = if v >= 64 { 3 } else if v >= 8 { 2 } else { 1 };
    let forced = match next {
        Some(b) => is_octal(b),
        None => false,
    };
    let n = if forced { 3 } else { need.max(digits) };
    if n == 1 {
        vec![92, oct_digit(v)]
    } else if n == 2 {
        vec![92, oct_digit(v / 8), oct_digit(v)]
    } else {
        vec![92, oct_digit(v / 64), oct_digit(v / 8), oct_digit(v)]
    }
}

pub fn plain_after_backslash(c: u8) -> bool {
    !(c == 110 || c == 114 || c == 116 || c == 98 || c == 102 || c == 40 || c == 41 || c == 92 || c == 10 || c == 13 || is_octal(c))
}

pub fn str_piece(b: u8, raw_paren: bool, next: Option<u8>, t: &mut Tape) -> Vec<u8> {
    let c = t.draw(12);
    let d = t.draw(3);
    let next_is_lf = next == Some(10);
    let v = b as u32;
    let paren = b == 40 || b == 41;
    if paren && raw_paren {
        t.f(F::ParenRaw);
        vec![b]
    } else if c == 0 {
        let o = octal_esc(v, d as u32 + 1, next);
        t.f([F::Octal1, F::Octal2, F::Octal3][o.len() - 2]);
        let need = if v >= 64 { 3 } else if v >= 8 { 2 } else { 1 };
        if o.len() == 4 && need.max(d as u32 + 1) < 3 {
            t.f(F::OctalForced3);
        }
        if o.len() < 4 && matches!(next, Some(56) | Some(57)) {
            // `\18`: one or two octal digits directly before the digit 8 or 9
            t.f(F::OctalBefore89);
        }
        if need < 3 && next.map(is_octal).unwrap_or(false) {
            // a value below 64 before a byte 0-7: only the three-digit spelling denotes it
            t.f(F::OctalBeforeOctal);
        }
        if paren { t.f(F::ParenOctal); }
        if b == 10 { t.f(F::EolAsEscape); }
        o
    } else if c == 1 {
        t.f(F::OctalOverflow);
        if paren { t.f(F::ParenOctal); }
        if b == 10 { t.f(F::EolAsEscape); }
        vec![92, oct_digit((v + 256) / 64), oct_digit(v / 8), oct_digit(v)]
    } else if b == 10 {
        if c < 5 {
            t.f(F::LitNamedEscape);
            t.f(F::EolAsEscape);
            vec![92, 110]
        } else if c < 8 {
            t.f(F::EolAsLf);
            vec![10]
        } else if c < 10 {
            t.f(F::EolAsCrLf);
            vec![13, 10]
        } else if next_is_lf {
            t.f(F::EolAsLf);
            vec![10]
        } else {
            t.f(F::EolAsCr);
            vec![13]
        }
    } else if b == 13 {
        t.f(F::LitNamedEscape);
        vec![92, 114]
    } else if b == 92 {
        t.f(F::LitNamedEscape);
        vec![92, 92]
    } else if paren {
        t.f(F::ParenEscaped);
        vec![92, b]
    } else if b == 9 || b == 8 || b == 12 {
        if c < 6 {
            t.f(F::LitNamedEscape);
            vec![92, match b { 9 => 116, 8 => 98, _ => 102 }]
        } else {
            t.f(F::LitRaw);
            vec![b]
        }
    } else if c == 2 && plain_after_backslash(b) {
        t.f(F::LitIgnoredBackslash);
        vec![92, b]
    } else {
        t.f(F::LitRaw);
        vec![b]
    }
}

pub fn continuation(next: Option<u8>, t: &mut Tape) -> Vec<u8> {
    let c = t.draw(10);
    if c == 0 {
        t.f(F::ContLf);
        vec![92, 10]
    } else if c == 1 {
        t.f(F::ContCrLf);
        vec![92, 13, 10]
    } else if c == 2 && next != Some(10) {
        t.f(F::ContCr);
        vec![92, 13]
    } else {
        vec![]
    }
}

/// body of a literal string up to and including the closing `)`
pub fn lit_body(s: &[u8], raws: &[bool], t: &mut Tape) -> Vec<u8> {
    let mut pieces = vec![];
    let k = continuation(Some(41), t);
    let mut head: u8 = if k.is_empty() { 41 } else { k[0] };
    let mut last = k;
    last.push(41);
    pieces.push(last);
    for (idx, &b) in s.iter().enumerate().rev() {
        let raw = raws.get(idx).copied().unwrap_or(false);
        let p = str_piece(b, raw, Some(head), t);
        let k = continuation(Some(p[0]), t);
        head = if k.is_empty() { p[0] } else { k[0] };
        let mut q = k;
        q.extend(p);
        pieces.push(q);
    }
    join_rev(pieces)
}

/// do the parentheses marked raw balance (`n` = open ones so far)?
pub fn raw_ok_from(mut n: u64, s: &[u8], raws: &[bool]) -> bool {
    for (i, &b) in s.iter().enumerate() {
        let raw = raws.get(i).copied().unwrap_or(false);
        if raw && b == 40 {
            n += 1;
        } else if raw && b == 41 {
            if n == 0 {
                return false;
            }
            n -= 1;
        }
    }
    n == 0
}

pub fn lit_str_tok(s: &[u8], t: &mut Tape) -> Vec<u8> {
    let rp = t.draw(2);
    let cand = if rp == 1 { match_parens(s) } else { vec![] };
    let raws = if raw_ok_from(0, s, &cand) { cand } else { vec![] };
    let (mut depth, mut max_depth) = (0u32, 0u32);
    for (i, &b) in s.iter().enumerate() {
        if raws.get(i).copied().unwrap_or(false) {
            if b == 40 { depth += 1; max_depth = max_depth.max(depth); } else { depth = depth.saturating_sub(1); }
        }
    }
    if max_depth >= 1 {
        t.f(match max_depth { 1 => F::ParenDepth1, 2 => F::ParenDepth2, _ => F::ParenDepth3 });
    }
    let mut out = vec![40];
    out.extend(lit_body(s, &raws, t));
    out
}

pub fn str_tok(s: &[u8], t: &mut Tape) -> Vec<u8> {
    let h = t.draw(3);
    if h == 0 {
        t.stats.str_hex += 1;
        t.f(F::StrHex);
        t.stats.forms.push((s.to_vec(), true));
        hex_str_tok(s, t)
    } else {
        t.stats.str_lit += 1;
        t.f(F::StrLiteral);
        t.stats.forms.push((s.to_vec(), false));
        lit_str_tok(s, t)
    }
}

fn cat3(a: Vec<u8>, b: Vec<u8>, c: Vec<u8>) -> Vec<u8> {
    let mut out = a;
    out.extend(b);
    out.extend(c);
    out
}

/// the spelling of `v` (no gap before or after)
pub fn render(v: &Val, t: &mut Tape) -> Vec<u8> {
    match v {
        Val::Null => b"null".to_vec(),
        Val::Int(i) => int_tok(*i, t),
        Val::Real(r) => real_tok(r.as_bytes(), t),
        Val::Bool(b) => if *b { b"true".to_vec() } else { b"false".to_vec() },
        Val::Str(s) => str_tok(s, t),
        Val::Name(s) => name_tok(s, t),
        Val::Ref(id, gen) => {
            let (a, z1) = nat_tok_z(*id, t);
            let g1 = gap(true, t);
            let (b, z2) = nat_tok_z(*gen, t);
            let g2 = gap(true, t);
            if z1 > 0 { t.f(F::RefLeadingZeros); }
            if z2 > 0 { t.f(F::RefLeadingZeros); }
            note_glued(&a, &g1, t);
            note_glued(&b, &g2, t);
            let mut out = a;
            out.extend(g1);
            out.extend(b);
            out.extend(g2);
            out.push(82);
            out
        }
        Val::Arr(xs) => {
            let r = render_elems(xs, t);
            let g = gap(false, t);
            cat3(vec![91], g, r)
        }
        Val::Dict(kvs) => {
            let r = render_entries(kvs, t);
            let g = gap(false, t);
            cat3(vec![60, 60], g, r)
        }
        Val::StreamInFile(..) => b"null".to_vec(),
        Val::StreamPending(info, data) => {
            // g3 stands between the data and the keyword: no token before it
            let (g3, _) = gap_ex(false, false, t);
            let e = t.draw(2);
            let eol: &[u8] = if e == 0 { &[10] } else { &[13, 10] };
            t.f(if e == 0 { F::StreamEolLf } else { F::StreamEolCrLf });
            let (g2, g2_comment) = gap_ex(false, true, t);
            if g2_comment { t.f(F::StreamCommentBeforeKeyword); }
            let r = render_entries(info, t);
            let g1 = gap(false, t);
            let mut out = vec![60, 60];
            out.extend(g1);
            out.extend(r);
            out.extend(g2);
            out.extend_from_slice(b"stream");
            out.extend_from_slice(eol);
            out.extend_from_slice(data);
            out.extend(g3);
            out.extend_from_slice(b"endstream");
            out
        }
    }
}

/// elements of an array and the closing `]`
pub fn render_elems(xs: &[Val], t: &mut Tape) -> Vec<u8> {
    let mut r = vec![93];
    for x in xs.iter().rev() {
        let g = gap(needs_bnd(x) && starts_regular(&r), t);
        let tx = render(x, t);
        note_glued(&tx, &g, t);
        r = cat3(tx, g, r);
    }
    r
}

/// entries of a dictionary and the closing `>>`
pub fn render_entries(kvs: &[(Vec<u8>, Val)], t: &mut Tape) -> Vec<u8> {
    let mut r = vec![62, 62];
    for (k, v) in kvs.iter().rev() {
        let g2 = gap(needs_bnd(v) && starts_regular(&r), t);
        let tv = render(v, t);
        let g1 = gap(starts_regular(&tv), t);
        let tk = name_tok(k, t);
        note_glued(&tv, &g2, t);
        note_glued(&tk, &g1, t);
        let mut out = tk;
        out.extend(g1);
        out.extend(tv);
        out.extend(g2);
        out.extend(r);
        r = out;
    }
    r
}

/// `v`, a gap where one is needed, then `tail`; second component: where the value's own text ends
pub fn render_with_tail(v: &Val, tail: &[u8], t: &mut Tape) -> (Vec<u8>, usize) {
    let (g, _) = gap_ex(needs_bnd(v) && starts_regular(tail), starts_token(tail), t);
    let tv = render(v, t);
    note_glued(&tv, &g, t);
    let end = tv.len();
    (cat3(tv, g, tail.to_vec()), end)
}

pub struct Indirect {
    pub bytes: Vec<u8>,
    /// the value's own text is `bytes[val_start..val_end]`
    pub val_start: usize,
    pub val_end: usize,
    /// just after the keyword `endobj`
    pub endobj_end: usize,
}

/// `id gen obj … endobj`, a gap, then `tail`
pub fn render_indirect(id: u64, gen: u64, v: &Val, tail: &[u8], t: &mut Tape) -> Indirect {
    let (g5, _) = gap_ex(starts_regular(tail), starts_token(tail), t);
    let g4 = gap(needs_bnd(v), t);
    let tv = render(v, t);
    let g3 = gap(starts_regular(&tv), t);
    let g2 = gap(true, t);
    let b = nat_tok(gen, t);
    let g1 = gap(true, t);
    let a = nat_tok(id, t);
    note_glued(b"endobj", &g5, t);
    note_glued(&tv, &g4, t);
    note_glued(b"obj", &g3, t);
    note_glued(&b, &g2, t);
    note_glued(&a, &g1, t);
    let mut out = a;
    out.extend(g1);
    out.extend(b);
    out.extend(g2);
    out.extend_from_slice(b"obj");
    out.extend(g3);
    let val_start = out.len();
    out.extend(tv);
    let val_end = out.len();
    out.extend(g4);
    out.extend_from_slice(b"endobj");
    let endobj_end = out.len();
    out.extend(g5);
    out.extend_from_slice(tail);
    Indirect { bytes: out, val_start, val_end, endobj_end }
}

/// a sequence of objects, each followed by a gap; second component: `(start, end)` of every object's
/// own text
pub fn render_seq(vs: &[Val], tail: &[u8], t: &mut Tape) -> (Vec<u8>, Vec<(usize, usize)>) {
    let mut r = tail.to_vec();
    let mut lens = vec![]; // (text length, gap length), last object first
    for x in vs.iter().rev() {
        let (g, _) = gap_ex(needs_bnd(x) && starts_regular(&r), starts_token(&r), t);
        let tx = render(x, t);
        note_glued(&tx, &g, t);
        lens.push((tx.len(), g.len()));
        r = cat3(tx, g, r);
    }
    lens.reverse();
    let mut spans = vec![];
    let mut off = 0;
    for (tl, gl) in lens {
        spans.push((off, off + tl));
        off += tl + gl;
    }
    (r, spans)
}
