//! Independent, minimal structural PDF reader (shares no code with pdf-rs). Used by the C09 / C10
//! oracles: header, `startxref`, cross-reference sections (classic tables and unfiltered / Flate
//! cross-reference streams), `n g obj … endobj` at an offset, stream `/Length` against the bytes.
//!
//! Values are read into `PVal`, a plain tree; `canon` gives the canonical text used to compare a value
//! read by this reader, a value read by the library and a value the generator planted.

use std::collections::BTreeMap;

#[derive(Clone, Debug, PartialEq)]
pub enum PVal {
    Null,
    Bool(bool),
    Int(i64),
    /// the token text of a real number
    Real(String),
    Str(Vec<u8>),
    Name(String),
    Arr(Vec<PVal>),
    Dict(Vec<(String, PVal)>),
    Ref(u64, u64),
    /// dictionary (as written, `/Length` included) and raw data
    Stream(Vec<(String, PVal)>, Vec<u8>),
}

pub fn hex(bs: &[u8]) -> String {
    let mut s = String::with_capacity(bs.len() * 2);
    for b in bs {
        s.push_str(&format!("{:02x}", b));
    }
    s
}

impl PVal {
    pub fn get(&self, key: &str) -> Option<&PVal> {
        match self {
            PVal::Dict(d) | PVal::Stream(d, _) => d.iter().rev().find(|(k, _)| k == key).map(|(_, v)| v),
            _ => None,
        }
    }
    pub fn as_int(&self) -> Option<i64> {
        if let PVal::Int(i) = self { Some(*i) } else { None }
    }
    pub fn as_arr(&self) -> Option<&[PVal]> {
        if let PVal::Arr(a) = self { Some(a) } else { None }
    }
    pub fn as_name(&self) -> Option<&str> {
        if let PVal::Name(n) = self { Some(n) } else { None }
    }
    pub fn as_ref(&self) -> Option<(u64, u64)> {
        if let PVal::Ref(a, b) = self { Some((*a, *b)) } else { None }
    }
    /// Canonical text: dictionary keys sorted (dictionary equality is order-insensitive), reals by
    /// their `f32` bit pattern, stream dictionaries without `/Length` (it is derived from the data).
    pub fn canon(&self) -> String {
        match self {
            PVal::Null => "null".into(),
            PVal::Bool(b) => format!("{}", b),
            PVal::Int(i) => format!("{}", i),
            PVal::Real(t) => match t.parse::<f32>() {
                Ok(f) => format!("r{:08x}", f.to_bits()),
                Err(_) => format!("r?{}", t),
            },
            PVal::Str(s) => format!("s{}", if s.is_empty() { "-".to_string() } else { hex(s) }),
            PVal::Name(n) => format!("/{}", n),
            PVal::Arr(a) => format!("[{}]", a.iter().map(|v| v.canon()).collect::<Vec<_>>().join(" ")),
            PVal::Dict(d) => canon_dict(d, false),
            PVal::Ref(a, b) => format!("{}.{}R", a, b),
            PVal::Stream(d, data) => format!("stream{}{}", canon_dict(d, true), if data.is_empty() { "-".to_string() } else { hex(data) }),
        }
    }
    /// every indirect reference mentioned in the value
    pub fn refs(&self, out: &mut Vec<(u64, u64)>) {
        match self {
            PVal::Ref(a, b) => out.push((*a, *b)),
            PVal::Arr(a) => a.iter().for_each(|v| v.refs(out)),
            PVal::Dict(d) | PVal::Stream(d, _) => d.iter().for_each(|(_, v)| v.refs(out)),
            _ => {}
        }
    }
}

fn canon_dict(d: &[(String, PVal)], drop_length: bool) -> String {
    let mut m: BTreeMap<&str, String> = BTreeMap::new();
    for (k, v) in d {
        if drop_length && k == "Length" {
            continue;
        }
        m.insert(k, v.canon());
    }
    format!("<<{}>>", m.iter().map(|(k, v)| format!("/{} {}", k, v)).collect::<Vec<_>>().join(" "))
}

pub fn is_ws(b: u8) -> bool {
    matches!(b, 0 | 9 | 10 | 12 | 13 | 32)
}
pub fn is_delim(b: u8) -> bool {
    matches!(b, b'(' | b')' | b'<' | b'>' | b'[' | b']' | b'{' | b'}' | b'/' | b'%')
}

pub struct Reader<'a> {
    pub buf: &'a [u8],
    pub pos: usize,
}

type R<T> = Result<T, String>;

impl<'a> Reader<'a> {
    pub fn new(buf: &'a [u8], pos: usize) -> Reader<'a> {
        Reader { buf, pos }
    }
    pub fn skip_ws(&mut self) {
        while self.pos < self.buf.len() {
            let b = self.buf[self.pos];
            if is_ws(b) {
                self.pos += 1;
            } else if b == b'%' {
                while self.pos < self.buf.len() && self.buf[self.pos] != b'\n' && self.buf[self.pos] != b'\r' {
                    self.pos += 1;
                }
            } else {
                break;
            }
        }
    }
    /// a run of regular characters (number or keyword)
    pub fn word(&mut self) -> R<&'a [u8]> {
        self.skip_ws();
        let s = self.pos;
        while self.pos < self.buf.len() && !is_ws(self.buf[self.pos]) && !is_delim(self.buf[self.pos]) {
            self.pos += 1;
        }
        if s == self.pos {
            return Err(format!("expected a word at {}", s));
        }
        Ok(&self.buf[s..self.pos])
    }
    pub fn expect_word(&mut self, w: &str) -> R<()> {
        let p = self.pos;
        let got = self.word()?;
        if got != w.as_bytes() {
            return Err(format!("expected `{}` at {}, found `{}`", w, p, String::from_utf8_lossy(got)));
        }
        Ok(())
    }
    pub fn uint(&mut self) -> R<u64> {
        let p = self.pos;
        let w = self.word()?;
        std::str::from_utf8(w).ok().and_then(|s| s.parse::<u64>().ok()).ok_or_else(|| format!("expected an unsigned integer at {}", p))
    }
    fn peek_is(&mut self, s: &[u8]) -> bool {
        self.skip_ws();
        self.buf[self.pos..].starts_with(s)
    }
    pub fn value(&mut self, depth: usize) -> R<PVal> {
        if depth > 64 {
            return Err("too deep".into());
        }
        self.skip_ws();
        if self.pos >= self.buf.len() {
            return Err("end of data".into());
        }
        let b = self.buf[self.pos];
        if self.buf[self.pos..].starts_with(b"<<") {
            self.pos += 2;
            let mut d = vec![];
            loop {
                if self.peek_is(b">>") {
                    self.pos += 2;
                    break;
                }
                let k = match self.value(depth + 1)? {
                    PVal::Name(n) => n,
                    o => return Err(format!("dictionary key is not a name: {:?}", o)),
                };
                let v = self.value(depth + 1)?;
                d.push((k, v));
            }
            return Ok(PVal::Dict(d));
        }
        match b {
            b'[' => {
                self.pos += 1;
                let mut a = vec![];
                loop {
                    if self.peek_is(b"]") {
                        self.pos += 1;
                        break;
                    }
                    a.push(self.value(depth + 1)?);
                }
                Ok(PVal::Arr(a))
            }
            b'/' => {
                self.pos += 1;
                let mut n = vec![];
                while self.pos < self.buf.len() && !is_ws(self.buf[self.pos]) && !is_delim(self.buf[self.pos]) {
                    let c = self.buf[self.pos];
                    if c == b'#' && self.pos + 2 < self.buf.len() {
                        let h = std::str::from_utf8(&self.buf[self.pos + 1..self.pos + 3]).unwrap_or("");
                        if let Ok(v) = u8::from_str_radix(h, 16) {
                            n.push(v);
                            self.pos += 3;
                            continue;
                        }
                    }
                    n.push(c);
                    self.pos += 1;
                }
                Ok(PVal::Name(String::from_utf8_lossy(&n).into_owned()))
            }
            b'(' => {
                self.pos += 1;
                let mut out = vec![];
                let mut depth_p = 1;
                while self.pos < self.buf.len() {
                    let c = self.buf[self.pos];
                    self.pos += 1;
                    match c {
                        b'\\' => {
                            if self.pos >= self.buf.len() {
                                break;
                            }
                            let e = self.buf[self.pos];
                            self.pos += 1;
                            match e {
                                b'n' => out.push(b'\n'),
                                b'r' => out.push(b'\r'),
                                b't' => out.push(b'\t'),
                                b'b' => out.push(8),
                                b'f' => out.push(12),
                                b'(' | b')' | b'\\' => out.push(e),
                                b'\r' => {
                                    if self.pos < self.buf.len() && self.buf[self.pos] == b'\n' {
                                        self.pos += 1;
                                    }
                                }
                                b'\n' => {}
                                b'0'..=b'7' => {
                                    let mut v = (e - b'0') as u32;
                                    for _ in 0..2 {
                                        if self.pos < self.buf.len() && (b'0'..=b'7').contains(&self.buf[self.pos]) {
                                            v = v * 8 + (self.buf[self.pos] - b'0') as u32;
                                            self.pos += 1;
                                        }
                                    }
                                    out.push(v as u8);
                                }
                                o => out.push(o),
                            }
                        }
                        b'(' => {
                            depth_p += 1;
                            out.push(c);
                        }
                        b')' => {
                            depth_p -= 1;
                            if depth_p == 0 {
                                return Ok(PVal::Str(out));
                            }
                            out.push(c);
                        }
                        _ => out.push(c),
                    }
                }
                Err("unterminated string".into())
            }
            b'<' => {
                self.pos += 1;
                let mut digits = vec![];
                while self.pos < self.buf.len() && self.buf[self.pos] != b'>' {
                    let c = self.buf[self.pos];
                    self.pos += 1;
                    if is_ws(c) {
                        continue;
                    }
                    let v = (c as char).to_digit(16).ok_or_else(|| format!("bad hex digit at {}", self.pos - 1))?;
                    digits.push(v as u8);
                }
                if self.pos >= self.buf.len() {
                    return Err("unterminated hex string".into());
                }
                self.pos += 1;
                if digits.len() % 2 == 1 {
                    digits.push(0);
                }
                Ok(PVal::Str(digits.chunks(2).map(|c| c[0] * 16 + c[1]).collect()))
            }
            _ => {
                let start = self.pos;
                let w = self.word()?;
                let t = std::str::from_utf8(w).map_err(|_| "non-ascii token".to_string())?;
                match t {
                    "null" => return Ok(PVal::Null),
                    "true" => return Ok(PVal::Bool(true)),
                    "false" => return Ok(PVal::Bool(false)),
                    _ => {}
                }
                if let Ok(i) = t.parse::<i64>() {
                    // `i g R` ?
                    if i >= 0 && !t.starts_with('+') {
                        let save = self.pos;
                        if let Ok(g) = self.uint() {
                            if let Ok(r) = self.word() {
                                if r == b"R" {
                                    return Ok(PVal::Ref(i as u64, g));
                                }
                            }
                        }
                        self.pos = save;
                    }
                    return Ok(PVal::Int(i));
                }
                if t.parse::<f32>().is_ok() && t.bytes().all(|c| c.is_ascii_digit() || c == b'.' || c == b'-' || c == b'+') {
                    return Ok(PVal::Real(t.to_string()));
                }
                Err(format!("unexpected token `{}` at {}", t, start))
            }
        }
    }
}

#[derive(Clone, Debug)]
pub struct IndObj {
    pub id: u64,
    pub gen: u64,
    pub val: PVal,
    /// offset of the first digit of `id`
    pub start: usize,
    /// offset just after `endobj`
    pub end: usize,
    /// for streams: (offset of the first data byte, declared /Length)
    pub stream_at: Option<(usize, usize)>,
}

/// `n g obj value [stream … endstream] endobj` at `off` exactly (no leading white space is skipped:
/// a cross-reference offset must point at the first digit). `length_of` resolves an indirect /Length.
pub fn indirect_at(buf: &[u8], off: usize, length_of: &dyn Fn(u64, u64) -> Option<usize>) -> R<IndObj> {
    if off >= buf.len() || !buf[off].is_ascii_digit() {
        return Err(format!("offset {} does not point at an object number", off));
    }
    let mut r = Reader::new(buf, off);
    let id = r.uint()?;
    let gen = r.uint()?;
    r.expect_word("obj")?;
    let v = r.value(0)?;
    r.skip_ws();
    let mut stream_at = None;
    let val = if buf[r.pos..].starts_with(b"stream") {
        let d = match v {
            PVal::Dict(d) => d,
            _ => return Err("`stream` after a non-dictionary".into()),
        };
        r.pos += 6;
        if buf[r.pos..].starts_with(b"\r\n") {
            r.pos += 2;
        } else if buf[r.pos..].starts_with(b"\n") {
            r.pos += 1;
        } else {
            return Err(format!("`stream` at {} is not followed by an end-of-line marker", r.pos));
        }
        let len = match PVal::Dict(d.clone()).get("Length") {
            Some(PVal::Int(n)) if *n >= 0 => *n as usize,
            Some(PVal::Ref(a, b)) => length_of(*a, *b).ok_or_else(|| format!("indirect /Length {} {} R cannot be resolved", a, b))?,
            o => return Err(format!("stream /Length missing or not an integer: {:?}", o)),
        };
        let ds = r.pos;
        if ds + len > buf.len() {
            return Err(format!("stream /Length {} runs past the end of the file", len));
        }
        let data = buf[ds..ds + len].to_vec();
        r.pos = ds + len;
        // at most one end-of-line marker, then `endstream`
        if buf[r.pos..].starts_with(b"\r\n") {
            r.pos += 2;
        } else if buf[r.pos..].starts_with(b"\n") || buf[r.pos..].starts_with(b"\r") {
            r.pos += 1;
        }
        if !buf[r.pos..].starts_with(b"endstream") {
            return Err(format!("object {} {}: /Length {} does not end at `endstream` (offset {})", id, gen, len, r.pos));
        }
        r.pos += 9;
        stream_at = Some((ds, len));
        PVal::Stream(d, data)
    } else {
        v
    };
    r.expect_word("endobj")?;
    Ok(IndObj { id, gen, val, start: off, end: r.pos, stream_at })
}

pub fn find_header(buf: &[u8]) -> Option<usize> {
    let n = buf.len().min(1024);
    buf[..n].windows(5).position(|w| w == b"%PDF-")
}

/// value after the last `startxref` keyword; also checks that `%%EOF` follows
pub fn last_startxref(buf: &[u8]) -> R<u64> {
    let key = b"startxref";
    let p = buf.windows(key.len()).rposition(|w| w == key).ok_or("no startxref")?;
    let mut r = Reader::new(buf, p + key.len());
    let v = r.uint()?;
    r.skip_ws_nocomment();
    if !buf[r.pos..].starts_with(b"%%EOF") {
        return Err("startxref value is not followed by %%EOF".into());
    }
    Ok(v)
}

impl<'a> Reader<'a> {
    pub fn skip_ws_nocomment(&mut self) {
        while self.pos < self.buf.len() && is_ws(self.buf[self.pos]) {
            self.pos += 1;
        }
    }
}

#[derive(Clone, Debug, PartialEq, Eq)]
pub enum Row {
    Free { next: u64, gen: u64 },
    InUse { off: u64, gen: u64 },
    Compressed { stm: u64, idx: u64 },
}

impl Row {
    /// the notation of the Lean drivers (`DrvC02.showEntry`)
    pub fn show(&self) -> String {
        match self {
            Row::Free { next, gen } => format!("f.{}.{}", next, gen),
            Row::InUse { off, gen } => format!("r.{}.{}", off, gen),
            Row::Compressed { stm, idx } => format!("s.{}.{}", stm, idx),
        }
    }
}

#[derive(Clone, Debug)]
pub struct Section {
    /// absolute offset of the section
    pub at: usize,
    pub is_stream: bool,
    /// (first object number, rows) per subsection
    pub subs: Vec<(u64, Vec<Row>)>,
    /// trailer dictionary (the stream dictionary for a cross-reference stream)
    pub trailer: PVal,
    /// for a cross-reference stream: the object itself and its /W
    pub obj: Option<IndObj>,
    pub w: Vec<u64>,
}

fn inflate(data: &[u8]) -> R<Vec<u8>> {
    use std::io::Read;
    let mut d = flate2::read::ZlibDecoder::new(data);
    let mut out = vec![];
    d.read_to_end(&mut out).map_err(|e| format!("inflate: {}", e))?;
    Ok(out)
}

/// cross-reference section at absolute offset `at`
pub fn section_at(buf: &[u8], at: usize) -> R<Section> {
    if at >= buf.len() {
        return Err(format!("cross-reference offset {} outside the file", at));
    }
    if buf[at..].starts_with(b"xref") {
        let mut r = Reader::new(buf, at + 4);
        let mut subs = vec![];
        loop {
            r.skip_ws();
            if buf[r.pos..].starts_with(b"trailer") {
                r.pos += 7;
                break;
            }
            let first = r.uint()?;
            let n = r.uint()?;
            let mut rows = vec![];
            for _ in 0..n {
                let a = r.uint()?;
                let b = r.uint()?;
                let k = r.word()?;
                rows.push(match k {
                    b"n" => Row::InUse { off: a, gen: b },
                    b"f" => Row::Free { next: a, gen: b },
                    _ => return Err("classic entry is neither n nor f".into()),
                });
            }
            subs.push((first, rows));
        }
        let trailer = r.value(0)?;
        return Ok(Section { at, is_stream: false, subs, trailer, obj: None, w: vec![] });
    }
    let o = indirect_at(buf, at, &|_, _| None)?;
    let (d, data) = match &o.val {
        PVal::Stream(d, data) => (d.clone(), data.clone()),
        _ => return Err("startxref points at an object that is not a stream".into()),
    };
    let dv = PVal::Dict(d.clone());
    if dv.get("Type").and_then(|t| t.as_name()) != Some("XRef") {
        return Err("cross-reference stream without /Type /XRef".into());
    }
    let data = match dv.get("Filter") {
        None => data,
        Some(PVal::Name(n)) if n == "FlateDecode" => inflate(&data)?,
        Some(f) => return Err(format!("cross-reference stream filter {:?} not supported by the independent reader", f)),
    };
    let size = dv.get("Size").and_then(|v| v.as_int()).ok_or("xref stream without /Size")? as u64;
    let w: Vec<u64> = dv.get("W").and_then(|v| v.as_arr()).ok_or("xref stream without /W")?.iter().map(|x| x.as_int().unwrap_or(-1) as u64).collect();
    if w.len() != 3 || w.iter().any(|x| *x > 8) {
        return Err(format!("bad /W {:?}", w));
    }
    let index: Vec<u64> = match dv.get("Index") {
        Some(PVal::Arr(a)) => a.iter().map(|x| x.as_int().unwrap_or(-1) as u64).collect(),
        None => vec![0, size],
        _ => return Err("bad /Index".into()),
    };
    if index.len() % 2 != 0 {
        return Err("odd /Index".into());
    }
    let rl = (w[0] + w[1] + w[2]) as usize;
    let total: u64 = index.chunks(2).map(|c| c[1]).sum();
    if rl == 0 || data.len() != rl * total as usize {
        return Err(format!("xref stream data has {} bytes, /Index × /W asks for {}", data.len(), rl * total as usize));
    }
    let mut p = 0usize;
    let mut field = |n: u64, p: &mut usize| -> u64 {
        let mut v = 0u64;
        for _ in 0..n {
            v = (v << 8) | data[*p] as u64;
            *p += 1;
        }
        v
    };
    let mut subs = vec![];
    for c in index.chunks(2) {
        let mut rows = vec![];
        for _ in 0..c[1] {
            let t = if w[0] == 0 { 1 } else { field(w[0], &mut p) };
            let a = field(w[1], &mut p);
            let b = field(w[2], &mut p);
            rows.push(match t {
                0 => Row::Free { next: a, gen: b },
                1 => Row::InUse { off: a, gen: b },
                2 => Row::Compressed { stm: a, idx: b },
                _ => return Err(format!("xref stream row of type {}", t)),
            });
        }
        subs.push((c[0], rows));
    }
    Ok(Section { at, is_stream: true, subs, trailer: dv, obj: Some(o), w })
}

/// The sequence of indirect objects that make up `buf[from..to]` (white space between them allowed);
/// stops at the first thing that is not `n g obj`. Used to measure what a save appended.
pub fn objects_in(buf: &[u8], from: usize, to: usize) -> (Vec<IndObj>, usize) {
    let mut out = vec![];
    let mut pos = from;
    loop {
        let mut r = Reader::new(&buf[..to], pos);
        r.skip_ws_nocomment();
        if r.pos >= to {
            return (out, r.pos);
        }
        match indirect_at(&buf[..to], r.pos, &|_, _| None) {
            Ok(o) => {
                pos = o.end;
                out.push(o);
            }
            Err(_) => return (out, r.pos),
        }
    }
}
