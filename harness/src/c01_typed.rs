//! C01 correspondence streams for hand-written typed readers, on ARBITRARY (hostile) primitives and object tables.
//! All three are `in_domain = true`: the models answer on every input.
//!
//!   c01.date     `Date::from_primitive` on arbitrary byte strings (valid and broken UTF-8, multi-byte characters around
//!                every index the reader slices at, signs, overlong fields) against `DateRead.readDate`: outcome class
//!                and all nine fields
//!   c01.cs       `ColorSpace::from_primitive` on hostile arrays over object tables with plain objects, lookup /
//!                ICC streams, dangling and cyclic references, against `CSLoad.csRead` at budget 5. The model records
//!                the loads it hands over to (`Function`, `RcRef<Stream<IccInfo>>`, `Vec<Name>`, the data of a
//!                filtered stream); this side runs them with the real loaders: the real colour space must be `Ok`
//!                exactly when the model is and every recorded load is, and then render to the same tree
//!   c01.font     `Font::from_primitive` on hostile font dictionaries against `FontLoad.fontPlan`: subtype, name,
//!                encoding (base + differences), `_other`, and which `from_dict` is handed which dictionary; the
//!                recorded loads (`ToUnicode`, `Type0Font` / `TFont` / `CIDFont::from_dict`) are run with the real loaders
//!
//! Text form of primitives and object tables: `c15::support` (`show_plain`, `objs_text`); streams `id=<dict>~<hex>`.
//! The real loaders run under `catch_unwind` in the worker thread of `corr::Runner::compare` (10 s watchdog).
//! References between generated objects that real sub-loaders follow without a guard (`MemResolver::get` has none)
//! only point to lower object numbers; colour-space base / alternate positions (budgeted by the loader itself) also
//! point at themselves and upwards.

use crate::c15::support::{hex, missing_text, name_prim, objs_text, rand_prim, show_plain, str_prim, MemResolver};
use crate::driver::unhex;
use crate::report::Stream;
use crate::rng::Rng;
use pdf::encoding::{BaseEncoding, Encoding};
use pdf::font::{CIDFont, Font, FontType, TFont, Type0Font};
use pdf::object::{ColorSpace, FromDict, Function, IccInfo, NoResolve, NoUpdate, Object, PlainRef, RcRef, Stream as PdfStreamObj};
use pdf::primitive::{Date, Dictionary, Name, Primitive, TimeRel};
use std::collections::HashMap;
use std::panic::{catch_unwind, AssertUnwindSafe};

// ---------------------------------------------------------------------------------------------------
// text form → primitives

fn parse_prim_at(s: &[u8], i: &mut usize) -> Option<Primitive> {
    let c = *s.get(*i)?;
    *i += 1;
    let tok = |i: &mut usize, ok: &dyn Fn(u8) -> bool| -> String {
        let st = *i;
        while *i < s.len() && ok(s[*i]) {
            *i += 1;
        }
        String::from_utf8_lossy(&s[st..*i]).into_owned()
    };
    Some(match c {
        b'n' => Primitive::Null,
        b't' => Primitive::Boolean(true),
        b'f' => Primitive::Boolean(false),
        b'i' => Primitive::Integer(tok(i, &|c| c.is_ascii_digit() || c == b'-').parse().ok()?),
        b'r' => Primitive::Number(f32::from_bits(tok(i, &|c| c.is_ascii_digit()).parse().ok()?)),
        b's' => str_prim(&unhex(&dash(&tok(i, &|c| c.is_ascii_alphanumeric() || c == b'-')))?),
        b'N' => Primitive::Name(String::from_utf8(unhex(&dash(&tok(i, &|c| c.is_ascii_alphanumeric() || c == b'-')))?).ok()?.into()),
        b'R' => {
            let a: u64 = tok(i, &|c| c.is_ascii_digit()).parse().ok()?;
            if s.get(*i) != Some(&b'.') {
                return None;
            }
            *i += 1;
            let g: u64 = tok(i, &|c| c.is_ascii_digit()).parse().ok()?;
            Primitive::Reference(PlainRef { id: a, gen: g })
        }
        b'[' => {
            let mut v = vec![];
            if s.get(*i) == Some(&b']') {
                *i += 1;
                return Some(Primitive::Array(v));
            }
            loop {
                v.push(parse_prim_at(s, i)?);
                match s.get(*i) {
                    Some(b',') => *i += 1,
                    Some(b']') => {
                        *i += 1;
                        break;
                    }
                    _ => return None,
                }
            }
            Primitive::Array(v)
        }
        b'{' => {
            let mut d = Dictionary::new();
            if s.get(*i) == Some(&b'}') {
                *i += 1;
                return Some(Primitive::Dictionary(d));
            }
            loop {
                let k = String::from_utf8(unhex(&dash(&tok(i, &|c| c.is_ascii_alphanumeric() || c == b'-')))?).ok()?;
                if s.get(*i) != Some(&b':') {
                    return None;
                }
                *i += 1;
                let v = parse_prim_at(s, i)?;
                d.insert(k, v);
                match s.get(*i) {
                    Some(b',') => *i += 1,
                    Some(b'}') => {
                        *i += 1;
                        break;
                    }
                    _ => return None,
                }
            }
            Primitive::Dictionary(d)
        }
        _ => return None,
    })
}

/// `hex("")` is the empty string in this text form; `unhex` wants `-`
fn dash(s: &str) -> String {
    if s.is_empty() { "-".into() } else { s.to_string() }
}

pub fn parse_prim(s: &str) -> Option<Primitive> {
    let mut i = 0;
    let p = parse_prim_at(s.as_bytes(), &mut i)?;
    if i == s.len() { Some(p) } else { None }
}

fn parse_objs(s: &str) -> Option<HashMap<u64, Primitive>> {
    let mut m = HashMap::new();
    if s != "-" {
        for e in s.split(';') {
            let (a, b) = e.split_once('=')?;
            m.insert(a.parse().ok()?, parse_prim(b)?);
        }
    }
    Some(m)
}

fn parse_missing(s: &str) -> Option<HashMap<u64, char>> {
    let mut m = HashMap::new();
    if s != "-" {
        for e in s.split(';') {
            let (a, b) = e.split_once(':')?;
            m.insert(a.parse().ok()?, b.chars().next()?);
        }
    }
    Some(m)
}

fn stream_prim(info: &Dictionary, data: &[u8]) -> Option<Primitive> {
    let mut ps = PdfStreamObj::<Dictionary>::new(Dictionary::new(), data.to_vec()).to_pdf_stream(&mut NoUpdate).ok()?;
    ps.info = info.clone();
    Some(Primitive::Stream(ps))
}

fn parse_streams(s: &str) -> Option<HashMap<u64, (Dictionary, Vec<u8>)>> {
    let mut m = HashMap::new();
    if s != "-" {
        for e in s.split(';') {
            let (a, b) = e.split_once('=')?;
            let (d, h) = b.split_once('~')?;
            let info = match parse_prim(d)? {
                Primitive::Dictionary(d) => d,
                _ => return None,
            };
            m.insert(a.parse().ok()?, (info, unhex(&dash(h))?));
        }
    }
    Some(m)
}

fn streams_text(m: &HashMap<u64, (Dictionary, Vec<u8>)>) -> String {
    if m.is_empty() {
        return "-".into();
    }
    let mut ids: Vec<&u64> = m.keys().collect();
    ids.sort();
    ids.iter().map(|i| format!("{}={}~{}", i, show_plain(&Primitive::Dictionary(m[i].0.clone())), hex(&m[i].1))).collect::<Vec<_>>().join(";")
}

fn resolver(objs: &HashMap<u64, Primitive>, streams: &HashMap<u64, (Dictionary, Vec<u8>)>, missing: &HashMap<u64, char>, tolerant: bool) -> MemResolver {
    let mut all = objs.clone();
    for (id, (info, data)) in streams {
        if let Some(p) = stream_prim(info, data) {
            all.insert(*id, p);
        }
    }
    MemResolver::new(all, missing.clone(), tolerant)
}

fn guarded(f: impl FnOnce() -> String) -> String {
    catch_unwind(AssertUnwindSafe(f)).unwrap_or_else(|_| "panic".into())
}

// ---------------------------------------------------------------------------------------------------
// Date

fn real_date(bytes: &[u8]) -> String {
    guarded(|| match Date::from_primitive(str_prim(bytes), &NoResolve) {
        Ok(d) => format!(
            "ok {} {} {} {} {} {} {} {} {}",
            d.year, d.month, d.day, d.hour, d.minute, d.second,
            match d.rel { TimeRel::Earlier => 0, TimeRel::Later => 1, TimeRel::Universal => 2 },
            d.tz_hour, d.tz_minute
        ),
        Err(_) => "err".into(),
    })
}

// ---------------------------------------------------------------------------------------------------
// ColorSpace

fn show_cs(cs: &ColorSpace, wild: bool) -> String {
    let dict = |d: &Dictionary| show_plain(&Primitive::Dictionary(d.clone()));
    match cs {
        ColorSpace::DeviceGray => "G".into(),
        ColorSpace::DeviceRGB => "RGB".into(),
        ColorSpace::DeviceCMYK => "CMYK".into(),
        ColorSpace::Pattern => "P".into(),
        ColorSpace::Named(n) => format!("Nm({})", hex(n.as_bytes())),
        ColorSpace::Indexed(b, h, l) => format!("I({};{};{})", show_cs(b, wild), h, if wild { "?".to_string() } else { format!("s{}", hex(l)) }),
        ColorSpace::Separation(n, a, _) => format!("S({};{})", hex(n.as_bytes()), show_cs(a, wild)),
        ColorSpace::Icc(_) => "ICC".into(),
        ColorSpace::DeviceN { alt, attr, .. } => format!("DN({};{})", show_cs(alt, wild), attr.as_ref().map(|d| dict(d)).unwrap_or_else(|| "-".into())),
        ColorSpace::CalGray(d) => format!("CG({})", dict(d)),
        ColorSpace::CalRGB(d) => format!("CR({})", dict(d)),
        ColorSpace::CalCMYK(d) => format!("CC({})", dict(d)),
        ColorSpace::Other(v) => format!("O({})", show_plain(&Primitive::Array(v.clone()))),
    }
}

/// the model's tree with every lookup table replaced by `?`
fn wild_lookups(space: &str) -> String {
    let b = space.as_bytes();
    let mut out = String::new();
    let mut i = 0;
    while i < b.len() {
        if b[i] == b';' && b.get(i + 1) == Some(&b's') {
            let mut j = i + 2;
            while j < b.len() && (b[j].is_ascii_hexdigit() || b[j] == b'-') {
                j += 1;
            }
            if b.get(j) == Some(&b')') {
                out.push_str(";?");
                i = j;
                continue;
            }
        }
        out.push(b[i] as char);
        i += 1;
    }
    out
}

/// runs one recorded load with the real loader: `Some(true)` ok, `Some(false)` error, `None` unreadable record
fn run_cs_call(call: &str, r: &MemResolver) -> Option<bool> {
    let (kind, arg) = call.split_at(1);
    Some(match kind {
        "F" => Function::from_primitive(parse_prim(arg)?, r).is_ok(),
        "I" => RcRef::<PdfStreamObj<IccInfo>>::from_primitive(parse_prim(arg)?, r).is_ok(),
        "V" => Vec::<Name>::from_primitive(parse_prim(arg)?, r).is_ok(),
        "X" => {
            let (d, h) = arg.split_once('~')?;
            let info = match parse_prim(d)? {
                Primitive::Dictionary(d) => d,
                _ => return None,
            };
            match stream_prim(&info, &unhex(&dash(h))?)? {
                Primitive::Stream(ps) => PdfStreamObj::<()>::from_stream(ps, r).and_then(|s| s.data(r)).is_ok(),
                _ => return None,
            }
        }
        _ => return None,
    })
}

fn both_cs(f: &[&str], model: &str) -> (String, String) {
    let (objs, streams, prim) = match (parse_objs(f[2]), parse_streams(f[3]), parse_prim(f[4])) {
        (Some(o), Some(s), Some(p)) => (o, s, p),
        _ => return (model.to_string(), "bad-request".into()),
    };
    let r = resolver(&objs, &streams, &HashMap::new(), false);
    let mf: Vec<&str> = model.split(' ').collect();
    let wild = mf.get(1).map(|s| s.contains('?')).unwrap_or(false);
    let expected = if mf[0] == "ok" && mf.len() == 3 {
        guarded(|| {
            let mut all = true;
            if mf[2] != "-" {
                for call in mf[2].split('|') {
                    match run_cs_call(call, &r) {
                        Some(true) => {}
                        Some(false) => all = false,
                        None => return format!("unreadable-call {}", call),
                    }
                }
            }
            if all { format!("ok {}", if wild { wild_lookups(mf[1]) } else { mf[1].to_string() }) } else { "err".into() }
        })
    } else {
        model.to_string()
    };
    let real = guarded(|| match ColorSpace::from_primitive(prim.clone(), &r) {
        Ok(cs) => format!("ok {}", show_cs(&cs, wild)),
        Err(_) => "err".into(),
    });
    (expected, real)
}

// ---------------------------------------------------------------------------------------------------
// Font

fn base_name(b: &BaseEncoding) -> String {
    match b {
        BaseEncoding::StandardEncoding => "StandardEncoding".into(),
        BaseEncoding::SymbolEncoding => "SymbolEncoding".into(),
        BaseEncoding::MacRomanEncoding => "MacRomanEncoding".into(),
        BaseEncoding::WinAnsiEncoding => "WinAnsiEncoding".into(),
        BaseEncoding::MacExpertEncoding => "MacExpertEncoding".into(),
        BaseEncoding::IdentityH => "Identity-H".into(),
        BaseEncoding::None => "None".into(),
        BaseEncoding::Other(s) => s.clone(),
    }
}

fn show_enc(e: &Option<Encoding>) -> String {
    match e {
        None => "-".into(),
        Some(e) => {
            let mut l: Vec<(&u32, String)> = e.differences.iter().map(|(k, v)| (k, hex(v.as_bytes()))).collect();
            l.sort();
            format!("{}/{}", hex(base_name(&e.base).as_bytes()), l.iter().map(|(k, v)| format!("{}:{}", k, v)).collect::<Vec<_>>().join(","))
        }
    }
}

fn subtype_name(t: FontType) -> &'static str {
    match t {
        FontType::Type0 => "Type0",
        FontType::Type1 => "Type1",
        FontType::MMType1 => "MMType1",
        FontType::Type3 => "Type3",
        FontType::TrueType => "TrueType",
        FontType::CIDFontType0 => "CIDFontType0",
        FontType::CIDFontType2 => "CIDFontType2",
    }
}

fn both_font(f: &[&str], model: &str) -> (String, String) {
    let (objs, missing, streams, prim) = match (parse_objs(f[2]), parse_missing(f[3]), parse_streams(f[4]), parse_prim(f[5])) {
        (Some(o), Some(m), Some(s), Some(p)) => (o, m, s, p),
        _ => return (model.to_string(), "bad-request".into()),
    };
    let r = resolver(&objs, &streams, &missing, f[1] == "1");
    let mf: Vec<&str> = model.split(' ').collect();
    // ok <subtype> <name> <enc> <tu> <other> <loader> <dict>
    let expected = if mf[0] == "ok" && mf.len() == 8 {
        guarded(|| {
            let tu_ok = mf[4] == "-" || match parse_prim(mf[4]) {
                Some(p) => RcRef::<PdfStreamObj<()>>::from_primitive(p, &r).is_ok(),
                None => return "unreadable-call tu".into(),
            };
            let dict = match parse_prim(mf[7]) {
                Some(Primitive::Dictionary(d)) => d,
                _ => return "unreadable-call dict".into(),
            };
            let data_ok = match mf[6] {
                "T0" => Type0Font::from_dict(dict, &r).is_ok(),
                "TF" => TFont::from_dict(dict, &r).is_ok(),
                "CID" => CIDFont::from_dict(dict, &r).is_ok(),
                _ => true,
            };
            if tu_ok && data_ok { format!("ok {} {} {} {}", mf[1], mf[2], mf[3], mf[5]) } else { "err".into() }
        })
    } else {
        model.to_string()
    };
    let real = guarded(|| match Font::from_primitive(prim.clone(), &r) {
        Ok(font) => format!(
            "ok {} {} {} {}",
            hex(subtype_name(font.subtype).as_bytes()),
            font.name.as_ref().map(|n| hex(n.as_bytes())).unwrap_or_else(|| "-".into()),
            show_enc(&font.encoding),
            show_plain(&Primitive::Dictionary(font._other.clone()))
        ),
        Err(_) => "err".into(),
    });
    (expected, real)
}

/// (what the model predicts for the implementation, what the implementation did)
pub fn both_typed(req: &str, model: &str) -> (String, String) {
    let f: Vec<&str> = req.split(' ').collect();
    match (f[0], f.len()) {
        ("c01.date", 2) => match unhex(f[1]) {
            Some(bs) => (model.to_string(), real_date(&bs)),
            None => (model.to_string(), "bad-request".into()),
        },
        ("c01.cs", 5) => both_cs(&f, model),
        ("c01.font", 6) => both_font(&f, model),
        _ => (model.to_string(), "bad-request".into()),
    }
}

// ---------------------------------------------------------------------------------------------------
// generators

fn gen_date(rng: &mut Rng) -> Vec<u8> {
    const MB: [&[u8]; 5] = ["é".as_bytes(), "€".as_bytes(), "😀".as_bytes(), &[0xC3], &[0xA9]];
    let mut s: Vec<u8> = Vec::new();
    match rng.below(10) {
        0 => {
            let n = rng.usize(24);
            return rng.bytes(n);
        }
        1 => {}
        2 => s.extend_from_slice(b"D"),
        _ => s.extend_from_slice(b"D:"),
    }
    let digits = |rng: &mut Rng, n: usize, s: &mut Vec<u8>| {
        for _ in 0..n {
            match rng.below(60) {
                0 => s.push(b'+'),
                1 => s.push(b' '),
                2 => s.extend_from_slice(*rng.pick(&MB)),
                3 => s.push(b'x'),
                _ => s.push(b'0' + rng.below(10) as u8),
            }
        }
    };
    let n = match rng.below(6) { 0 => rng.usize(5), 1 => 5, _ => 4 };
    digits(rng, n, &mut s);
    let n = match rng.below(4) { 0 => rng.usize(13), 1 => 14, _ => 10 };
    digits(rng, n, &mut s);
    if rng.chance(3, 4) {
        s.push(*rng.pick(&[b'+', b'-', b'Z', b'Z', b'z', 0xE2]));
        if rng.chance(1, 6) {
            s.extend_from_slice(*rng.pick(&MB));
        }
        digits(rng, 2, &mut s);
        if rng.chance(3, 4) {
            s.push(*rng.pick(&[b'\'', b'\'', b':', b'+']));
            digits(rng, 2, &mut s);
            if rng.chance(1, 2) {
                s.push(b'\'');
            }
        }
    }
    // byte-level damage
    if rng.chance(1, 8) && !s.is_empty() {
        let i = rng.usize(s.len());
        match rng.below(3) {
            0 => s[i] = rng.byte(),
            1 => {
                s.remove(i);
            }
            _ => s.insert(i, *rng.pick(&[0x80u8, 0xC3, 0xE2, 0xF0, b'+', b'-', b'Z'])),
        }
    }
    s
}

struct Table {
    objs: HashMap<u64, Primitive>,
    streams: HashMap<u64, (Dictionary, Vec<u8>)>,
    next: u64,
}

impl Table {
    fn new() -> Table {
        Table { objs: HashMap::new(), streams: HashMap::new(), next: 100 }
    }
    fn fresh(&mut self) -> u64 {
        self.next += 1;
        self.next
    }
    fn put(&mut self, p: Primitive) -> Primitive {
        let id = self.fresh();
        self.objs.insert(id, p);
        rf(id)
    }
    fn put_stream(&mut self, info: Dictionary, data: Vec<u8>) -> Primitive {
        let id = self.fresh();
        self.streams.insert(id, (info, data));
        rf(id)
    }
}

fn rf(id: u64) -> Primitive {
    Primitive::Reference(PlainRef { id, gen: 0 })
}

fn arr(v: Vec<Primitive>) -> Primitive {
    Primitive::Array(v)
}

fn dict_of(es: Vec<(&str, Primitive)>) -> Dictionary {
    let mut d = Dictionary::new();
    for (k, v) in es {
        d.insert(k, v);
    }
    d
}

fn nums(v: &[f32]) -> Primitive {
    arr(v.iter().map(|x| Primitive::Number(*x)).collect())
}

/// sometimes the value, sometimes a reference to it, sometimes junk
fn hostile(rng: &mut Rng, t: &mut Table, p: Primitive) -> Primitive {
    match rng.below(28) {
        0 => rand_prim(rng, 2),
        1..=4 => t.put(p),
        5 => {
            let inner = t.put(p);
            if rng.chance(1, 3) { t.put(inner) } else { inner }
        }
        _ => p,
    }
}

fn gen_function(rng: &mut Rng, t: &mut Table) -> Primitive {
    let f = match rng.below(10) {
        0..=5 => Primitive::Dictionary(dict_of(vec![("FunctionType", Primitive::Integer(2)), ("Domain", nums(&[0.0, 1.0])), ("C0", nums(&[0.0])), ("C1", nums(&[1.0])), ("N", Primitive::Number(1.0))])),
        6 => Primitive::Dictionary(dict_of(vec![("FunctionType", Primitive::Integer(rng.range(-1, 6) as i32)), ("Domain", nums(&[0.0, 1.0]))])),
        7 => Primitive::Dictionary(dict_of(vec![
            ("FunctionType", Primitive::Integer(3)),
            ("Domain", nums(&[0.0, 1.0])),
            ("Functions", arr(vec![])),
            ("Bounds", arr(vec![])),
            ("Encode", arr(vec![])),
        ])),
        8 => name_prim("Identity"),
        _ => rand_prim(rng, 2),
    };
    hostile(rng, t, f)
}

fn unit_stream(rng: &mut Rng, t: &mut Table, extra: Vec<(&str, Primitive)>) -> Primitive {
    let n = rng.usize(12);
    let mut data = rng.bytes(n);
    let mut d = dict_of(extra);
    match rng.below(16) {
        0 => {}
        1 => {
            d.insert("Length", Primitive::Integer(-1));
        }
        2 => {
            d.insert("Length", Primitive::Number(3.0));
        }
        3 => {
            let l = t.put(Primitive::Integer(data.len() as i32));
            d.insert("Length", l);
        }
        _ => {
            d.insert("Length", Primitive::Integer(data.len() as i32));
        }
    }
    match rng.below(8) {
        0 => {
            d.insert("Filter", name_prim("ASCIIHexDecode"));
            data = format!("{}>", hex(&data).replace('-', "")).into_bytes();
            if rng.chance(1, 3) {
                data = b"zz".to_vec();
            }
        }
        1 => {
            d.insert("Filter", arr(vec![]));
        }
        2 => {
            d.insert("Filter", Primitive::Null);
        }
        3 => {
            d.insert("Filter", name_prim(*rng.pick(&["FlateDecode", "NoSuchFilter", "LZWDecode"])));
        }
        4 => {
            d.insert(*rng.pick(&["DecodeParms", "F", "FFilter", "FDecodeParms"]), rand_prim(rng, 1));
        }
        _ => {}
    }
    t.put_stream(d, data)
}

const CS_NAMES: &[&str] = &["DeviceGray", "DeviceRGB", "DeviceCMYK", "Pattern", "Cs1", "Indexed", "Foo"];
const FAMILIES: &[&str] = &["Indexed", "Indexed", "Separation", "ICCBased", "DeviceN", "CalGray", "CalRGB", "CalCMYK", "Pattern", "Lab", "DeviceRGB"];

/// `up`: references that point at the array itself or at a later object are allowed (budgeted positions only)
fn gen_cs(rng: &mut Rng, t: &mut Table, depth: u32, up: bool) -> Primitive {
    if depth == 0 || rng.chance(1, 7) {
        let n = name_prim(*rng.pick(CS_NAMES));
        return hostile(rng, t, n);
    }
    let own = if up && rng.chance(1, 3) { Some(t.fresh()) } else { None };
    let fam = if depth >= 2 && rng.chance(2, 3) { *rng.pick(&["Indexed", "Separation", "DeviceN"]) } else { *rng.pick(FAMILIES) };
    let head = hostile(rng, t, name_prim(fam));
    let base = |rng: &mut Rng, t: &mut Table| -> Primitive {
        match (own, rng.below(8)) {
            (Some(id), 0) => rf(id),                        // the space is its own base
            (_, 1) if up => rf(t.next + 1 + rng.below(3)),  // an object that may or may not be made later
            _ => gen_cs(rng, t, depth - 1, up),
        }
    };
    let mut v = vec![head];
    match fam {
        "Indexed" => {
            v.push(base(rng, t));
            v.push(match rng.below(20) {
                0 => Primitive::Integer(256),
                1 => Primitive::Integer(-1),
                2 => Primitive::Number(3.0),
                3 => t.put(Primitive::Integer(3)),
                _ => Primitive::Integer(rng.range(0, 255) as i32),
            });
            v.push(match rng.below(12) {
                0 | 1 => {
                    let n = rng.usize(9);
                    let s = str_prim(&rng.bytes(n));
                    t.put(s)
                }
                2..=5 => unit_stream(rng, t, vec![]),
                6 => rand_prim(rng, 1),
                _ => {
                    let n = rng.usize(9);
                    str_prim(&rng.bytes(n))
                }
            });
        }
        "Separation" => {
            let n = name_prim(*rng.pick(&["Spot", "All", "None"]));
            v.push(hostile(rng, t, n));
            v.push(base(rng, t));
            v.push(gen_function(rng, t));
        }
        "ICCBased" => {
            let alt = gen_cs(rng, t, 1, false);
            let mut extra = vec![("N", Primitive::Integer(rng.range(-1, 5) as i32))];
            if rng.chance(1, 2) {
                extra.push(("Alternate", alt));
            }
            let s = unit_stream(rng, t, extra);
            v.push(match rng.below(6) {
                0 => rand_prim(rng, 1),
                1 => t.put(s),
                _ => s,
            });
        }
        "DeviceN" => {
            let names = arr((0..rng.usize(4)).map(|_| if rng.chance(1, 8) { rand_prim(rng, 1) } else { name_prim(*rng.pick(&["Cyan", "Spot", "None"])) }).collect());
            v.push(hostile(rng, t, names));
            v.push(base(rng, t));
            v.push(gen_function(rng, t));
            if rng.chance(1, 2) {
                let d = Primitive::Dictionary(dict_of(vec![("Subtype", name_prim("NChannel"))]));
                v.push(if rng.chance(1, 6) { unit_stream(rng, t, vec![]) } else { hostile(rng, t, d) });
            }
        }
        "CalGray" | "CalRGB" | "CalCMYK" | "Lab" => {
            let d = Primitive::Dictionary(dict_of(vec![("WhitePoint", nums(&[0.9, 1.0, 1.1])), ("Gamma", Primitive::Number(2.2))]));
            v.push(if rng.chance(1, 8) { unit_stream(rng, t, vec![]) } else { hostile(rng, t, d) });
        }
        _ => {
            if rng.chance(1, 2) {
                v.push(rand_prim(rng, 1));
            }
        }
    }
    // cut off or extended arrays
    match rng.below(20) {
        0 => {
            let n = rng.usize(v.len() + 1);
            v.truncate(n);
        }
        1 => v.push(rand_prim(rng, 1)),
        _ => {}
    }
    let a = arr(v);
    match own {
        Some(id) => {
            t.objs.insert(id, a);
            rf(id)
        }
        None => hostile(rng, t, a),
    }
}

fn gen_encoding(rng: &mut Rng, t: &mut Table) -> Primitive {
    let diffs = |rng: &mut Rng| -> Primitive {
        let mut v = vec![];
        for _ in 0..rng.usize(6) {
            v.push(match rng.below(24) {
                0 => Primitive::Integer(-1),
                1 => Primitive::Integer(i32::MAX),
                2 => Primitive::Integer(i32::MIN),
                3 => rand_prim(rng, 1),
                4..=9 => Primitive::Integer(rng.range(0, 300) as i32),
                _ => name_prim(*rng.pick(&["A", "B", "space", "Euro"])),
            });
        }
        arr(v)
    };
    let e = match rng.below(16) {
        0..=3 => name_prim(*rng.pick(&["WinAnsiEncoding", "Identity-H", "None", "Custom", "MacRomanEncoding"])),
        4 => rand_prim(rng, 2),
        _ => {
            let mut d = Dictionary::new();
            if rng.chance(2, 3) {
                let b = name_prim(*rng.pick(&["WinAnsiEncoding", "StandardEncoding", "Custom", "None"]));
                d.insert("BaseEncoding", hostile(rng, t, b));
            }
            if rng.chance(3, 4) {
                let x = diffs(rng);
                d.insert("Differences", hostile(rng, t, x));
            }
            if rng.chance(1, 4) {
                d.insert("Type", name_prim("Encoding"));
            }
            Primitive::Dictionary(d)
        }
    };
    hostile(rng, t, e)
}

fn gen_descriptor(rng: &mut Rng, t: &mut Table) -> Primitive {
    let mut d = dict_of(vec![
        ("Type", name_prim("FontDescriptor")),
        ("FontName", name_prim("ABCDEF+Foo")),
        ("Flags", Primitive::Integer(32)),
        ("FontBBox", nums(&[0.0, -200.0, 1000.0, 900.0])),
        ("ItalicAngle", Primitive::Integer(0)),
    ]);
    if rng.chance(1, 4) {
        d.insert("MissingWidth", rand_prim(rng, 1));
    }
    if rng.chance(1, 4) {
        let key = *rng.pick(&["FontName", "Flags", "FontBBox", "ItalicAngle"]);
        if rng.chance(1, 2) {
            d.remove(key);
        } else {
            d.insert(key, rand_prim(rng, 1));
        }
    }
    if rng.chance(1, 3) {
        let s = unit_stream(rng, t, vec![]);
        d.insert(*rng.pick(&["FontFile", "FontFile2"]), s);
    }
    hostile(rng, t, Primitive::Dictionary(d))
}

fn gen_font(rng: &mut Rng, t: &mut Table, depth: u32) -> Primitive {
    const SUBTYPES: &[&str] = &["Type0", "Type0", "Type1", "Type1", "TrueType", "TrueType", "MMType1", "Type3", "CIDFontType0", "CIDFontType2", "CIDFontType2", "Type2", "Font"];
    let st = *rng.pick(SUBTYPES);
    let mut d = Dictionary::new();
    match rng.below(24) {
        0 => {}
        1 => {
            d.insert("Type", name_prim("Fnt"));
        }
        2 => {
            d.insert("Type", rand_prim(rng, 1));
        }
        _ => {
            d.insert("Type", name_prim("Font"));
        }
    }
    match rng.below(24) {
        0 => {}
        1 => {
            d.insert("Subtype", rand_prim(rng, 1));
        }
        _ => {
            d.insert("Subtype", hostile(rng, t, name_prim(st)));
        }
    }
    match rng.below(16) {
        0 => {}
        1 => {
            d.insert("BaseFont", rand_prim(rng, 1));
        }
        _ => {
            let n = name_prim(*rng.pick(&["Helvetica", "ABCDEF+Foo"]));
            d.insert("BaseFont", hostile(rng, t, n));
        }
    }
    if rng.chance(2, 3) {
        d.insert("Encoding", gen_encoding(rng, t));
    }
    if rng.chance(1, 2) {
        let s = unit_stream(rng, t, vec![]);
        d.insert("ToUnicode", match rng.below(12) { 0 => rand_prim(rng, 1), 1 => Primitive::Null, _ => s });
    }
    match st {
        "Type0" => {
            if rng.chance(7, 8) {
                let n = match rng.below(6) { 0 => 0, 1 => 3, _ => 1 };
                let kids: Vec<Primitive> = (0..n)
                    .map(|_| {
                        if depth == 0 || rng.chance(1, 8) {
                            rand_prim(rng, 1)
                        } else {
                            let k = gen_font(rng, t, depth - 1);
                            if rng.chance(1, 2) { t.put(k) } else { k }
                        }
                    })
                    .collect();
                d.insert("DescendantFonts", hostile(rng, t, arr(kids)));
            }
        }
        "Type1" | "TrueType" => {
            if rng.chance(3, 4) {
                d.insert("FirstChar", if rng.chance(1, 6) { rand_prim(rng, 1) } else { Primitive::Integer(rng.range(-2, 40) as i32) });
            }
            if rng.chance(3, 4) {
                d.insert("LastChar", Primitive::Integer(rng.range(0, 255) as i32));
            }
            if rng.chance(3, 4) {
                let w = arr((0..rng.usize(5)).map(|_| if rng.chance(1, 8) { rand_prim(rng, 1) } else { Primitive::Integer(rng.range(0, 1000) as i32) }).collect());
                d.insert("Widths", hostile(rng, t, w));
            }
            if rng.chance(1, 2) {
                d.insert("FontDescriptor", gen_descriptor(rng, t));
            }
        }
        "CIDFontType0" | "CIDFontType2" => {
            if rng.chance(7, 8) {
                let csi = Primitive::Dictionary(dict_of(vec![("Registry", str_prim(b"Adobe")), ("Ordering", str_prim(b"Identity")), ("Supplement", Primitive::Integer(0))]));
                d.insert("CIDSystemInfo", hostile(rng, t, csi));
            }
            if rng.chance(7, 8) {
                d.insert("FontDescriptor", gen_descriptor(rng, t));
            }
            if rng.chance(1, 2) {
                d.insert("DW", if rng.chance(1, 6) { rand_prim(rng, 1) } else { Primitive::Integer(rng.range(0, 1000) as i32) });
            }
            if rng.chance(3, 4) {
                let w = arr((0..rng.usize(5)).map(|_| match rng.below(4) { 0 => rand_prim(rng, 1), 1 => arr(vec![Primitive::Integer(500)]), _ => Primitive::Integer(rng.range(0, 70000) as i32) }).collect());
                d.insert("W", hostile(rng, t, w));
            }
            if rng.chance(1, 2) {
                let s = unit_stream(rng, t, vec![]);
                d.insert("CIDToGIDMap", match rng.below(4) { 0 => name_prim("Identity"), 1 => rand_prim(rng, 1), _ => s });
            }
        }
        _ => {}
    }
    if rng.chance(1, 3) {
        d.insert(*rng.pick(&["Name", "Resources", "CharProcs"]), rand_prim(rng, 1));
    }
    Primitive::Dictionary(d)
}

fn missing_table(rng: &mut Rng) -> HashMap<u64, char> {
    let mut m = HashMap::new();
    for _ in 0..rng.usize(4) {
        m.insert(1 + rng.below(40), *rng.pick(&['F', 'N', 'U']));
    }
    m
}

pub fn date_requests(seed: u64, n: u64, st: &mut Stream) -> Vec<String> {
    let mut reqs = vec![];
    for fixed in [&b"D:20240229235958+05'30"[..], b"D:2024", b"D:1999Z", b"D:", b"D:199", b"D:\xc3\xa9999", b"D:2024\xe2\x82\xac1", b"D:+123", b"D:-123", b"D:2024+", b"D:2024-\xc3", b"", b"2024"] {
        reqs.push(format!("c01.date {}", hex(fixed)));
    }
    for case in 0..n {
        let mut rng = Rng::derive(seed, "c01.date", case);
        let bs = gen_date(&mut rng);
        st.count(if std::str::from_utf8(&bs).is_ok() { "utf8=ok" } else { "utf8=broken" });
        reqs.push(format!("c01.date {}", hex(&bs)));
    }
    reqs
}

pub fn cs_requests(seed: u64, n: u64, st: &mut Stream) -> Vec<String> {
    let mut reqs = vec![];
    for case in 0..n {
        let mut rng = Rng::derive(seed, "c01.cs", case);
        let mut t = Table::new();
        let depth = 1 + rng.below(7) as u32;
        let p = gen_cs(&mut rng, &mut t, depth, true);
        st.count(&format!("gen-depth={}", depth));
        reqs.push(format!("c01.cs 5 {} {} {}", objs_text(&t.objs), streams_text(&t.streams), show_plain(&p)));
    }
    reqs
}

pub fn font_requests(seed: u64, n: u64, st: &mut Stream) -> Vec<String> {
    let mut reqs = vec![];
    for case in 0..n {
        let mut rng = Rng::derive(seed, "c01.font", case);
        let mut t = Table::new();
        let f = gen_font(&mut rng, &mut t, 2);
        let p = match rng.below(8) {
            0 => rand_prim(&mut rng, 2),
            1 | 2 => f,
            _ => t.put(f),
        };
        let missing = missing_table(&mut rng);
        let tol = case % 2;
        st.count(if tol == 1 { "mode=tolerant" } else { "mode=strict" });
        reqs.push(format!("c01.font {} {} {} {} {}", tol, objs_text(&t.objs), missing_text(&missing), streams_text(&t.streams), show_plain(&p)));
    }
    reqs
}
