//! C08 — content-stream operators round-trip and mean what the operator table says.
//!
//! Correspondence streams (model = lean/PdfModel/Model/Content.lean, spec = Spec/OperatorTable.lean):
//!   c08.real            the f32 instance of the model's `RealOps` vs Rust `==`, `-`, `i32 as f32`, `{}`
//!   c08.ser             random operation sequences (all variants, every look-ahead pattern, boundary reals)
//!                       → real `serialize_ops`, bytes tokenised with the real lexer, vs the model's tokens
//!   c08.ser.outside     the same with non-finite reals (drift only)
//!   c08.parse           sequences of well-formed statements of the operator table (+ inline images, BX/EX)
//!                       printed by the harness → real `parse_ops` (strict and tolerant) vs model
//!   c08.parse.outside   sequences with ill-formed statements (wrong arity / type / value, unknown keywords)
//!   c08.kw              exhaustively every keyword of Table A.1 with generated well-formed operands
//!   c08.kw.outside      every keyword with too few / too many / wrong operands
//!   c08.inline          where inline image data ends: bytes after `ID` → real `parse_ops` vs Model/ContentInline
//!   c08.bytes.ser       the same op sequences → real `serialize_ops` BYTES vs Model/ContentBytes (byte-exact)
//!   c08.bytes.parse     bytes (the writer's output; token sequences in random layouts: any white-space, comments,
//!                       omitted separators, `#XX` names, octal string escapes) → real `parse_ops` vs the byte-level loop
//!   c08.bytes.*.outside non-finite reals / ill-formed statements and damaged bytes (drift only)
//!   c08.spec            the harness' copy of Table A.1 vs Spec/OperatorTable.lean (every keyword)
//! Oracles (the real library against the property itself):
//!   c08.roundtrip       parse_ops(serialize_ops(ops)) == ops with numeric equality on reals
//!   c08.table           every operator of the table on well-formed operands yields what the table says
//!                       (operands in order, `v` with the current point of 8.5.2.1), strict mode: no error
//!   c08.leak            operands never leak: what follows an operator (also a failing one) reads the same
//!   c08.file            content streams inside generated files (one part / several parts split between
//!                       tokens, Flate) read through `Page::contents.operations()`

#[path = "c08_codec.rs"]
mod codec;
#[path = "c08_equiv.rs"]
mod equiv;
#[path = "c08_gen.rs"]
mod gen;

use crate::driver::{hex, Driver};
use crate::pdfwrite::*;
use crate::report::*;
use crate::rng::Rng;
use codec::*;
use gen::*;
use pdf::content::*;
use pdf::file::{FileOptions, NoCache, NoLog, Storage};
use pdf::object::ParseOptions;
use pdf::primitive::Primitive;
use serde_json::json;
use std::panic::{catch_unwind, AssertUnwindSafe};

type St = Storage<Vec<u8>, NoCache, NoCache, NoLog>;

/// a resolver whose only purpose is to carry `allow_invalid_ops`
fn storage(allow: bool) -> St {
    let opts = ParseOptions { allow_invalid_ops: allow, ..ParseOptions::strict() };
    Storage::with_cache(b"%PDF-1.7\n".to_vec(), opts, NoCache, NoCache, NoLog).expect("storage")
}

struct Ctx {
    strict: St,
    tolerant: St,
    /// `Primitive::Number` is written with a decimal point always (D9 repaired in primitive.rs)
    prim_dot: bool,
}

impl Ctx {
    fn new() -> Ctx {
        let mut v = vec![];
        Primitive::Number(1.0).serialize(&mut v).unwrap();
        Ctx { strict: storage(false), tolerant: storage(true), prim_dot: v.contains(&b'.') }
    }
    fn parse(&self, data: &[u8], allow: bool) -> Result<Vec<Op>, String> {
        let st = if allow { &self.tolerant } else { &self.strict };
        match catch_unwind(AssertUnwindSafe(|| parse_ops(data, &st.resolver()))) {
            Ok(Ok(ops)) => Ok(ops),
            Ok(Err(_)) => Err("err".into()),
            Err(_) => Err("panic".into()),
        }
    }
}

fn answer(r: &Result<Vec<Op>, String>) -> String {
    match r {
        Ok(ops) => format!("ok {}", show_ops(ops)),
        Err(e) => e.clone(),
    }
}

fn real_serialize(ops: &[Op]) -> Result<Vec<u8>, String> {
    match catch_unwind(AssertUnwindSafe(|| serialize_ops(ops))) {
        Ok(Ok(b)) => Ok(b),
        Ok(Err(_)) => Err("err".into()),
        Err(_) => Err("panic".into()),
    }
}

fn b01(b: bool) -> &'static str {
    if b { "1" } else { "0" }
}

/// an `Op::InlineImage` to plant into sequences (`None` when the library cannot read one: the oracles report that)
fn an_inline_image(ctx: &Ctx) -> Option<Op> {
    let mut data = vec![];
    print_image(&Some((2, 1, b'A')), &mut data);
    data.push(b'\n');
    match ctx.parse(&data, false) {
        Ok(mut ops) if ops.len() == 1 && matches!(ops[0], Op::InlineImage { .. }) => ops.pop(),
        _ => None,
    }
}

// ---------------------------------------------------------------------------------------------------
// c08.real

fn stream_real(driver: &Driver, seed: u64, n: u64) -> Stream {
    let mut st = Stream::new("c08.real", true);
    let mut reqs = vec![];
    let mut imps = vec![];
    let mut xs: Vec<f32> = BOUNDARY_REALS.to_vec();
    xs.extend_from_slice(&[f32::NAN, -f32::NAN, f32::INFINITY, f32::NEG_INFINITY, f32::from_bits(0x7f800001), 0.75, 2.0f32.powi(24) - 1.0, 2.0f32.powi(23) + 0.5, 2.0f32.powi(22) + 0.25, 7.0, -8.0]);
    let mut rng = Rng::derive(seed, "c08.real", 0);
    for _ in 0..n {
        xs.push(f32::from_bits(rng.next() as u32));
        xs.push(rng.range(-70000, 70000) as f32 / 8.0);
    }
    let mut ints: Vec<i64> = vec![0, 1, -1, 16777215, 16777216, 16777217, 16777218, 16777219, 33554433, 33554434, 33554435, i32::MAX as i64, i32::MIN as i64, 2147483520, 2147483583, 2147483584, 2147483585, -2147483585, 123456789, -987654321];
    for _ in 0..n {
        ints.push(rng.range(i32::MIN as i64, i32::MAX as i64));
        ints.push(rng.range(-40000000, 40000000));
    }
    for (i, x) in xs.iter().enumerate() {
        let hb = format!("{:08x}", x.to_bits());
        reqs.push(format!("c08.real neg {}", hb));
        imps.push(format!("{:08x}", (-*x).to_bits()));
        reqs.push(format!("c08.real special {}", hb));
        imps.push(if x.is_finite() { "finite".to_string() } else { format!("{}", x) });
        reqs.push(format!("c08.real toint {}", hb));
        // what `{}` prints has no fraction iff the value is integral; the digits are the integer
        let s = format!("{}", x);
        imps.push(if x.is_finite() && !s.contains('.') { if s == "-0" { "0".to_string() } else { s } } else { "none".to_string() });
        reqs.push(format!("c08.real big {}", hb));
        imps.push(b01(x.fract() == 0.0 && x.abs() >= 2147483648.0).to_string());
        let y = xs[(i * 7 + 3) % xs.len()];
        for z in [y, *x, -*x] {
            reqs.push(format!("c08.real beq {} {:08x}", hb, z.to_bits()));
            imps.push(b01(*x == z).to_string());
        }
        st.count(if x.is_nan() { "class=nan" } else if x.is_infinite() { "class=inf" } else if x.fract() == 0.0 { "class=integral" } else { "class=fraction" });
    }
    for i in ints {
        reqs.push(format!("c08.real ofint {}", i));
        imps.push(format!("{:08x}", (i as i32 as f32).to_bits()));
    }
    let resp = driver.ask(&reqs);
    for ((rq, m), i) in reqs.iter().zip(resp.iter()).zip(imps.iter()) {
        st.case(rq, m, i, true);
    }
    st
}

// ---------------------------------------------------------------------------------------------------
// c08.ser

fn gen_ser_case(ctx: &Ctx, seed: u64, name: &str, case: u64, outside: bool, hist: &mut dyn FnMut(&str)) -> Vec<Op> {
    let mut rng = Rng::derive(seed, name, case);
    let mut v = ops(&mut rng, ctx.prim_dot, hist);
    if outside {
        // plant non-finite reals at the top level of some operations
        for _ in 0..1 + rng.usize(3) {
            let i = rng.usize(v.len());
            let x = any_real(&mut rng);
            v[i] = match rng.below(5) {
                0 => Op::LineWidth { width: x },
                1 => Op::MoveTo { p: Point { x, y: 1.0 } },
                2 => Op::Leading { leading: x },
                3 => Op::FillColor { color: Color::Gray(x) },
                _ => Op::TextFont { name: name_of("F1"), size: x },
            };
        }
    } else if rng.chance(1, 25) {
        // the serializer rejects inline images
        let i = rng.usize(v.len() + 1);
        if let Some(img) = an_inline_image(ctx) {
            v.insert(i, img);
            hist("with-inline-image");
        }
    }
    v
}

fn name_of(s: &str) -> pdf::primitive::Name {
    name(s)
}

fn stream_ser(driver: &Driver, ctx: &Ctx, seed: u64, n: u64, outside: bool) -> Stream {
    let name = if outside { "c08.ser.outside" } else { "c08.ser" };
    let mut st = Stream::new(name, !outside);
    let mut reqs = vec![];
    let mut imps = vec![];
    for case in 0..n {
        let mut h: Vec<String> = vec![];
        let v = gen_ser_case(ctx, seed, name, case, outside, &mut |k| h.push(k.to_string()));
        for k in h {
            st.count(&k);
        }
        for op in &v {
            st.count(&format!("op={}", op_kind(op)));
        }
        reqs.push(format!("c08.ser {} {}", b01(ctx.prim_dot), show_ops(&v)));
        imps.push(match real_serialize(&v) {
            Ok(bytes) => match tokenize(&bytes) {
                Ok(ts) => format!("ok {}", show_toks(&ts)),
                Err(e) => format!("untokenizable: {}", e),
            },
            Err(e) => e,
        });
    }
    let resp = driver.ask(&reqs);
    for ((rq, m), i) in reqs.iter().zip(resp.iter()).zip(imps.iter()) {
        st.count(&format!("outcome={}", m.split(' ').next().unwrap_or("")));
        st.case(rq, m, i, rq.contains(';'));
    }
    st
}

// ---------------------------------------------------------------------------------------------------
// c08.parse

struct ParseCase {
    toks: Vec<Tok>,
    /// what the table says the sequence denotes (only when every statement is well-formed and supported)
    expected: Option<Vec<String>>,
}

fn gen_parse_case(seed: u64, name: &str, case: u64, outside: bool, hist: &mut dyn FnMut(&str)) -> ParseCase {
    let mut rng = Rng::derive(seed, name, case);
    let n = 1 + rng.usize(12);
    let mut toks = vec![];
    let mut expected = Some(vec![]);
    let mut path = PathSt::default();
    let mut in_bx = false;
    for _ in 0..n {
        let k = rng.below(20);
        if outside && k < 6 {
            let s = bad_stmt(&mut rng);
            hist(&format!("bad={}", s.kw));
            toks.extend(stmt_toks(&[s]));
            expected = None;
        } else if k == 6 {
            let img = if rng.chance(1, 5) { None } else { Some((1 + rng.below(3) as u8, 1 + rng.below(3) as u8, *rng.pick(b"ABCxyz019\nEI ")) ) };
            // stray operands in front of BI are dropped with the buffer
            if outside && rng.chance(1, 3) {
                toks.push(Tok::Prim(Primitive::Integer(5)));
            }
            hist(if img.is_some() { "inline-image" } else { "inline-image-failing" });
            if let (Some(e), Some((w, h, b))) = (expected.as_mut(), img) {
                e.push(format!("II:{}", planted_id(w, h, b)));
            } else {
                expected = None;
            }
            toks.push(Tok::Img(img));
        } else if k == 7 {
            // compatibility section: unknown operators are ignored between BX and EX
            hist("bx-ex");
            toks.push(Tok::Kw(if in_bx { "EX" } else { "BX" }.into()));
            in_bx = !in_bx;
            if rng.chance(1, 2) {
                toks.push(Tok::Prim(Primitive::Integer(1)));
                toks.push(Tok::Kw(rng.pick(&["foo", "xyz", "d2"]).to_string()));
                if !in_bx {
                    expected = None;
                }
            }
        } else if k == 8 {
            hist("unsupported-d0-d1");
            let (kw, cnt) = if rng.chance(1, 2) { ("d0", 2) } else { ("d1", 6) };
            for _ in 0..cnt {
                toks.push(Tok::Prim(Primitive::Integer(rng.range(0, 900) as i32)));
            }
            toks.push(Tok::Kw(kw.into()));
        } else {
            let (s, den) = wf_stmt(&mut rng, &mut path);
            hist(&format!("kw={}", s.kw));
            toks.extend(stmt_toks(&[s]));
            if let Some(e) = expected.as_mut() {
                e.extend(den);
            }
        }
    }
    if outside && rng.chance(1, 4) {
        // operands left over at the end of the data
        toks.push(Tok::Prim(Primitive::Integer(7)));
        hist("trailing-operands");
    }
    ParseCase { toks, expected }
}

fn stream_parse(driver: &Driver, ctx: &Ctx, seed: u64, n: u64, outside: bool) -> Stream {
    let name = if outside { "c08.parse.outside" } else { "c08.parse" };
    let mut st = Stream::new(name, !outside);
    let mut reqs = vec![];
    let mut imps = vec![];
    for case in 0..n {
        let mut h: Vec<String> = vec![];
        let c = gen_parse_case(seed, name, case, outside, &mut |k| h.push(k.to_string()));
        for k in h {
            st.count(&k);
        }
        let bytes = print_toks(&c.toks);
        for allow in [false, true] {
            reqs.push(format!("c08.parse {} {}", b01(allow), show_toks(&c.toks)));
            imps.push(answer(&ctx.parse(&bytes, allow)));
        }
    }
    let resp = driver.ask(&reqs);
    for ((rq, m), i) in reqs.iter().zip(resp.iter()).zip(imps.iter()) {
        st.count(&format!("outcome={}", m.split(' ').next().unwrap_or("")));
        st.case(rq, m, i, rq.matches(";K").count() >= 2);
    }
    st
}

// ---------------------------------------------------------------------------------------------------
// c08.kw, c08.spec: every keyword of the table

const EXTRA_KEYWORDS: &[&str] = &["Do0", "foo", "BXX", "Rx", "obj", "T", "re*"];

/// a few statements that establish a current point / a subpath start / nothing, placed before the keyword
fn prefixes() -> Vec<(Vec<Stmt>, PathSt)> {
    let i = |n: i32| Primitive::Integer(n);
    let s = |args: Vec<Primitive>, kw: &str| Stmt { args, kw: kw.to_string() };
    let mut out = vec![(vec![], PathSt::default())];
    let mv = s(vec![i(3), Primitive::Number(4.5)], "m");
    let ln = s(vec![i(7), i(8)], "l");
    out.push((vec![mv.clone(), ln.clone()], PathSt { cur: Some((7.0, 8.0)), start: Some((3.0, 4.5)) }));
    out.push((vec![mv.clone(), ln.clone(), s(vec![], "h")], PathSt { cur: Some((3.0, 4.5)), start: Some((3.0, 4.5)) }));
    out.push((vec![mv, ln, s(vec![i(10), i(20), i(5), i(6)], "re")], PathSt { cur: Some((10.0, 20.0)), start: Some((10.0, 20.0)) }));
    out
}

fn prefix_expected(p: &[Stmt]) -> Vec<String> {
    // the prefixes above, written out by hand
    let mut out = vec![];
    for s in p {
        match s.kw.as_str() {
            "m" => out.push(format!("m:{}:{}", bits(3.0), bits(4.5))),
            "l" => out.push(format!("l:{}:{}", bits(7.0), bits(8.0))),
            "h" => out.push("h".into()),
            "re" => out.push(format!("re:{}:{}:{}:{}", bits(10.0), bits(20.0), bits(5.0), bits(6.0))),
            _ => unreachable!(),
        }
    }
    out
}

struct KwCase {
    prefix: Vec<Stmt>,
    path: PathSt,
    stmt: Stmt,
    vals: Option<Vec<V>>,
}

fn kw_cases(seed: u64, per_kw: u64, outside: bool) -> Vec<KwCase> {
    let mut out = vec![];
    let pre = prefixes();
    let kws: Vec<&str> = TABLE.iter().map(|e| e.kw).chain(EXTRA_KEYWORDS.iter().copied()).collect();
    for (ki, kw) in kws.iter().enumerate() {
        if *kw == "BI" {
            continue; // a bare `BI` is below token level (see Tok.bi); inline images are generated as constructs
        }
        for j in 0..per_kw {
            let mut rng = Rng::derive(seed, if outside { "c08.kw.outside" } else { "c08.kw" }, (ki as u64) * 1000 + j);
            let (prefix, path) = pre[(j as usize) % pre.len()].clone();
            let sig: &[K] = entry(kw).map(|e| e.sig).unwrap_or(&[]);
            let (mut args, vals) = operands(&mut rng, sig, int_range_of(kw));
            let mut vals = Some(vals);
            if outside {
                vals = None;
                match j % 5 {
                    0 => { args.pop(); }
                    1 => args.push(prim(&mut rng, 1, true)),
                    2 => args.insert(0, prim(&mut rng, 1, true)),
                    3 => {
                        if !args.is_empty() {
                            let i = rng.usize(args.len());
                            args[i] = if matches!(args[i], Primitive::Name(_)) { Primitive::Integer(1) } else { Primitive::Name("x".into()) };
                        } else {
                            args.push(Primitive::Null);
                        }
                    }
                    _ => args.clear(),
                }
            }
            out.push(KwCase { prefix, path, stmt: Stmt { args, kw: kw.to_string() }, vals });
        }
    }
    out
}

fn stream_kw(driver: &Driver, ctx: &Ctx, seed: u64, per_kw: u64, outside: bool) -> Stream {
    let name = if outside { "c08.kw.outside" } else { "c08.kw" };
    let mut st = Stream::new(name, !outside);
    st.exhaustive = true;
    let mut reqs = vec![];
    let mut imps = vec![];
    for c in kw_cases(seed, per_kw, outside) {
        let mut ss = c.prefix.clone();
        ss.push(c.stmt.clone());
        let toks = stmt_toks(&ss);
        let bytes = print_toks(&toks);
        st.count(&format!("kw={}", c.stmt.kw));
        for allow in [false, true] {
            reqs.push(format!("c08.parse {} {}", b01(allow), show_toks(&toks)));
            imps.push(answer(&ctx.parse(&bytes, allow)));
        }
    }
    let resp = driver.ask(&reqs);
    for ((rq, m), i) in reqs.iter().zip(resp.iter()).zip(imps.iter()) {
        st.count(&format!("outcome={}", m.split(' ').next().unwrap_or("")));
        st.case(rq, m, i, true);
    }
    st
}

fn show_cur(p: &PathSt) -> String {
    match p.cur {
        Some((x, y)) => format!("{}.{}", bits(x), bits(y)),
        None => "-".into(),
    }
}

/// the harness' table against the Lean spec table
fn stream_spec(driver: &Driver, seed: u64, per_kw: u64) -> Stream {
    let mut st = Stream::new("c08.spec", true);
    st.exhaustive = true;
    let mut reqs = vec![];
    let mut imps = vec![];
    let mut mutated = vec![];
    for outside in [false, true] {
        for c in kw_cases(seed ^ 0x5bec, per_kw, outside) {
            mutated.push(outside);
            let e = entry(&c.stmt.kw);
            let ps = if c.stmt.args.is_empty() { "-".to_string() } else { c.stmt.args.iter().map(show_prim).collect::<Vec<_>>().join(";") };
            reqs.push(format!("c08.spec {} {} {}", show_cur(&c.path), hex(c.stmt.kw.as_bytes()), ps));
            imps.push(match e {
                None => "none".to_string(),
                Some(e) => match e.support {
                    Support::Unsupported => "unsupported".into(),
                    Support::Construct => "construct".into(),
                    Support::Full => match c.vals.as_ref().and_then(|v| denote(e.kw, v, c.path.cur)) {
                        Some(d) => format!("ok {}", d.join(";")),
                        None => "illformed".into(),
                    },
                },
            });
            st.count(&format!("kw={}", c.stmt.kw));
        }
    }
    let resp = driver.ask(&reqs);
    for (((rq, m), i), mutated) in reqs.iter().zip(resp.iter()).zip(imps.iter()).zip(mutated.iter()) {
        // ill-formed operands are made by mutation and the harness has no values for them: the spec may still
        // accept some of them (an extra number for `SC`); those are not compared
        if *mutated && i == "illformed" && m.starts_with("ok ") {
            st.count("mutation-still-wellformed");
            continue;
        }
        st.count(&format!("outcome={}", m.split(' ').next().unwrap_or("")));
        st.case(rq, m, i, true);
    }
    st
}

// ---------------------------------------------------------------------------------------------------
// c08.inline: where the data of an inline image ends (byte level, model = Model/ContentInline.lean)

fn stream_inline(driver: &Driver, ctx: &Ctx, seed: u64, n: u64) -> Stream {
    let mut st = Stream::new("c08.inline", true);
    let mut reqs = vec![];
    let mut rests = vec![];
    for case in 0..n {
        let mut rng = Rng::derive(seed, "c08.inline", case);
        let mut rest: Vec<u8> = vec![*rng.pick(b"  \n\r\t")];
        for _ in 0..rng.usize(8) {
            rest.push(*rng.pick(b"Ax\n\nEEII \r0"));
        }
        let term: &[u8] = match rng.below(10) {
            0 => b" EI",
            1 => b"\rEI",
            2 => b"\r\nEI",
            3 => b"\tEI",
            4 => b" EIx",
            5 => b"\nEI/",
            _ => b"\nEI",
        };
        st.count(&format!("terminator={:?}", String::from_utf8_lossy(term)));
        rest.extend_from_slice(term);
        rest.extend_from_slice(*rng.pick(&[&b" Q\n"[..], b"\nq 1 w\n", b"", b"\n", b" Q\nq BI /W 1 /H 1 /BPC 8 /CS /G ID B\nEI S\n", b"Q\n"]));
        reqs.push(format!("c08.inline {}", hex(&rest)));
        rests.push(rest);
    }
    let resp = driver.ask(&reqs);
    for ((rq, m), rest) in reqs.iter().zip(resp.iter()).zip(rests.iter()) {
        let mut bytes = b"BI /W 1 /H 1 /BPC 8 /CS /G ID".to_vec();
        bytes.extend_from_slice(rest);
        let imp = match ctx.parse(&bytes, false) {
            Ok(ops) => match ops.first() {
                Some(Op::InlineImage { image }) => {
                    let d = image.inner.data(&pdf::object::NoResolve).map(|d| d.to_vec()).unwrap_or_default();
                    format!("ok {} {}", hex(&d), show_ops(&ops[1..]))
                }
                _ => "no-image".to_string(),
            },
            Err(e) => e,
        };
        // the model answers with the bytes that follow EI: read them with the real reader
        let f: Vec<&str> = m.split(' ').collect();
        let model = if f.len() == 3 && f[0] == "ok" {
            match crate::driver::unhex(f[2]).map(|t| ctx.parse(&t, false)) {
                Some(Ok(ops)) => format!("ok {} {}", f[1], show_ops(&ops)),
                Some(Err(e)) => e,
                None => "bad-model-answer".to_string(),
            }
        } else if m == "none" { "err".to_string() } else { m.clone() };
        st.count(&format!("outcome={}", model.split(' ').next().unwrap_or("")));
        st.case(rq, &model, &imp, true);
    }
    st
}

include!("c08_bytes.rs");
include!("c08_oracles.rs");
