//! C06 correspondence streams (stub)
use crate::driver::Driver;
use crate::report::*;

pub fn run(_driver: &Driver, _rep: &mut Report, _seed: u64, _thorough: bool) {}
pub fn replay(_driver: &Driver, _rep: &mut Report, _name: &str, _seed: u64, _case: u64) {}
