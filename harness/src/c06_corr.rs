//! C06 correspondence streams: the Lean model (lean/PdfModel/Model/Crypt.lean, driven through
//! lean/PdfModel/Drv/C06.lean) against the real functions of pdf/src/crypt.rs and the file loader.
//!
//!   c06.rc4              `Rc4::encrypt`: every 1-byte key, random keys of 1..=256 bytes        (in domain)
//!   c06.rc4.outside      empty / over-long keys (assert)                                       (drift only)
//!   c06.decrypt          `Decoder::new(..).decrypt(..)` on what a conforming writer produces:
//!                        V2 with every key length 5..=16, AESV2, AESV3; object numbers and
//!                        generations up to u64; lengths 0, 1, 15, 16, 17, 31, 32, …            (in domain)
//!   c06.decrypt.garbage  same decoders on arbitrary bytes (bad padding, odd lengths)           (drift only)
//!   c06.decrypt.outside  inconsistent decoders (`key` shorter than `key_size`, method None)    (drift only)
//!   c06.frompw           `CryptDict::from_primitive` + `Decoder::from_password` + `decrypt` of a probe on
//!                        dictionaries made by the harness' implementation of the standard, with the
//!                        user / owner / wrong / near-miss passwords                           (in domain)
//!   c06.frompw.outside   mutated dictionaries (V, R, Length, CF, U/O/UE/OE lengths …)           (drift only)
//!   c06.doc              whole generated documents: `load` with a password, then every object
//!                        resolved; the model gets the stored strings / stream bytes and predicts
//!                        what each object yields (exemptions, object streams, ids from headers) (in domain)
//! The oracle tables sent with each case are computed by the harness' *own* implementation of the
//! reader side of the standard (`c06_std.rs`), so a model that hashes other bytes answers `miss`.

use super::doc::*;
use super::std_sec::*;
use crate::driver::{hex, Driver};
use crate::report::*;
use crate::rng::Rng;
use crate::util::*;
use pdf::crypt::{CryptDict, CryptMethod, Decoder, Rc4};
use pdf::file::FileOptions;
use pdf::object::{NoResolve, Object, PlainRef, Resolve};
use pdf::parser::{parse, ParseFlags};
use pdf::primitive::Primitive;
use std::panic::{catch_unwind, AssertUnwindSafe};

fn cm(c: Cipher) -> (&'static str, CryptMethod) {
    match c {
        Cipher::Rc4 => ("v2", CryptMethod::V2),
        Cipher::Aes128 => ("aesv2", CryptMethod::AESV2),
        Cipher::Aes256 => ("aesv3", CryptMethod::AESV3),
    }
}

fn run_stream(driver: &Driver, st: &mut Stream, reqs: &[String], imps: &[String], nontrivial: &[bool]) {
    if let Ok(dir) = std::env::var("VERIF_DUMP") {
        let _ = std::fs::write(format!("{}/{}.req", dir, st.name), reqs.join("\n") + "\n");
    }
    let t = std::time::Instant::now();
    let resp = driver.ask(reqs);
    st.count(&format!("driver-seconds={}", t.elapsed().as_secs()));
    for (((rq, m), i), nt) in reqs.iter().zip(resp.iter()).zip(imps.iter()).zip(nontrivial.iter()) {
        let key = m.split(' ').next().unwrap_or("").to_string();
        st.count(&format!("model={}", key));
        st.case(rq, m, i, *nt);
    }
}

// ------------------------------------------------------------------------------------------------ rc4

fn real_rc4(key: &[u8], data: &[u8]) -> String {
    let mut d = data.to_vec();
    match catch_unwind(AssertUnwindSafe(|| Rc4::encrypt(key, &mut d))) {
        Ok(()) => format!("ok {}", hex(&d)),
        Err(_) => "panic".into(),
    }
}

fn rc4_streams(driver: &Driver, seed: u64, n: u64, or: &mut Oracle) -> (Stream, Stream) {
    let mut st = Stream::new("c06.rc4", true);
    let mut out = Stream::new("c06.rc4.outside", false);
    let (mut reqs, mut imps, mut nts) = (vec![], vec![], vec![]);
    let mut push = |key: &[u8], data: &[u8], or: &mut Oracle| {
        reqs.push(format!("c06.rc4 {} {}", hex(key), hex(data)));
        let r = real_rc4(key, data);
        // the library's RC4 against the harness' own RC4 (the one that encrypts the generated documents)
        or.case(&format!("rc4 {} {}", hex(key), data.len()), !data.is_empty(), || serde_json::json!({"rc4_key": hex(key), "len": data.len()}));
        if r != format!("ok {}", hex(&rc4(key, data))) {
            or.fail("rc4-differs", &format!("Rc4::encrypt differs from the reference RC4 for key {}", hex(key)), serde_json::json!({"oracle": "c06.primitives", "key": hex(key), "data": hex(data)}));
        }
        imps.push(r);
        nts.push(!data.is_empty());
    };
    for b in 0..=255u8 {
        push(&[b], &[0, 0, 0, 0, 0xff], or);
    }
    for case in 0..n {
        let mut rng = Rng::derive(seed, "c06.rc4", case);
        let kl = match rng.below(6) { 0 => 1 + rng.usize(4), 1 => 5, 2 => 16, 3 => 256, 4 => 200 + rng.usize(56), _ => 5 + rng.usize(12) };
        let dl = match rng.below(5) { 0 => 0, 1 => 1, 2 => 256 + rng.usize(300), _ => rng.usize(64) };
        let key = rng.bytes(kl);
        let data = rng.bytes(dl);
        st.count(&format!("keylen={}", if kl <= 16 { kl.to_string() } else { ">16".into() }));
        push(&key, &data, or);
    }
    drop(push);
    run_stream(driver, &mut st, &reqs, &imps, &nts);
    // outside: the assert of Rc4::new
    let (mut reqs, mut imps, mut nts) = (vec![], vec![], vec![]);
    for kl in [0usize, 257, 300] {
        for dl in [0usize, 3] {
            let key = vec![7u8; kl];
            let data = vec![1u8; dl];
            reqs.push(format!("c06.rc4 {} {}", hex(&key), hex(&data)));
            imps.push(real_rc4(&key, &data));
            nts.push(true);
        }
    }
    run_stream(driver, &mut out, &reqs, &imps, &nts);
    (st, out)
}

// -------------------------------------------------------------------------------------------- decrypt

fn real_decrypt(dec: &Decoder, id: u64, gen: u64, data: &[u8]) -> String {
    let mut buf = data.to_vec();
    match catch_unwind(AssertUnwindSafe(|| dec.decrypt(PlainRef { id, gen }, &mut buf).map(|s| s.to_vec()))) {
        Ok(Ok(v)) => format!("ok {}", hex(&v)),
        Ok(Err(_)) => "err".into(),
        Err(_) => "panic".into(),
    }
}

pub fn rand_objid(rng: &mut Rng) -> (u64, u64) {
    let id = match rng.below(8) {
        0 => 0,
        1 => rng.below(256),
        2 => 255 + rng.below(3),
        3 => 65535 + rng.below(3),
        4 => 0xff_ffff + rng.below(3),          // the fourth byte must be ignored
        5 => rng.next(),                         // any u64
        6 => rng.below(1 << 24),
        _ => 1 + rng.below(50),
    };
    let gen = match rng.below(6) {
        0 => 0,
        1 => 255 + rng.below(3),
        2 => 65535 + rng.below(3),               // the third byte must be ignored
        3 => rng.next(),
        _ => rng.below(3),
    };
    (id, gen)
}

fn decrypt_streams(driver: &Driver, seed: u64, n: u64) -> Vec<Stream> {
    let mut st = Stream::new("c06.decrypt", true);
    let mut garbage = Stream::new("c06.decrypt.garbage", false);
    let mut outside = Stream::new("c06.decrypt.outside", false);
    let mut a = (vec![], vec![], vec![]);
    let mut b = (vec![], vec![], vec![]);
    let mut c = (vec![], vec![], vec![]);
    let vars = variants();
    for case in 0..n {
        let mut rng = Rng::derive(seed, "c06.decrypt", case);
        // every variant in turn, so that every RC4 key length is hit
        let var = &vars[(case as usize) % vars.len()];
        let (mname, method) = cm(var.cipher);
        let file_key = rng.bytes(var.n);
        // the key vector as from_password leaves it: max(n, 16) bytes, the file key in front
        let mut key_vec = file_key.clone();
        if var.cipher == Cipher::Rc4 {
            key_vec.extend(rng.bytes(16 - var.n.min(16)));
        }
        let (id, gen) = rand_objid(&mut rng);
        let plain = rand_plain(&mut rng);
        let em = rng.chance(1, 2);
        let dec = Decoder::new(key_vec.clone(), var.n, method, em);
        let mut iv = [0u8; 16];
        iv.copy_from_slice(&rng.bytes(16));
        let mut rec = Rec::new();
        let ct = encrypt_object(&mut rec, var.cipher, &file_key, id, gen, &plain, &iv);
        st.count(&format!("variant={}", var.name));
        st.count(&format!("len={}", if plain.len() % 16 == 0 { format!("{}(aligned)", plain.len()) } else { "other".into() }));
        a.0.push(format!("c06.decrypt {} {} {} {} {} {} {} 0 {}", mname, var.n, hex(&key_vec), em as u8, id, gen, hex(&ct), rec.render()));
        a.1.push(real_decrypt(&dec, id, gen, &ct));
        a.2.push(true);
        // garbage: arbitrary bytes, or a valid ciphertext with one byte changed / truncated
        let g = match rng.below(4) {
            0 => { let k = rand_len(&mut rng); rng.bytes(k) }
            1 if !ct.is_empty() => { let mut x = ct.clone(); let i = rng.usize(x.len()); x[i] ^= 1 << rng.below(8); x }
            2 if !ct.is_empty() => ct[..ct.len() - 1 - rng.usize(ct.len().min(17))].to_vec(),
            _ => { let k = 16 * (1 + rng.usize(4)); rng.bytes(k) }
        };
        let mut rec = Rec::new();
        let _ = decrypt_object(&mut rec, var.cipher, &file_key, id, gen, &g);
        b.0.push(format!("c06.decrypt {} {} {} {} {} {} {} 0 {}", mname, var.n, hex(&key_vec), em as u8, id, gen, hex(&g), rec.render()));
        b.1.push(real_decrypt(&dec, id, gen, &g));
        b.2.push(!g.is_empty());
        // outside: arbitrary (key_size, key length, method), all primitives Lean-native
        let ks = match rng.below(4) { 0 => rng.usize(6), 1 => 16 + rng.usize(20), _ => rng.usize(18) };
        let kl = match rng.below(4) { 0 => rng.usize(6), 1 => 32, 2 => 16, _ => rng.usize(40) };
        let key = rng.bytes(kl);
        let (mn, m) = *rng.pick(&[("v2", CryptMethod::V2), ("aesv2", CryptMethod::AESV2), ("aesv3", CryptMethod::AESV3), ("none", CryptMethod::None)]);
        let dec = Decoder::new(key.clone(), ks, m, em);
        let data = if rng.chance(1, 2) { g.clone() } else { ct.clone() };
        c.0.push(format!("c06.decrypt {} {} {} {} {} {} {} 2 -", mn, ks, hex(&key), em as u8, id, gen, hex(&data)));
        c.1.push(real_decrypt(&dec, id, gen, &data));
        c.2.push(true);
    }
    run_stream(driver, &mut st, &a.0, &a.1, &a.2);
    run_stream(driver, &mut garbage, &b.0, &b.1, &b.2);
    run_stream(driver, &mut outside, &c.0, &c.1, &c.2);
    vec![st, garbage, outside]
}

// ------------------------------------------------------------------------------------------- frompw

/// the dictionary as PDF text (hex strings), parsed by the library itself
fn dict_primitive(f: &DictFields) -> Result<Primitive, String> {
    let mut rng = Rng::new(1);
    let mut b = vec![];
    ser_opt(&f.to_pv(), &mut |s: &[u8]| s.to_vec(), &mut rng, &mut b, true);
    parse(&b, &NoResolve, ParseFlags::DICT).map_err(|e| format!("{}", e))
}

fn debug_key(dec: &Decoder) -> String {
    // `Decoder { key: [1, 2], method: V2 }`
    match catch_unwind(AssertUnwindSafe(|| format!("{:?}", dec))) {
        Err(_) => "panic ?".into(),
        Ok(s) => {
            let key = s.split("key: [").nth(1).and_then(|r| r.split(']').next()).unwrap_or("");
            let bytes: Vec<u8> = key.split(',').filter_map(|x| x.trim().parse::<u8>().ok()).collect();
            let m = if s.contains("AESV2") { "aesv2" } else if s.contains("AESV3") { "aesv3" } else if s.contains("V2") { "v2" } else { "none" };
            format!("{} {}", hex(&bytes), m)
        }
    }
}

pub fn real_frompw(f: &DictFields, id0: &[u8], pass: &[u8], pid: u64, pgen: u64, pdata: &[u8]) -> String {
    let r = catch_unwind(AssertUnwindSafe(|| {
        let prim = match dict_primitive(f) {
            Ok(p) => p,
            Err(e) => return format!("dict-parse-failed {}", e),
        };
        let cd = match CryptDict::from_primitive(prim, &NoResolve) {
            Ok(c) => c,
            Err(_) => return "err".to_string(),
        };
        match Decoder::from_password(&cd, id0, pass) {
            Ok(dec) => {
                let probe = real_decrypt(&dec, pid, pgen, pdata).replacen("ok ", "ok:", 1);
                format!("ok {} {}", debug_key(&dec), probe)
            }
            Err(e) => if err_class(&e) == "BADPW" { "badpw".into() } else { "err".into() },
        }
    }));
    r.unwrap_or_else(|_| "panic".into())
}

pub struct PwCase {
    pub var: Variant,
    pub params: Params,
    pub entries: Entries,
    pub fields: DictFields,
    pub user_pw: Vec<u8>,
    pub owner_pw: Vec<u8>,
}

pub fn gen_pwcase(rng: &mut Rng, var: &Variant) -> PwCase {
    let id_len = if rng.chance(1, 8) { rng.usize(40) } else { 16 };
    let id0 = rng.bytes(id_len);
    let p: i32 = *rng.pick(&[-4, -44, -3904, -1, 0, i32::MIN, i32::MAX, -1340, 1, 0x01020304]);
    let em = if var.v >= 4 { rng.chance(1, 2) } else { true };
    let params = Params { r: var.r, n: var.n, cipher: var.cipher, p, id0, encrypt_metadata: em };
    let user_pw = rand_password(rng, var.r);
    let owner_pw = if rng.chance(1, 10) { user_pw.clone() } else { rand_password(rng, var.r) };
    let mut src = Rng::derive(rng.next(), "c06.entries", 0);
    let mut rnd = |k: usize| src.bytes(k);
    let entries = make_entries(&mut Rec::off(), &params, &user_pw, &owner_pw, &mut rnd);
    let (mut fields, _) = dict_fields(rng, var, &entries, p, em);
    if var.v < 4 && rng.chance(1, 4) {
        fields.encrypt_metadata = Some(false); // meaningless before V 4: must not influence anything
    }
    PwCase { var: var.clone(), params, entries, fields, user_pw, owner_pw }
}

/// the password roles tried against a dictionary
fn pick_password(rng: &mut Rng, c: &PwCase) -> (&'static str, Vec<u8>) {
    let (role, pw) = pick_password0(rng, c);
    if c.var.r >= 5 && saslprep_known(&pw).is_none() {
        // outside the SASLprep cases the harness knows the answer for
        return ("wrong", b"some other password".to_vec());
    }
    (role, pw)
}

fn pick_password0(rng: &mut Rng, c: &PwCase) -> (&'static str, Vec<u8>) {
    match rng.below(8) {
        0 | 1 => ("user", c.user_pw.clone()),
        2 | 3 => ("owner", c.owner_pw.clone()),
        4 => {
            // beyond the significant prefix: still the same password for a conforming reader
            let base = if rng.chance(1, 2) { c.user_pw.clone() } else { c.owner_pw.clone() };
            let lim = if c.var.r >= 5 { 127 } else { 32 };
            if base.len() >= lim && base.iter().all(|b| (0x20..0x7f).contains(b)) || (base.len() >= lim && c.var.r < 5) {
                let mut b = base;
                b.extend_from_slice(b"tail");
                ("beyond-limit", b)
            } else {
                ("user", c.user_pw.clone())
            }
        }
        5 => {
            let mut b = if rng.chance(1, 2) { c.user_pw.clone() } else { c.owner_pw.clone() };
            if b.is_empty() { b.push(b'x') } else { let i = rng.usize(b.len().min(32)); b[i] = if b[i] == b'a' { b'b' } else { b'a' }; }
            ("near-miss", b)
        }
        6 if c.var.r >= 5 => ("not-preppable", (*rng.pick(&[&b"\x07"[..], &b"\xff\xfe"[..], "\u{0627}1".as_bytes()])).to_vec()),
        _ => ("wrong", rand_password(rng, c.var.r)),
    }
}

fn frompw_stream(driver: &Driver, seed: u64, n: u64) -> Stream {
    let mut st = Stream::new("c06.frompw", true);
    let (mut reqs, mut imps, mut nts) = (vec![], vec![], vec![]);
    let vars = variants();
    for case in 0..n {
        let mut rng = Rng::derive(seed, "c06.frompw", case);
        let var = if case % 3 == 0 { pick_variant(&mut rng) } else { vars[(case as usize / 3) % vars.len()].clone() };
        let c = gen_pwcase(&mut rng, &var);
        let (role, pw) = pick_password(&mut rng, &c);
        // the probe: an object encrypted under the true file key
        let (pid, pgen) = rand_objid(&mut rng);
        let plain = rand_plain(&mut rng);
        let mut iv = [0u8; 16];
        iv.copy_from_slice(&rng.bytes(16));
        let probe = encrypt_object(&mut Rec::off(), var.cipher, &c.entries.file_key, pid, pgen, &plain, &iv);
        // tables: what the reader side of the standard evaluates for this password and this probe
        let mut rec = Rec::new();
        let native = if var.r == 6 { 1 } else { 0 };
        // Algorithm 2.B of revision 6 is evaluated by the driver with the Lean-native primitives
        rec.skip_kdf = var.r == 6;
        let auth = authenticate(&mut rec, &c.params, &c.entries.o, &c.entries.u, &c.entries.oe, &c.entries.ue, &pw);
        let expect = match &auth {
            Auth::Key(k) => {
                let _ = decrypt_object(&mut rec, var.cipher, k, pid, pgen, &probe);
                "accepted"
            }
            Auth::Wrong => "rejected",
        };
        st.count(&format!("variant={}", var.name));
        st.count(&format!("password={}", role));
        st.count(&format!("standard-says={}", expect));
        reqs.push(format!("c06.frompw {} {} {} {} {} {} {} {}", c.fields.proto(), hex(&c.params.id0), hex(&pw), pid, pgen, hex(&probe), native, rec.render()));
        imps.push(real_frompw(&c.fields, &c.params.id0, &pw, pid, pgen, &probe));
        nts.push(true);
    }
    run_stream(driver, &mut st, &reqs, &imps, &nts);
    st
}

fn frompw_outside(driver: &Driver, seed: u64, n: u64) -> Stream {
    let mut st = Stream::new("c06.frompw.outside", false);
    let (mut reqs, mut imps, mut nts) = (vec![], vec![], vec![]);
    for case in 0..n {
        let mut rng = Rng::derive(seed, "c06.frompw.outside", case);
        let mut var = pick_variant(&mut rng);
        if var.r == 6 && rng.chance(2, 3) {
            var = variants().into_iter().find(|v| v.r == 5).unwrap();
        }
        let mut c = gen_pwcase(&mut rng, &var);
        // passwords restricted to printable ASCII (SASLprep = identity) so that the table is complete
        let pw = if rng.chance(1, 2) { c.user_pw.clone() } else if rng.chance(1, 2) { c.owner_pw.clone() } else { b"other".to_vec() };
        let nmut = 1 + rng.usize(2);
        let mut what = vec![];
        for _ in 0..nmut {
            let f = &mut c.fields;
            match rng.below(16) {
                0 => { f.v = *rng.pick(&[0, 3, 6, 7, -1, 5, 4, 2, 1]); what.push("V") }
                1 => { f.r = *rng.pick(&[0, 1, 7, 2, 3, 4, 5, 6]); what.push("R") }
                2 => { f.bits = Some(*rng.pick(&[0, 4, 8, 12, 32, 41, 128, 136, 256, 1024])); what.push("Length") }
                3 => { f.bits = None; what.push("noLength") }
                4 => { f.stm_f = None; what.push("noStmF") }
                5 => { f.stm_f = Some("Other".into()); what.push("StmF-unknown") }
                6 => { if let Some(x) = f.cf.get_mut(0) { x.1 = Some((*rng.pick(&["None", "V2", "AESV2", "AESV3"])).to_string()); } what.push("CFM") }
                7 => { if let Some(x) = f.cf.get_mut(0) { x.2 = Some(*rng.pick(&[0, 1, 4, 5, 16, 17, 32, 40, 128])); } what.push("cfLength") }
                8 => { let k = rng.usize(50); f.u = rng.bytes(k); what.push("U-bytes") }
                9 => { f.u.truncate(rng.usize(49)); what.push("U-short") }
                10 => { f.o.truncate(rng.usize(49)); what.push("O-short") }
                11 => { f.ue = match rng.below(4) { 0 => None, 1 => Some(vec![]), 2 => Some(rng.bytes(16)), _ => Some(rng.bytes(31)) }; what.push("UE") }
                12 => { f.oe = match rng.below(4) { 0 => None, 1 => Some(vec![]), 2 => Some(rng.bytes(16)), _ => Some(rng.bytes(48)) }; what.push("OE") }
                13 => { f.cf.clear(); what.push("noCF") }
                14 => { f.encrypt_metadata = Some(rng.chance(1, 2)); what.push("EncryptMetadata") }
                _ => { f.p = rng.range(-5000, 5000); what.push("P") }
            }
        }
        let (pid, pgen) = rand_objid(&mut rng);
        let probe = { let k = 16 * (1 + rng.usize(3)); rng.bytes(k) };
        let mut rec = Rec::new();
        if let Some(p) = saslprep_known(&pw) { rec.prep(&pw, p.as_deref()); }
        for w in &what { st.count(&format!("mutated={}", w)); }
        reqs.push(format!("c06.frompw {} {} {} {} {} {} 2 {}", c.fields.proto(), hex(&c.params.id0), hex(&pw), pid, pgen, hex(&probe), rec.render()));
        imps.push(real_frompw(&c.fields, &c.params.id0, &pw, pid, pgen, &probe));
        nts.push(true);
    }
    run_stream(driver, &mut st, &reqs, &imps, &nts);
    st
}

// ---------------------------------------------------------------------------------------------- doc

fn collect_strings(p: &Primitive, out: &mut Vec<Vec<u8>>) {
    match p {
        Primitive::String(s) => out.push(s.as_bytes().to_vec()),
        Primitive::Array(xs) => xs.iter().for_each(|x| collect_strings(x, out)),
        Primitive::Dictionary(d) => d.iter().for_each(|(_, v)| collect_strings(v, out)),
        Primitive::Stream(s) => s.info.iter().for_each(|(_, v)| collect_strings(v, out)),
        _ => {}
    }
}

fn items(xs: &[Vec<u8>]) -> String {
    if xs.is_empty() { "~".into() } else { xs.iter().map(|x| hex(x)).collect::<Vec<_>>().join("/") }
}

fn real_doc(d: &Doc, pw: &[u8]) -> String {
    let bytes = d.bytes.clone();
    let r = catch_unwind(AssertUnwindSafe(|| {
        let file = match FileOptions::uncached().password(pw).load(bytes) {
            Ok(f) => f,
            Err(e) => return if err_class(&e) == "BADPW" { "badpw".to_string() } else { "err".to_string() },
        };
        let resolver = file.resolver();
        let mut outs = vec![];
        for o in &d.objects {
            let one = catch_unwind(AssertUnwindSafe(|| match resolver.resolve(PlainRef { id: o.id, gen: o.gen }) {
                Err(_) => "err".to_string(),
                Ok(p) => {
                    let mut strs = vec![];
                    collect_strings(&p, &mut strs);
                    if let Primitive::Stream(s) = &p {
                        match s.raw_data(&resolver) {
                            Ok(raw) => strs.push(raw.to_vec()),
                            Err(_) => return "err".to_string(),
                        }
                    }
                    format!("ok:{}", items(&strs))
                }
            }));
            outs.push(one.unwrap_or_else(|_| "panic".into()));
        }
        format!("ok {}", outs.join("|"))
    }));
    r.unwrap_or_else(|_| "panic".into())
}

/// tables for a whole document: authentication + every object the standard says is encrypted
fn doc_tables(d: &Doc, pw: &[u8]) -> (String, u8) {
    let mut rec = Rec::new();
    let native = if d.variant.r == 6 { 1 } else { 0 };
    rec.skip_kdf = d.variant.r == 6;
    let auth = authenticate(&mut rec, &d.params, &d.entries.o, &d.entries.u, &d.entries.oe, &d.entries.ue, pw);
    if let Auth::Key(k) = auth {
        for (o, stored) in d.objects.iter().zip(d.stored.iter()) {
            if o.role == 1 || o.compressed {
                continue; // never encrypted individually
            }
            let is_stream = matches!(o.body, Body::Stream(..));
            for (i, s) in stored.iter().enumerate() {
                let stream_data = is_stream && i + 1 == stored.len();
                if stream_data && o.role == 2 && !d.params.encrypt_metadata {
                    continue; // the metadata stream is stored in the clear
                }
                let _ = decrypt_object(&mut rec, d.variant.cipher, &k, o.id, o.gen, s);
            }
        }
    }
    (rec.render(), native)
}

pub fn doc_request(d: &Doc, pw: &[u8]) -> String {
    let objs: Vec<String> = d
        .objects
        .iter()
        .zip(d.stored.iter())
        .map(|(o, st)| format!("{}.{}.{}.{}.{}", o.id, o.gen, if o.compressed { "c" } else { "d" }, if matches!(o.body, Body::Stream(..)) { "s" } else { "v" }, items(st)))
        .collect();
    let rf = |r: Option<(u64, u64)>| r.map(|(a, b)| format!("{}.{}", a, b)).unwrap_or_else(|| "-".into());
    let (tables, native) = doc_tables(d, pw);
    format!("c06.doc {} {} {} {} {} {} {} {}", d.fields.proto(), hex(&d.params.id0), hex(pw), rf(d.encrypt_ref), rf(d.metadata_ref), native, objs.join("|"), tables)
}

fn doc_stream(driver: &Driver, seed: u64, from: u64, to: u64) -> Stream {
    let mut st = Stream::new("c06.doc", true);
    let (mut reqs, mut imps, mut nts) = (vec![], vec![], vec![]);
    for case in from..to {
        let mut rng = Rng::derive(seed, "c06.doc", case);
        let opt = rand_options(&mut rng);
        let user_pw = rand_password(&mut rng, opt.variant.r);
        let owner_pw = rand_password(&mut rng, opt.variant.r);
        let d = build(&mut rng, &opt, &user_pw, &owner_pw);
        let (role, pw) = match rng.below(5) { 0 | 1 => ("user", user_pw.clone()), 2 | 3 => ("owner", owner_pw.clone()), _ => ("wrong", b"certainly wrong".to_vec()) };
        st.count(&format!("variant={}", d.variant.name));
        st.count(&format!("password={}", role));
        st.count(&format!("encryptMetadata={}", d.params.encrypt_metadata));
        reqs.push(doc_request(&d, &pw));
        imps.push(real_doc(&d, &pw));
        nts.push(role != "wrong");
    }
    run_stream(driver, &mut st, &reqs, &imps, &nts);
    st
}

pub fn run(driver: &Driver, rep: &mut Report, seed: u64, thorough: bool) {
    let t0 = std::time::Instant::now();
    let mut lap = |rep: &mut Report, what: &str, t0: &std::time::Instant| {
        rep.notes.push(format!("timing: {} done at {:.1}s", what, t0.elapsed().as_secs_f64()));
    };
    let mut prim_or = Oracle::new("c06.primitives");
    let (a, b) = rc4_streams(driver, seed, if thorough { 40_000 } else { 1500 }, &mut prim_or);
    rep.streams.push(a);
    rep.streams.push(b);
    rep.oracles.push(prim_or);
    lap(rep, "rc4", &t0);
    rep.streams.extend(decrypt_streams(driver, seed, if thorough { 60_000 } else { 2800 }));
    lap(rep, "decrypt", &t0);
    rep.streams.push(frompw_stream(driver, seed, if thorough { 12_000 } else { 840 }));
    lap(rep, "frompw", &t0);
    rep.streams.push(frompw_outside(driver, seed, if thorough { 12_000 } else { 600 }));
    lap(rep, "frompw.outside", &t0);
    rep.streams.push(doc_stream(driver, seed, 0, if thorough { 6000 } else { 300 }));
    lap(rep, "doc", &t0);
}

pub fn replay(driver: &Driver, rep: &mut Report, name: &str, seed: u64, case: u64) {
    match name {
        "c06.doc" => rep.streams.push(doc_stream(driver, seed, case, case + 1)),
        _ => run(driver, rep, seed, false),
    }
}
