//! Generator of complete encrypted documents for the C06 oracle: a plaintext object graph (strings in
//! nested arrays / dictionaries, streams with and without Flate, members of an object stream, Info
//! dictionary, metadata stream) is written through `pdfwrite.rs` with every string and stream encrypted by
//! the harness' own implementation of the standard (`c06_std.rs`). The plaintext is kept beside the
//! file as the ground truth.

use super::std_sec::*;
use crate::pdfwrite::*;
use crate::rng::Rng;

#[derive(Clone, Debug, PartialEq)]
pub enum PV {
    Str(Vec<u8>),
    Int(i64),
    Name(String),
    Bool(bool),
    Null,
    Ref(u64, u64),
    Arr(Vec<PV>),
    Dict(Vec<(String, PV)>),
}

#[derive(Clone, Debug)]
pub enum Body {
    Value(PV),
    /// dictionary entries (without /Length, /Filter), plaintext data, Flate?
    Stream(Vec<(String, PV)>, Vec<u8>, bool),
}

#[derive(Clone, Debug)]
pub struct Obj {
    pub id: u64,
    pub gen: u64,
    pub body: Body,
    /// stored inside the object stream (strings not encrypted individually)
    pub compressed: bool,
    /// role for the exemptions: 0 ordinary, 1 the encryption dictionary, 2 the metadata stream
    pub role: u8,
}

#[derive(Clone, Debug)]
pub struct Variant {
    pub name: &'static str,
    pub v: i32,
    pub r: u32,
    pub cipher: Cipher,
    /// file key length in bytes
    pub n: usize,
}

/// the entries of an encryption dictionary that `CryptDict` reads, in the form both the PDF text and
/// the model driver's request are rendered from
#[derive(Clone, Debug, Default)]
pub struct DictFields {
    pub o: Vec<u8>,
    pub u: Vec<u8>,
    pub r: i64,
    pub p: i64,
    pub v: i64,
    pub bits: Option<i64>,
    /// (name, CFM name or None for an absent CFM, Length, write /Type, write /AuthEvent)
    pub cf: Vec<(String, Option<String>, Option<i64>, bool, bool)>,
    pub stm_f: Option<String>,
    pub str_f: Option<String>,
    pub encrypt_metadata: Option<bool>,
    pub oe: Option<Vec<u8>>,
    pub ue: Option<Vec<u8>>,
    pub perms: Option<Vec<u8>>,
}

impl DictFields {
    pub fn to_pv(&self) -> PV {
        let mut ed: Vec<(String, PV)> = vec![("Filter".into(), PV::Name("Standard".into())), ("V".into(), PV::Int(self.v)), ("R".into(), PV::Int(self.r))];
        if let Some(b) = self.bits {
            ed.push(("Length".into(), PV::Int(b)));
        }
        if !self.cf.is_empty() {
            let mut cfs = vec![];
            for (name, cfm, len, ty, auth) in &self.cf {
                let mut cf: Vec<(String, PV)> = vec![];
                if *ty {
                    cf.push(("Type".into(), PV::Name("CryptFilter".into())));
                }
                if let Some(m) = cfm {
                    cf.push(("CFM".into(), PV::Name(m.clone())));
                }
                if *auth {
                    cf.push(("AuthEvent".into(), PV::Name("DocOpen".into())));
                }
                if let Some(l) = len {
                    cf.push(("Length".into(), PV::Int(*l)));
                }
                cfs.push((name.clone(), PV::Dict(cf)));
            }
            ed.push(("CF".into(), PV::Dict(cfs)));
        }
        if let Some(n) = &self.stm_f {
            ed.push(("StmF".into(), PV::Name(n.clone())));
        }
        if let Some(n) = &self.str_f {
            ed.push(("StrF".into(), PV::Name(n.clone())));
        }
        ed.push(("O".into(), PV::Str(self.o.clone())));
        ed.push(("U".into(), PV::Str(self.u.clone())));
        if let Some(x) = &self.oe {
            ed.push(("OE".into(), PV::Str(x.clone())));
        }
        if let Some(x) = &self.ue {
            ed.push(("UE".into(), PV::Str(x.clone())));
        }
        if let Some(x) = &self.perms {
            ed.push(("Perms".into(), PV::Str(x.clone())));
        }
        ed.push(("P".into(), PV::Int(self.p)));
        if let Some(b) = self.encrypt_metadata {
            ed.push(("EncryptMetadata".into(), PV::Bool(b)));
        }
        PV::Dict(ed)
    }
    /// `o;u;r;p;v;bits|-;cf;stmF|-;encMeta|-;oe|-;ue|-` (see lean/PdfModel/Drv/C06.lean)
    pub fn proto(&self) -> String {
        let h = |b: &[u8]| if b.is_empty() { "_".to_string() } else { crate::driver::hex(b) };
        let oh = |b: &Option<Vec<u8>>| b.as_ref().map(|x| h(x)).unwrap_or_else(|| "-".into());
        let cf = if self.cf.is_empty() {
            "~".to_string()
        } else {
            self.cf
                .iter()
                .map(|(n, m, l, _, _)| {
                    let m = match m.as_deref() { None | Some("None") => "none", Some("V2") => "v2", Some("AESV2") => "aesv2", Some("AESV3") => "aesv3", Some(x) => panic!("CFM {}", x) };
                    format!("{}={}.{}", h(n.as_bytes()), m, l.map(|x| x.to_string()).unwrap_or_else(|| "-".into()))
                })
                .collect::<Vec<_>>()
                .join("+")
        };
        format!(
            "{};{};{};{};{};{};{};{};{};{};{}",
            h(&self.o), h(&self.u), self.r, self.p, self.v,
            self.bits.map(|b| b.to_string()).unwrap_or_else(|| "-".into()),
            cf,
            self.stm_f.as_ref().map(|n| h(n.as_bytes())).unwrap_or_else(|| "-".into()),
            self.encrypt_metadata.map(|b| if b { "1" } else { "0" }.to_string()).unwrap_or_else(|| "-".into()),
            oh(&self.oe), oh(&self.ue)
        )
    }
}

/// the dictionary a conforming writer produces for `var` (the places where the key length may be
/// stated are chosen at random)
pub fn dict_fields(rng: &mut Rng, var: &Variant, e: &Entries, p: i32, encrypt_metadata: bool) -> (DictFields, &'static str) {
    let mut f = DictFields { o: e.o.clone(), u: e.u.clone(), r: var.r as i64, p: p as i64, v: var.v as i64, ..Default::default() };
    let mut desc_len = "dictLength";
    match var.v {
        1 => {
            if rng.chance(1, 2) {
                f.bits = Some(40);
            } else {
                desc_len = "noLength";
            }
        }
        2 => f.bits = Some(8 * var.n as i64),
        4 => {
            // the key length may be stated in the dictionary, in the crypt filter (in bytes), or both
            // no /Length at all: the 40 bit default for RC4; AESV2 has 128 bits by definition
            let mode = if var.n == 5 || var.cipher == Cipher::Aes128 { rng.below(3) } else { 1 + rng.below(2) };
            let mut cf_len = None;
            match mode {
                0 => desc_len = "noLength",
                1 => f.bits = Some(8 * var.n as i64),
                _ => {
                    f.bits = Some(8 * var.n as i64);
                    cf_len = Some(var.n as i64);
                    desc_len = "dict+cfLength";
                }
            }
            f.cf.push(("StdCF".into(), Some(if var.cipher == Cipher::Rc4 { "V2" } else { "AESV2" }.to_string()), cf_len, rng.chance(1, 2), rng.chance(1, 2)));
            f.stm_f = Some("StdCF".into());
            f.str_f = Some("StdCF".into());
        }
        _ => {
            let cf_len = if rng.chance(1, 2) { Some(32) } else { None };
            if rng.chance(1, 2) {
                f.bits = Some(256);
            }
            f.cf.push(("StdCF".into(), Some("AESV3".into()), cf_len, rng.chance(1, 2), rng.chance(1, 2)));
            f.stm_f = Some("StdCF".into());
            f.str_f = Some("StdCF".into());
        }
    }
    if var.r >= 5 {
        f.oe = Some(e.oe.clone());
        f.ue = Some(e.ue.clone());
        f.perms = Some(e.perms.clone());
    }
    if var.v >= 4 && (!encrypt_metadata || rng.chance(1, 2)) {
        f.encrypt_metadata = Some(encrypt_metadata);
    }
    (f, desc_len)
}

pub struct Doc {
    pub fields: DictFields,
    /// per object (parallel to `objects`): the strings as stored in the file, in document order, and
    /// for a stream its stored data as the last item
    pub stored: Vec<Vec<Vec<u8>>>,
    pub metadata_ref: Option<(u64, u64)>,
    pub bytes: Vec<u8>,
    pub variant: Variant,
    pub params: Params,
    pub entries: Entries,
    pub user_pw: Vec<u8>,
    pub owner_pw: Vec<u8>,
    pub objects: Vec<Obj>,
    pub encrypt_ref: Option<(u64, u64)>,
    pub info_ref: Option<(u64, u64)>,
    pub xref_stream: bool,
    pub desc: String,
}

pub fn variants() -> Vec<Variant> {
    let mut v = vec![Variant { name: "R2-RC4-40", v: 1, r: 2, cipher: Cipher::Rc4, n: 5 }];
    for n in 5..=16 {
        v.push(Variant { name: "R3-RC4", v: 2, r: 3, cipher: Cipher::Rc4, n });
    }
    for n in 5..=16 {
        v.push(Variant { name: "R4-RC4", v: 4, r: 4, cipher: Cipher::Rc4, n });
    }
    v.push(Variant { name: "R4-AES128", v: 4, r: 4, cipher: Cipher::Aes128, n: 16 });
    v.push(Variant { name: "R5-AES256", v: 5, r: 5, cipher: Cipher::Aes256, n: 32 });
    v.push(Variant { name: "R6-AES256", v: 5, r: 6, cipher: Cipher::Aes256, n: 32 });
    v
}

/// the variant families, for a balanced choice
pub fn pick_variant(rng: &mut Rng) -> Variant {
    let all = variants();
    let fam = rng.below(6);
    let name = ["R2-RC4-40", "R3-RC4", "R4-RC4", "R4-AES128", "R5-AES256", "R6-AES256"][fam as usize];
    let cands: Vec<&Variant> = all.iter().filter(|v| v.name == name).collect();
    // extremes of the key length more often than the middle
    if cands.len() > 1 && rng.chance(1, 2) {
        return (*rng.pick(&[cands[0], cands[cands.len() - 1]])).clone();
    }
    (*rng.pick(&cands)).clone()
}

fn lit_string(b: &[u8], rng: &mut Rng) -> Vec<u8> {
    // literal string: `\`, `(`, `)`, CR and LF always escaped; other bytes raw or (sometimes) octal
    let mut o = vec![b'('];
    for (i, &c) in b.iter().enumerate() {
        match c {
            b'\\' => o.extend_from_slice(b"\\\\"),
            b'(' => o.extend_from_slice(b"\\("),
            b')' => o.extend_from_slice(b"\\)"),
            b'\r' => o.extend_from_slice(b"\\r"),
            b'\n' => o.extend_from_slice(b"\\n"),
            _ => {
                let _ = i;
                if rng.chance(1, 12) {
                    o.extend_from_slice(format!("\\{:03o}", c).as_bytes());
                } else {
                    o.push(c);
                }
            }
        }
    }
    o.push(b')');
    o
}

fn hex_string(b: &[u8], rng: &mut Rng) -> Vec<u8> {
    let upper = rng.chance(1, 2);
    let mut o = vec![b'<'];
    for c in b {
        o.extend_from_slice(if upper { format!("{:02X}", c) } else { format!("{:02x}", c) }.as_bytes());
    }
    o.push(b'>');
    o
}

/// serialise with every string passed through `enc`
pub fn ser(pv: &PV, enc: &mut dyn FnMut(&[u8]) -> Vec<u8>, rng: &mut Rng, out: &mut Vec<u8>) {
    ser_opt(pv, enc, rng, out, false)
}

pub fn ser_opt(pv: &PV, enc: &mut dyn FnMut(&[u8]) -> Vec<u8>, rng: &mut Rng, out: &mut Vec<u8>, hex_only: bool) {
    match pv {
        PV::Str(s) => {
            let c = enc(s);
            out.extend(if hex_only || rng.chance(1, 2) { hex_string(&c, rng) } else { lit_string(&c, rng) });
        }
        PV::Int(i) => out.extend_from_slice(format!("{}", i).as_bytes()),
        PV::Name(n) => {
            out.push(b'/');
            out.extend_from_slice(n.as_bytes());
        }
        PV::Bool(b) => out.extend_from_slice(if *b { b"true" } else { b"false" }),
        PV::Null => out.extend_from_slice(b"null"),
        PV::Ref(a, b) => out.extend_from_slice(format!("{} {} R", a, b).as_bytes()),
        PV::Arr(xs) => {
            out.push(b'[');
            for (i, x) in xs.iter().enumerate() {
                if i > 0 {
                    out.push(b' ');
                }
                ser_opt(x, enc, rng, out, hex_only);
            }
            out.push(b']');
        }
        PV::Dict(kvs) => {
            out.extend_from_slice(b"<<");
            for (k, v) in kvs {
                out.push(b' ');
                out.push(b'/');
                out.extend_from_slice(k.as_bytes());
                out.push(b' ');
                ser_opt(v, enc, rng, out, hex_only);
            }
            out.extend_from_slice(b" >>");
        }
    }
}

/// plaintext lengths that matter: empty, 1, block-aligned, one off
pub fn rand_len(rng: &mut Rng) -> usize {
    match rng.below(10) {
        0 => 0,
        1 => 1,
        2 => 15,
        3 => 16,
        4 => 17,
        5 => 31,
        6 => 32,
        7 => 48,
        _ => rng.usize(70),
    }
}

pub fn rand_plain(rng: &mut Rng) -> Vec<u8> {
    let n = rand_len(rng);
    match rng.below(4) {
        0 => (0..n).map(|_| b"Hello, world () \\ \r\n"[rng.usize(20)]).collect(),
        1 => (0..n).map(|_| (0x20 + rng.below(0x5f)) as u8).collect(),
        _ => rng.bytes(n),
    }
}

fn rand_value(rng: &mut Rng, depth: u32) -> PV {
    match rng.below(if depth == 0 { 5 } else { 8 }) {
        0 | 1 | 2 => PV::Str(rand_plain(rng)),
        3 => PV::Int(rng.range(-1000, 1000)),
        4 => PV::Name(["Alpha", "Beta", "Gamma"][rng.usize(3)].to_string()),
        5 => PV::Arr((0..rng.usize(4)).map(|_| rand_value(rng, depth - 1)).collect()),
        _ => {
            let n = rng.usize(4);
            PV::Dict((0..n).map(|i| (format!("K{}", i), rand_value(rng, depth - 1))).collect())
        }
    }
}

pub fn rand_password(rng: &mut Rng, r: u32) -> Vec<u8> {
    if r >= 5 {
        match rng.below(12) {
            0 => vec![],
            1 => "I\u{00AD}X".as_bytes().to_vec(),
            2 => "p\u{00E9}".as_bytes().to_vec(),
            3 => (0..127 + rng.usize(10)).map(|_| (0x21 + rng.below(0x5e)) as u8).collect(), // truncation at 127
            _ => (0..1 + rng.usize(12)).map(|_| (0x20 + rng.below(0x5f)) as u8).collect(),
        }
    } else {
        match rng.below(12) {
            0 => vec![],
            1 => rng.bytes(32),
            2 => { let k = 33 + rng.usize(8); rng.bytes(k) } // only the first 32 bytes count
            3 => rng.bytes(31),
            4 => { let k = 1 + rng.usize(10); rng.bytes(k) }
            _ => (0..1 + rng.usize(12)).map(|_| (0x20 + rng.below(0x5f)) as u8).collect(),
        }
    }
}

/// deliberate damage to the encryption dictionary (regression witnesses of D18)
#[derive(Clone, Copy, Debug, PartialEq)]
pub enum Tweak {
    /// `/Length 0` (and no crypt filter length): a key of zero bytes
    LengthZero,
    /// `/Length 4` with V 4: below one byte
    LengthFour,
    /// no `/Length` anywhere (neither in the dictionary nor in the crypt filter)
    NoLength,
    /// `/UE <>`
    EmptyUE,
    /// `/UE` and `/OE` of 16 bytes
    ShortUEOE,
}

pub struct DocOptions {
    /// V < 4 only: the dictionary carries `/EncryptMetadata false`, which has no meaning there (the writer
    /// encrypts the metadata stream like everything else and Algorithm 2 does not look at the entry)
    pub stray_em_false: bool,
    pub tweak: Option<Tweak>,
    pub variant: Variant,
    pub encrypt_metadata: bool,
    /// the encryption dictionary as an indirect object (false: direct in the trailer)
    pub indirect_encrypt: bool,
    pub xref_stream: bool,
    pub with_metadata: bool,
    pub with_objstm: bool,
}

pub fn rand_options(rng: &mut Rng) -> DocOptions {
    let variant = pick_variant(rng);
    let encrypt_metadata = if variant.v >= 4 { rng.chance(1, 2) } else { true };
    let stray_em_false = variant.v < 4 && rng.chance(1, 4);
    DocOptions { stray_em_false, tweak: None, variant, encrypt_metadata, indirect_encrypt: !rng.chance(1, 5), xref_stream: rng.chance(1, 2), with_metadata: rng.chance(3, 4), with_objstm: rng.chance(1, 2) }
}

fn rand_ids(rng: &mut Rng, k: usize, from: u64) -> Vec<(u64, u64)> {
    // distinct object numbers; a few above 65535 (third key byte), generations with both bytes used
    let mut ids: Vec<u64> = vec![];
    while ids.len() < k {
        let id = match rng.below(8) {
            0 => 65536 + rng.below(3000),
            1 => 256 + rng.below(2000),
            _ => from + rng.below(40),
        };
        if !ids.contains(&id) {
            ids.push(id);
        }
    }
    ids.into_iter().map(|id| (id, *rng.pick(&[0u64, 0, 0, 1, 2, 255, 256, 65535, 4660]))).collect()
}

/// Build and write one encrypted document.
pub fn build(rng: &mut Rng, opt: &DocOptions, user_pw: &[u8], owner_pw: &[u8]) -> Doc {
    let var = opt.variant.clone();
    let id_len = if rng.chance(1, 8) { rng.usize(40) } else { 16 };
    let id0 = rng.bytes(id_len);
    let p: i32 = *rng.pick(&[-4, -44, -3904, -1, 0, i32::MIN, i32::MAX, -1340]);
    let params = Params { r: var.r, n: var.n, cipher: var.cipher, p, id0: id0.clone(), encrypt_metadata: opt.encrypt_metadata };
    let mut quiet = Rec::off();
    let mut rnd_src = Rng::derive(rng.next(), "c06.entries", 0);
    let mut rnd = |k: usize| rnd_src.bytes(k);
    let entries = make_entries(&mut quiet, &params, user_pw, owner_pw, &mut rnd);

    // fixed skeleton: 1 catalog, 2 pages, 3 page, 4 content stream, 5 info, 6 encrypt, 7 metadata, 8 object stream, 9 xref stream
    let mut objects: Vec<Obj> = vec![];
    let with_meta = opt.with_metadata;
    let mut cat = vec![("Type".to_string(), PV::Name("Catalog".into())), ("Pages".to_string(), PV::Ref(2, 0))];
    if with_meta {
        cat.push(("Metadata".to_string(), PV::Ref(7, 0)));
    }
    cat.push(("Lang".to_string(), PV::Str(b"en-GB".to_vec())));
    objects.push(Obj { id: 1, gen: 0, body: Body::Value(PV::Dict(cat)), compressed: false, role: 0 });
    objects.push(Obj { id: 2, gen: 0, body: Body::Value(PV::Dict(vec![("Type".into(), PV::Name("Pages".into())), ("Kids".into(), PV::Arr(vec![PV::Ref(3, 0)])), ("Count".into(), PV::Int(1))])), compressed: false, role: 0 });
    objects.push(Obj {
        id: 3,
        gen: 0,
        body: Body::Value(PV::Dict(vec![
            ("Type".into(), PV::Name("Page".into())),
            ("Parent".into(), PV::Ref(2, 0)),
            ("MediaBox".into(), PV::Arr(vec![PV::Int(0), PV::Int(0), PV::Int(612), PV::Int(792)])),
            ("Contents".into(), PV::Ref(4, 0)),
        ])),
        compressed: false,
        role: 0,
    });
    let content = format!("BT /F1 12 Tf 72 {} Td (page text {}) Tj ET", 700 - rng.below(100), rng.below(1000)).into_bytes();
    objects.push(Obj { id: 4, gen: 0, body: Body::Stream(vec![], content, rng.chance(1, 2)), compressed: false, role: 0 });
    let info = PV::Dict(vec![("Title".into(), PV::Str(rand_plain(rng))), ("Author".into(), PV::Str(b"A. U. Thor".to_vec())), ("Producer".into(), PV::Str(rand_plain(rng)))]);
    objects.push(Obj { id: 5, gen: 0, body: Body::Value(info), compressed: false, role: 0 });
    if with_meta {
        let xml = format!("<?xpacket begin=''?><x:xmpmeta>{}</x:xmpmeta>", rng.below(100000)).into_bytes();
        objects.push(Obj { id: 7, gen: 0, body: Body::Stream(vec![("Type".into(), PV::Name("Metadata".into())), ("Subtype".into(), PV::Name("XML".into()))], xml, false), compressed: false, role: 2 });
    }
    // free-form objects: direct ones with arbitrary ids / generations, and members of the object stream
    let ndirect = 2 + rng.usize(4);
    for (id, gen) in rand_ids(rng, ndirect, 20) {
        let body = if rng.chance(1, 3) {
            let n = rand_len(rng) * if rng.chance(1, 6) { 40 } else { 1 };
            let data = if rng.chance(1, 2) { rng.bytes(n) } else { (0..n).map(|i| b"stream data "[i % 12]).collect() };
            let extra = if rng.chance(1, 2) { vec![("Note".to_string(), PV::Str(rand_plain(rng)))] } else { vec![] };
            Body::Stream(extra, data, rng.chance(1, 2))
        } else {
            Body::Value(rand_value(rng, 2))
        };
        objects.push(Obj { id, gen, body, compressed: false, role: 0 });
    }
    let use_objstm = opt.with_objstm && opt.xref_stream;
    if use_objstm {
        let mut ids: Vec<u64> = vec![];
        while ids.len() < 1 + rng.usize(3) {
            let id = 100 + rng.below(60);
            if !ids.contains(&id) && !objects.iter().any(|o| o.id == id) {
                ids.push(id);
            }
        }
        for id in ids {
            let v = match rand_value(rng, 2) {
                PV::Int(i) => PV::Arr(vec![PV::Int(i), PV::Str(rand_plain(rng))]),
                x => x,
            };
            objects.push(Obj { id, gen: 0, body: Body::Value(v), compressed: true, role: 0 });
        }
    }

    // the encryption dictionary (plaintext strings, never encrypted)
    let (mut fields, desc_len) = dict_fields(rng, &var, &entries, p, opt.encrypt_metadata);
    if opt.stray_em_false && var.v < 4 {
        fields.encrypt_metadata = Some(false);
    }
    match opt.tweak {
        None => {}
        Some(Tweak::LengthZero) => {
            fields.bits = Some(0);
            for cf in fields.cf.iter_mut() { cf.2 = None; }
        }
        Some(Tweak::LengthFour) => {
            fields.bits = Some(4);
            for cf in fields.cf.iter_mut() { cf.2 = None; }
        }
        Some(Tweak::NoLength) => {
            fields.bits = None;
            for cf in fields.cf.iter_mut() { cf.2 = None; }
        }
        Some(Tweak::EmptyUE) => fields.ue = Some(vec![]),
        Some(Tweak::ShortUEOE) => {
            fields.ue = fields.ue.map(|x| x[..16].to_vec());
            fields.oe = fields.oe.map(|x| x[..16].to_vec());
        }
    }
    let encrypt_pv = fields.to_pv();
    if opt.indirect_encrypt {
        objects.push(Obj { id: 6, gen: 0, body: Body::Value(encrypt_pv.clone()), compressed: false, role: 1 });
    }

    // ---- write
    let mut w = PdfWriter::new(b"", if var.v >= 5 { "2.0" } else { "1.6" });
    w.free(0, 0, 65535);
    let mut ivrng = Rng::derive(rng.next(), "c06.iv", 0);
    let file_key = entries.file_key.clone();
    let cipher = var.cipher;
    let mut wrng = Rng::derive(rng.next(), "c06.syntax", 0);
    let mut members: Vec<(u64, Vec<u8>)> = vec![];
    let mut stored_all: Vec<Vec<Vec<u8>>> = vec![];
    for o in &objects {
        let (id, gen) = (o.id, o.gen);
        let exempt_strings = o.role == 1 || o.compressed;
        let mut stored: Vec<Vec<u8>> = vec![];
        let mut enc = |s: &[u8]| -> Vec<u8> {
            let c = if exempt_strings {
                s.to_vec()
            } else {
                let mut iv = [0u8; 16];
                iv.copy_from_slice(&ivrng.bytes(16));
                encrypt_object(&mut quiet, cipher, &file_key, id, gen, s, &iv)
            };
            stored.push(c.clone());
            c
        };
        match &o.body {
            Body::Value(v) => {
                let mut b = vec![];
                ser(v, &mut enc, &mut wrng, &mut b);
                if o.compressed {
                    members.push((o.id, b));
                } else {
                    w.object(id, gen, &b);
                }
                stored_all.push(stored);
            }
            Body::Stream(d, data, flate) => {
                let mut dict = vec![];
                for (k, v) in d {
                    dict.push(b'/');
                    dict.extend_from_slice(k.as_bytes());
                    dict.push(b' ');
                    ser(v, &mut enc, &mut wrng, &mut dict);
                    dict.push(b' ');
                }
                let filtered = if *flate { zlib(data) } else { data.clone() };
                if *flate {
                    dict.extend_from_slice(b"/Filter /FlateDecode");
                }
                let stored_strs = std::mem::take(&mut stored);
                let exempt_stream = o.role == 2 && !opt.encrypt_metadata;
                let stored = if exempt_stream {
                    filtered
                } else {
                    let mut iv = [0u8; 16];
                    iv.copy_from_slice(&wrng.bytes(16));
                    encrypt_object(&mut Rec::off(), cipher, &file_key, id, gen, &filtered, &iv)
                };
                let mut body = b"<< ".to_vec();
                body.extend_from_slice(&dict);
                body.extend_from_slice(format!(" /Length {} >>\nstream\n", stored.len()).as_bytes());
                body.extend_from_slice(&stored);
                body.extend_from_slice(b"\nendstream");
                w.object(id, gen, &body);
                let mut items = stored_strs;
                items.push(stored);
                stored_all.push(items);
            }
        }
    }
    if !members.is_empty() {
        // the object stream: its data (after Flate) is encrypted like any other stream, the strings inside are not
        let mut data = Vec::new();
        let mut head = String::new();
        let mut body = Vec::new();
        for (id, b) in &members {
            head.push_str(&format!("{} {} ", id, body.len()));
            body.extend_from_slice(b);
            body.push(b'\n');
        }
        let first = head.len();
        data.extend_from_slice(head.as_bytes());
        data.extend_from_slice(&body);
        let flate = wrng.chance(1, 2);
        let filtered = if flate { zlib(&data) } else { data };
        let mut iv = [0u8; 16];
        iv.copy_from_slice(&wrng.bytes(16));
        let stored = encrypt_object(&mut Rec::off(), cipher, &file_key, 8, 0, &filtered, &iv);
        let dict = format!("/Type /ObjStm /N {} /First {} {}", members.len(), first, if flate { "/Filter /FlateDecode" } else { "" });
        w.object(8, 0, &stream_body(&dict, &stored));
        for (i, (id, _)) in members.iter().enumerate() {
            w.record(*id, Entry::Compressed { stm: 8, idx: i as u64 });
        }
    }
    let max_id = objects.iter().map(|o| o.id).max().unwrap().max(9);
    let mut trailer = String::from("/Root 1 0 R /Info 5 0 R");
    let hexid = crate::driver::hex(&id0);
    let id_txt = if id0.is_empty() { "<>".to_string() } else { format!("<{}>", hexid) };
    trailer.push_str(&format!(" /ID [{} {}]", id_txt, id_txt));
    if opt.indirect_encrypt {
        trailer.push_str(" /Encrypt 6 0 R");
    } else {
        let mut b = vec![];
        ser_opt(&encrypt_pv, &mut |s: &[u8]| s.to_vec(), &mut wrng, &mut b, true);
        trailer.push_str(" /Encrypt ");
        trailer.push_str(std::str::from_utf8(&b).expect("hex-only dictionary is ASCII"));
    }
    let fmt = if opt.xref_stream { XrefFormat::Stream } else { XrefFormat::Classic };
    w.finish(fmt, max_id + 1, &trailer, &[], 9);
    let desc = format!(
        "{} n={} {} encryptMetadata={} {} {} objstm={} metadata={} upw={} opw={}{}",
        var.name, var.n, desc_len, opt.encrypt_metadata, if opt.xref_stream { "xrefstream" } else { "classic" }, if opt.indirect_encrypt { "encrypt=indirect" } else { "encrypt=direct" }, use_objstm, with_meta, user_pw.len(), owner_pw.len(),
        format!("{}{}", opt.tweak.map(|t| format!(" tweak={:?}", t)).unwrap_or_default(), if opt.stray_em_false && var.v < 4 { " strayEncryptMetadataFalse" } else { "" })
    );
    Doc {
        bytes: w.out.clone(),
        variant: var,
        params,
        entries,
        user_pw: user_pw.to_vec(),
        owner_pw: owner_pw.to_vec(),
        objects,
        fields,
        stored: stored_all,
        metadata_ref: if with_meta { Some((7, 0)) } else { None },
        encrypt_ref: if opt.indirect_encrypt { Some((6, 0)) } else { None },
        info_ref: Some((5, 0)),
        xref_stream: opt.xref_stream,
        desc,
    }
}
